"""Type-directed generators of message descriptions (canonical JSON, see pdus.py) for every class in the
server and client decoder tables, and constructors of the REAL pymodbus objects from them."""
from pymodbus import bit_read_message as brm, bit_write_message as bwm
from pymodbus import register_read_message as rrm, register_write_message as rwm
from pymodbus import diag_message as dm, other_message as om, file_message as fm, mei_message as mm
from pymodbus import pdu as pdu_mod
from pymodbus.factory import ServerDecoder, ClientDecoder

from harness import pdus

U16 = [0, 1, 0xFF, 0x100, 0x7FFF, 0x8000, 0xFFFF]
DIAG_SUBS = [0, 1, 2, 3, 4, 10, 11, 12, 13, 14, 15, 16, 17, 18, 19, 20, 21]


def u16(rng):
    return rng.choice(U16) if rng.random() < 0.4 else rng.randrange(65536)


def u8(rng):
    return rng.choice([0, 1, 0x7F, 0x80, 0xFF]) if rng.random() < 0.4 else rng.randrange(256)


def length(rng, maxn):
    c = [0, 1, 7, 8, 9, 15, 16, 17, maxn - 1, maxn]
    n = rng.choice(c) if rng.random() < 0.5 else rng.randrange(0, maxn + 1)
    return max(0, min(n, maxn))


def regs(rng, n):
    return [u16(rng) for _ in range(n)]


def bytes_(rng, n, hot=()):
    pool = list(hot) + [0, 0xFF, 0x7B, 0x7D, 0x0D, 0x0A, 0x3A]
    return [rng.choice(pool) if rng.random() < 0.25 else rng.randrange(256) for _ in range(n)]


def sub_table(decoder):
    name = '_%s__sub_lookup' % type(decoder).__name__
    return getattr(decoder, name)


_SD, _CD = ServerDecoder(), ClientDecoder()


def _diag_classes():
    """sub-function code -> (request class, response class), taken from the classes of diag_message.py themselves
    (NOT from the decoders' lookup tables, which are what the checks test)"""
    req, resp = {}, {}
    for name in dir(dm):
        c = getattr(dm, name)
        if isinstance(c, type) and isinstance(getattr(c, 'sub_function_code', None), int) and c.sub_function_code != 9999:
            if issubclass(c, dm.DiagnosticStatusRequest) and name.endswith('Request'):
                req.setdefault(c.sub_function_code, c)
            elif issubclass(c, dm.DiagnosticStatusResponse) and name.endswith('Response'):
                resp.setdefault(c.sub_function_code, c)
    return req, resp


_DIAG_REQ, _DIAG_RESP = _diag_classes()


def diag_class(sub, request):
    return (_DIAG_REQ if request else _DIAG_RESP).get(sub, dm.DiagnosticStatusRequest if request else dm.DiagnosticStatusResponse)


def msg_from_json(m):
    k = m['k']
    if k == 'none':
        return None
    if k == 'int':
        return m['n']
    if k == 'list':
        return list(m['ws'])
    if k == 'tuple':
        return tuple(m['ws'])
    return bytes(m['bs'])


# ------------------------------------------------------------------ real objects from descriptions
def mk_req(j):
    t = j['t']
    if t == 'readCoils':
        return brm.ReadCoilsRequest(j['address'], j['count'])
    if t == 'readDiscrete':
        return brm.ReadDiscreteInputsRequest(j['address'], j['count'])
    if t == 'readHolding':
        return rrm.ReadHoldingRegistersRequest(j['address'], j['count'])
    if t == 'readInput':
        return rrm.ReadInputRegistersRequest(j['address'], j['count'])
    if t == 'writeCoil':
        o = bwm.WriteSingleCoilRequest(j['address'], j['word'] == 0xFF00)
        if j['word'] not in (0xFF00, 0):
            o._raw_value = j['word']
        return o
    if t == 'writeRegister':
        return rwm.WriteSingleRegisterRequest(j['address'], j['value'])
    if t == 'writeCoils':
        o = bwm.WriteMultipleCoilsRequest(j['address'], list(j['values']))
        o.byte_count = j['byte_count']
        if j['count'] != len(j['values']):
            o._quantity = j['count']
        return o
    if t == 'writeRegisters':
        o = rwm.WriteMultipleRegistersRequest(j['address'], list(j['values']))
        o.count, o.byte_count = j['count'], j['byte_count']
        return o
    if t == 'maskWrite':
        return rwm.MaskWriteRegisterRequest(j['address'], j['and_mask'], j['or_mask'])
    if t == 'readWrite':
        o = rrm.ReadWriteMultipleRegistersRequest(read_address=j['read_address'], read_count=j['read_count'],
                                                  write_address=j['write_address'], write_registers=list(j['write_registers']))
        o.write_count, o.write_byte_count = j['write_count'], j['write_byte_count']
        return o
    if t == 'diag':
        o = dm.DiagnosticStatusRequest()
        o.sub_function_code = j['sub']
        o.message = msg_from_json(j['message'])
        o.__class__ = diag_class(j['sub'], True)
        return o
    if t == 'readExceptionStatus':
        return om.ReadExceptionStatusRequest()
    if t == 'getCommEventCounter':
        return om.GetCommEventCounterRequest()
    if t == 'getCommEventLog':
        return om.GetCommEventLogRequest()
    if t == 'reportSlaveId':
        return om.ReportSlaveIdRequest()
    if t == 'readFileRecord':
        return fm.ReadFileRecordRequest([pdus.mk_file_rec(r) for r in j['records']])
    if t == 'writeFileRecord':
        return fm.WriteFileRecordRequest([pdus.mk_file_rec(r) for r in j['records']])
    if t == 'readFifo':
        return fm.ReadFifoQueueRequest(j['address'])
    if t == 'readDeviceInfo':
        o = mm.ReadDeviceInformationRequest(j['read_code'], j['object_id'])
        o.read_code = j['read_code']
        o.sub_function_code = j['sub']
        return o
    if t == 'illegalFunction':
        return pdu_mod.IllegalFunctionRequest(j['fc'])
    raise ValueError(t)


def mk_resp(j):
    t = j['t']
    if t == 'readCoils':
        return brm.ReadCoilsResponse(list(j['bits']))
    if t == 'readDiscrete':
        return brm.ReadDiscreteInputsResponse(list(j['bits']))
    if t == 'readHolding':
        return rrm.ReadHoldingRegistersResponse(list(j['registers']))
    if t == 'readInput':
        return rrm.ReadInputRegistersResponse(list(j['registers']))
    if t == 'writeCoil':
        return bwm.WriteSingleCoilResponse(j['address'], j['value'])
    if t == 'writeRegister':
        return rwm.WriteSingleRegisterResponse(j['address'], j['value'])
    if t == 'writeCoils':
        return bwm.WriteMultipleCoilsResponse(j['address'], j['count'])
    if t == 'writeRegisters':
        return rwm.WriteMultipleRegistersResponse(j['address'], j['count'])
    if t == 'maskWrite':
        return rwm.MaskWriteRegisterResponse(j['address'], j['and_mask'], j['or_mask'])
    if t == 'readWrite':
        return rrm.ReadWriteMultipleRegistersResponse(list(j['registers']))
    if t == 'diag':
        o = dm.DiagnosticStatusResponse()
        o.sub_function_code = j['sub']
        o.message = msg_from_json(j['message'])
        o.__class__ = diag_class(j['sub'], False)
        return o
    if t == 'readExceptionStatus':
        return om.ReadExceptionStatusResponse(j['status'])
    if t == 'getCommEventCounter':
        o = om.GetCommEventCounterResponse(j['count'])
        o.status = j['status']
        return o
    if t == 'getCommEventLog':
        return om.GetCommEventLogResponse(status=j['status'], message_count=j['message_count'],
                                          event_count=j['event_count'], events=list(j['events']))
    if t == 'reportSlaveId':
        return om.ReportSlaveIdResponse(bytes(j['identifier']), j['status'])
    if t == 'readFileRecord':
        return fm.ReadFileRecordResponse([pdus.mk_file_rec(r) for r in j['records']])
    if t == 'writeFileRecord':
        return fm.WriteFileRecordResponse([pdus.mk_file_rec(r) for r in j['records']])
    if t == 'readFifo':
        return fm.ReadFifoQueueResponse(list(j['values']))
    if t == 'readDeviceInfo':
        info = {}
        for k, vs in j['information']:
            info[k] = bytes(vs[0]) if len(vs) == 1 else [bytes(v) for v in vs]
        o = mm.ReadDeviceInformationResponse(j['read_code'], info)
        o.read_code = j['read_code']
        o.conformity, o.more_follows = j['conformity'], j['more_follows']
        o.next_object_id, o.number_of_objects = j['next_object_id'], j['number_of_objects']
        return o
    if t == 'exception':
        return pdu_mod.ExceptionResponse(j['fc'], j['code'])
    raise ValueError(t)


# ------------------------------------------------------------------ generators (well-formed messages)
def file_rec_write(rng, maxwords):
    n = rng.randrange(0, maxwords + 1)
    data = bytes_(rng, 2 * n)
    return {'rt': 6, 'fn': u16(rng), 'rn': u16(rng), 'data': data, 'rl': n, 'resp_len': len(data) + 1}


def gen_req(rng, t=None):
    t = t or rng.choice(REQ_TYPES)
    if t in ('readCoils', 'readDiscrete', 'readHolding', 'readInput'):
        lim = 2000 if t in ('readCoils', 'readDiscrete') else 125
        cnt = rng.choice([0, 1, lim - 1, lim, lim + 1, 0xFFFF, rng.randrange(65536)])
        return {'t': t, 'address': u16(rng), 'count': cnt}
    if t == 'writeCoil':
        return {'t': t, 'address': u16(rng), 'word': rng.choice([0xFF00, 0])}
    if t == 'writeRegister':
        return {'t': t, 'address': u16(rng), 'value': u16(rng)}
    if t == 'writeCoils':
        n = length(rng, 1968)
        return {'t': t, 'address': u16(rng), 'count': n, 'byte_count': (n + 7) // 8,
                'values': [rng.random() < 0.5 for _ in range(n)]}
    if t == 'writeRegisters':
        n = length(rng, 123)
        return {'t': t, 'address': u16(rng), 'count': n, 'byte_count': 2 * n, 'values': regs(rng, n)}
    if t == 'maskWrite':
        return {'t': t, 'address': u16(rng), 'and_mask': u16(rng), 'or_mask': u16(rng)}
    if t == 'readWrite':
        n = length(rng, 121)
        return {'t': t, 'read_address': u16(rng), 'read_count': rng.choice([0, 1, 125, 126, rng.randrange(65536)]),
                'write_address': u16(rng), 'write_count': n, 'write_byte_count': 2 * n, 'write_registers': regs(rng, n)}
    if t == 'diag':
        sub = rng.choice(DIAG_SUBS + [5, 9, 22, 0xFFFF, rng.randrange(65536)])
        return {'t': t, 'sub': sub, 'message': {'k': 'int', 'n': u16(rng)}}
    if t in ('readExceptionStatus', 'getCommEventCounter', 'getCommEventLog', 'reportSlaveId'):
        return {'t': t}
    if t == 'readFileRecord':
        n = length(rng, 35)
        return {'t': t, 'records': [{'rt': 6, 'fn': u16(rng), 'rn': u16(rng), 'data': [], 'rl': u16(rng), 'resp_len': 1}
                                    for _ in range(n)]}
    if t == 'writeFileRecord':
        recs, room = [], 250
        for _ in range(rng.randrange(0, 6)):
            r = file_rec_write(rng, min(20, max(0, (room - 7) // 2)))
            if 7 + len(r['data']) > room:
                break
            room -= 7 + len(r['data'])
            recs.append(r)
        return {'t': t, 'records': recs}
    if t == 'readFifo':
        return {'t': t, 'address': u16(rng)}
    if t == 'readDeviceInfo':
        return {'t': t, 'sub': 0x0E, 'read_code': rng.choice([1, 2, 3, 4, 0, 5, u8(rng)]) or 1, 'object_id': u8(rng)}
    raise ValueError(t)


REQ_TYPES = ['readCoils', 'readDiscrete', 'readHolding', 'readInput', 'writeCoil', 'writeRegister', 'writeCoils',
             'writeRegisters', 'maskWrite', 'readWrite', 'diag', 'readExceptionStatus', 'getCommEventCounter',
             'getCommEventLog', 'reportSlaveId', 'readFileRecord', 'writeFileRecord', 'readFifo', 'readDeviceInfo']


def gen_resp(rng, t=None):
    t = t or rng.choice(RESP_TYPES)
    if t in ('readCoils', 'readDiscrete'):
        n = length(rng, 2000)
        return {'t': t, 'bits': [int(rng.random() < 0.5) for _ in range(n)]}
    if t in ('readHolding', 'readInput', 'readWrite'):
        n = length(rng, 125)
        return {'t': t, 'registers': regs(rng, n)}
    if t == 'writeCoil':
        return {'t': t, 'address': u16(rng), 'value': rng.choice([0, 1])}
    if t == 'writeRegister':
        return {'t': t, 'address': u16(rng), 'value': u16(rng)}
    if t in ('writeCoils', 'writeRegisters'):
        return {'t': t, 'address': u16(rng), 'count': u16(rng)}
    if t == 'maskWrite':
        return {'t': t, 'address': u16(rng), 'and_mask': u16(rng), 'or_mask': u16(rng)}
    if t == 'diag':
        sub = rng.choice(DIAG_SUBS + [5, 9, 22, 0xFFFF])
        n = rng.choice([0, 1, 1, 1, 2, 3, 54, 125])
        if rng.random() < 0.3:
            return {'t': t, 'sub': sub, 'message': {'k': 'int', 'n': u16(rng)}}
        return {'t': t, 'sub': sub, 'message': {'k': 'list', 'ws': regs(rng, n)}}
    if t == 'readExceptionStatus':
        return {'t': t, 'status': u8(rng)}
    if t == 'getCommEventCounter':
        return {'t': t, 'status': rng.random() < 0.5, 'count': u16(rng)}
    if t == 'getCommEventLog':
        return {'t': t, 'status': rng.random() < 0.5, 'event_count': u16(rng), 'message_count': u16(rng),
                'events': bytes_(rng, length(rng, 64 if rng.random() < 0.7 else 245))}     # (a device's log holds 64; the PDU has room for 245)
    if t == 'reportSlaveId':
        return {'t': t, 'identifier': bytes_(rng, length(rng, 250)), 'status': rng.random() < 0.5}
    if t == 'readFileRecord':
        recs, room = [], 250
        for _ in range(rng.randrange(0, 6)):
            n = rng.randrange(0, 20)
            data = bytes_(rng, 2 * n)
            if 2 + len(data) > room:
                break
            room -= 2 + len(data)
            recs.append({'rt': 6, 'fn': 0, 'rn': 0, 'data': data, 'rl': n, 'resp_len': len(data) + 1})
        return {'t': t, 'records': recs}
    if t == 'writeFileRecord':
        return dict(gen_req(rng, 'writeFileRecord'), t=t)
    if t == 'readFifo':
        return {'t': t, 'values': regs(rng, length(rng, 31))}
    if t == 'readDeviceInfo':
        ids = sorted(set(rng.choice([0, 1, 2, 3, 6, 0x80, 0xFF, rng.randrange(256)]) for _ in range(rng.randrange(0, 6))))
        info, room = [], 247
        nobj = 0
        for k in ids:
            # an object id may occur several times in one response (the decoder then keeps a list of values)
            vs = [bytes_(rng, rng.choice([0, 0, 1, 5, 20, 60])) for _ in range(rng.choice([1, 1, 1, 2, 3]))]
            need = sum(2 + len(v) for v in vs)
            if room - need <= 0:
                break
            room -= need
            nobj += len(vs)
            info.append([k, vs])
        return {'t': t, 'read_code': rng.choice([1, 2, 3, 4]), 'conformity': rng.choice([0x01, 0x81, 0x83]),
                'more_follows': rng.choice([0, 0, 0xFF]), 'next_object_id': u8(rng), 'number_of_objects': nobj,
                'information': info}
    if t == 'exception':
        return {'t': t, 'fc': rng.choice([1, 2, 3, 4, 5, 6, 7, 8, 11, 12, 15, 16, 17, 20, 21, 22, 23, 24, 43, rng.randrange(1, 128)]),
                'code': u8(rng)}
    raise ValueError(t)


def devinfo_boundary(rng):
    """device-identification responses whose object area totals exactly 244..248 bytes (the 253-byte PDU limit
    is reached at 246), split over 1..4 objects"""
    out = []
    for total in (244, 245, 246, 247, 248):
        for nobj in (1, 2, 3, 4):
            room = total - 2 * nobj
            if room < 0:
                continue
            cuts = sorted(rng.randrange(0, room + 1) for _ in range(nobj - 1))
            lens = [b - a for a, b in zip([0] + cuts, cuts + [room])]
            info = [[k, [bytes_(rng, n)]] for k, n in enumerate(lens)]
            fits = total <= 246
            out.append({'t': 'readDeviceInfo', 'read_code': 1, 'conformity': 0x83, 'more_follows': 0,
                        'next_object_id': 0, 'number_of_objects': nobj if fits else 0, 'information': info})
    return out


RESP_TYPES = ['readCoils', 'readDiscrete', 'readHolding', 'readInput', 'writeCoil', 'writeRegister', 'writeCoils',
              'writeRegisters', 'maskWrite', 'readWrite', 'diag', 'readExceptionStatus', 'getCommEventCounter',
              'getCommEventLog', 'reportSlaveId', 'readFileRecord', 'writeFileRecord', 'readFifo', 'readDeviceInfo',
              'exception']


def max_size_msgs(rng, direction):
    """messages at and just below the 253-byte PDU limit (the largest legal frames of every framing)"""
    def rec(nwords):
        data = bytes_(rng, 2 * nwords)
        return {'rt': 6, 'fn': u16(rng), 'rn': u16(rng), 'data': data, 'rl': nwords, 'resp_len': len(data) + 1}
    out = []
    for nwords in (120, 121, 122):                      # PDU 249, 251, 253
        out.append({'t': 'writeFileRecord', 'records': [rec(nwords)]})
    out.append({'t': 'writeFileRecord', 'records': [rec(60), rec(55)]})     # 2 + 7+120 + 7+110 = 246
    if direction == 'req':
        out.append({'t': 'writeRegisters', 'address': u16(rng), 'count': 123, 'byte_count': 246,
                    'values': [u16(rng) for _ in range(123)]})
        out.append({'t': 'writeCoils', 'address': u16(rng), 'count': 1968, 'byte_count': 246,
                    'values': [rng.random() < 0.5 for _ in range(1968)]})
        out.append({'t': 'readWrite', 'read_address': u16(rng), 'read_count': 125, 'write_address': u16(rng), 'write_count': 121,
                    'write_byte_count': 242, 'write_registers': [u16(rng) for _ in range(121)]})
    else:
        for n in (248, 249, 250):                       # PDU 251, 252, 253
            out.append({'t': 'reportSlaveId', 'identifier': bytes_(rng, n), 'status': True})
        out.append({'t': 'readHolding', 'registers': [u16(rng) for _ in range(125)]})
        out.append({'t': 'readInput', 'registers': [u16(rng) for _ in range(125)]})
        out.append({'t': 'readCoils', 'bits': [int(rng.random() < 0.5) for _ in range(2000)]})
        out.append({'t': 'readWrite', 'registers': [u16(rng) for _ in range(125)]})
        for n in (243, 244, 245):                       # PDU 251, 252, 253
            out.append({'t': 'getCommEventLog', 'status': True, 'event_count': u16(rng), 'message_count': u16(rng), 'events': bytes_(rng, n)})
    return out
