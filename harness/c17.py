"""C17 — all server front-ends are behaviourally interchangeable.

Part 1 (equivalence).  One initial datastore and one request byte history (data-access and identification requests,
random ids, pipelined and cut at arbitrary points for the stream front-ends, one frame per datagram for all seven) is
given to every REAL front-end that accepts the framer.  Checked: the bytes written per received chunk and the final
datastore are identical across the front-ends (direct real-vs-real comparison), and each agrees with the model.

Part 2 (interleaving).  1..3 connections of a stream front-end share one datastore; each connection's request stream is
cut at arbitrary points and the chunks of all connections are interleaved (random schedules; every interleaving of short
chunk sequences in thorough).  Checked: each step's output and the final datastore equal those of the serial reference
run on ONE connection that receives, step by step, exactly the frames completed at that step — i.e. interleaving changes
nothing but the order in which requests take effect, and no connection sees another's partial frame; plus agreement with
the model (`server` op with a schedule)."""
import itertools

from harness.runner import Report
from harness import execlib, serverlib, frontends, framelib

ASSUMPTIONS = ['event loops and sockets are replaced by in-process fakes that hand each chunk to the real handler in order; a schedule '
               'is a total order of chunk deliveries (the GIL / event loop serialises the handlers at this granularity)',
               'features all front-ends support: broadcast_enable off (the Twisted protocols have no such option)',
               'across ALL front-ends: well-formed requests only (what a front-end does with an undecodable frame — close or reset — is C12); '
               'hostile traffic is compared within the groups that react alike: {sync, asyncio, Twisted} TCP and {asyncio, Twisted} UDP']
RULE = ('part 1: {tcp, rtu, ascii} x {single, multi-unit} x ignore_missing x histories of 1..20 data-access / identification requests x '
        'chunkings {per frame (all 7 front-ends), k per chunk, arbitrary cuts (4 stream front-ends), hostile histories (TCP trio / UDP pair)}; part 2: stream front-end x framer x '
        '1..3 connections x arbitrary cuts x random interleavings (all interleavings of <= 7 chunks in thorough); non-trivial = more '
        'than one front-end compared / more than one connection; distinct by (configuration, byte history, schedule)')

IDENT_PDUS = [[17], [43, 14, 1, 0], [43, 14, 2, 0], [43, 14, 3, 0], [43, 14, 4, 1], [43, 14, 1, 2], [43, 14, 2, 3], [43, 14, 4, 0x80], [43, 14, 5, 0]]
# requests whose execute() RAISES (KeyError from the read-code table, AttributeError: unregistered diagnostic sub-functions have
# no execute): every front-end must turn that into the same exception response — none may take it for a missing unit
IDENT_PDUS += [[43, 14, 0, 0], [43, 14, 0, 3], [8, 0, 5, 0, 0], [8, 0, 9, 0, 1], [8, 0, 22, 0, 0]]
GROUP = {'tcp': frontends.FRONTENDS, 'rtu': frontends.FRONTENDS, 'ascii': frontends.STREAM_FRONTENDS, 'binary': ['syncTcp', 'syncSerial']}


def gen_frames(rng, framer, units, n, ident_p=0.15):
    hosted = [u for u, _ in units]
    frames = []
    for _ in range(n):
        uid = rng.choice(hosted + hosted + [0, 1, 3, 255, rng.randrange(256)])
        layout = dict(units)[uid] if uid in dict(units) else units[0][1]
        tid = rng.choice([0, 0, 1, 0xFFFF, rng.randrange(65536), rng.randrange(65536)])     # 0 and 0xFFFF are ordinary ids
        if rng.random() < ident_p:
            f = serverlib.frame_pdu(framer, rng.choice(IDENT_PDUS), uid, tid)
        else:
            r = execlib.gen_req(rng, layout, [], 0.1)
            if framer == 'rtu' and 'raw' in r and len(r['raw']) != r.get('byte_count', r.get('write_byte_count')):
                continue
            f = serverlib.frame_request(framer, r, uid, tid)
        if framer == 'binary' and framelib.has_delim(f):
            continue
        frames.append(f)
        if rng.random() < 0.12:
            frames.append(list(f))       # the master repeats the request, byte for byte (a retry, or a periodic write)
    return frames


def cut_stream(rng, frames, mode):
    stream = [b for f in frames for b in f]
    if mode == 'frame':
        return list(frames)
    if mode == 'k':
        k = rng.choice([2, 3, len(frames)])
        return [[b for f in frames[i:i + k] for b in f] for i in range(0, len(frames), k)]
    n = len(stream)
    cuts = sorted(rng.sample(range(1, n), min(n - 1, rng.randrange(1, 6)))) if n > 1 else []
    pts = [0] + cuts + [n]
    return [stream[a:b] for a, b in zip(pts, pts[1:])]


def canon_real(fe, real):
    outs, escs, dumps, alive, control = real
    return {'out': [[b for f in o for b in f] for o in outs], 'escaped': escs, 'dumps': dumps}


# ---------------------------------------------------------------------------------------------- part 1
def part1(ctx, rep, rng, n_cases):
    cases, groups = [], []
    for _ in range(n_cases):
        framer = rng.choice(['tcp', 'tcp', 'rtu', 'rtu', 'ascii', 'binary'])
        single, units = serverlib.gen_units(rng)
        ignore = rng.random() < 0.5
        mode = rng.choice(['frame', 'frame', 'k', 'cut', 'hostile', 'mix'])
        if mode == 'mix' and framer in ('tcp', 'rtu', 'ascii'):
            # reads / datagrams that hold several frames, some of them undecodable (well-framed around a truncated or empty PDU)
            chunks = []
            for _ in range(rng.choice([2, 3, 5])):
                d = []
                for _ in range(rng.choice([1, 2, 2, 3])):
                    good = gen_frames(rng, framer, units, 1, ident_p=0.1)
                    if not good:
                        continue
                    g = good[0]
                    r = rng.random()
                    if r < 0.55:
                        d += g
                    else:
                        uid = rng.choice([u for u, _ in units])
                        pdu = rng.choice([[3, 0], [16, 0, 1, 0, 2, 4, 1], [], [6, 0, 1], [1], [23, 0, 0, 0, 1, 0, 0]])
                        d += serverlib.frame_pdu(framer, pdu, uid, rng.randrange(65536))
                if d:
                    chunks.append(d)
            if not chunks:
                continue
            fes = rng.choice([['syncTcp', 'aioTcp', 'twistedTcp']] + ([['aioUdp', 'twistedUdp']] * 2 if framer != 'ascii' else []))
        elif mode == 'hostile' and framer in ('tcp', 'rtu', 'ascii'):
            # undecodable / damaged traffic: the front-ends that react to it in the same way must still agree
            # (theorems stream_frontends_agree and datagram_frontends_agree hold for every byte string)
            from harness.c12 import gen_hostile
            chunks, _, _ = gen_hostile(rng, framer, units, single, other_pdus=IDENT_PDUS)   # no counters: only Twisted counts bus messages
            tail = gen_frames(rng, framer, units, 2)
            chunks = chunks + tail
            fes = rng.choice([['syncTcp', 'aioTcp', 'twistedTcp']] + ([['aioUdp', 'twistedUdp']] if framer != 'ascii' else []))
        else:
            mode = 'frame' if mode in ('hostile', 'mix') else mode
            frames = gen_frames(rng, framer, units, rng.choice([1, 2, 5, 10, 20]))
            if not frames:
                continue
            chunks = cut_stream(rng, frames, mode)
            fes = GROUP[framer] if mode == 'frame' else [f for f in GROUP[framer] if f in frontends.STREAM_FRONTENDS]
        grp = []
        # a process that has been serving for a while: the message counters (which only the Twisted front-ends advance)
        # stand just below / at / above the 16-bit boundary — the replies must not depend on that
        start = None
        if rng.random() < 0.15:
            start = {'counters': [rng.choice([65530, 65534, 65535])] + [rng.choice([0, 65535]) for _ in range(8)]}
        # a quarter of the groups is configured through the library-wide defaults (constants.Defaults set at run time, no option
        # passed to any constructor; the front-ends that need no port are built by their real constructors)
        viad = rng.random() < 0.25
        for fe in fes:
            grp.append(len(cases))
            cases.append(dict(frontend=fe, framer=framer, single=single, units=units, ignore_missing=ignore, broadcast=False,
                              chunks=chunks, mode=mode, identity=start, via_defaults=viad))
        groups.append(grp)
    res = serverlib.run_both(ctx, cases)
    for grp in groups:
        ref_i = grp[0]
        ref = canon_real(cases[ref_i]['frontend'], res[ref_i][0])
        c0 = cases[ref_i]
        rep.case(('p1', c0['framer'], str(c0['chunks']), str(c0['units']), c0['ignore_missing'], c0['single']), nontrivial=len(grp) > 1,
                 tag='equiv:%s:%s:%d-frontends' % (c0['framer'], c0['mode'], len(grp)))
        rep.sample({'part': 1, 'framer': c0['framer'], 'mode': c0['mode'], 'frontends': [cases[i]['frontend'] for i in grp],
                    'chunks': len(c0['chunks']), 'bytes_written': sum(len(o) for o in ref['out'])}, cap=4)
        # replies that report the bus-message counters (only the Twisted front-ends count): nothing to compare
        counters = any((serverlib.frame_fc(c0['framer'], f) or 0) & 0x7F in (7, 8, 11, 12)
                       for i in grp for o in res[i][0][0] for f in o)
        if counters:
            rep.hist['excluded:counter-dependent-reply'] += 1
        for i in grp:
            c = cases[i]
            case = {k: c[k] for k in ('frontend', 'framer', 'single', 'units', 'ignore_missing', 'broadcast', 'chunks', 'via_defaults')}
            case['kind'] = 'server'
            serverlib.compare(rep, case, res[i][0], res[i][1], 'front-end vs Server.connStep')
            got = canon_real(c['frontend'], res[i][0])
            if any(got['escaped']):
                rep.violation('an exception escaped the front-end', case, escaped=got['escaped'])
                break
            if got != ref and not counters:
                where = 'dumps' if got['out'] == ref['out'] else 'responses'
                k = next((j for j, (a, b) in enumerate(zip(got['out'], ref['out'])) if a != b), None)
                rep.violation('two front-ends given the same datastore and the same request bytes differ in their %s' % where,
                              dict(case, kind='equiv', other=c0['frontend']), frontends=[c0['frontend'], c['frontend']], chunk=k,
                              a=(ref['out'][k] if k is not None else None), b=(got['out'][k] if k is not None else None))
                break


# ---------------------------------------------------------------------------------------------- part 2
def completed_per_step(conn_frames, schedule):
    """for every schedule step: the frames (of that step's connection) whose last byte arrives in that step"""
    ends = []
    for frames in conn_frames:
        e, p = [], 0
        for f in frames:
            p += len(f)
            e.append(p)
        ends.append(e)
    got = [0] * len(conn_frames)
    nextf = [0] * len(conn_frames)
    out = []
    for ci, ch in schedule:
        got[ci] += len(ch)
        done = []
        while nextf[ci] < len(ends[ci]) and ends[ci][nextf[ci]] <= got[ci]:
            done.append(conn_frames[ci][nextf[ci]])
            nextf[ci] += 1
        out.append(done)
    return out


def interleavings(seqs, rng, limit):
    """schedules: merge orders of the per-connection chunk sequences"""
    tags = [i for i, s in enumerate(seqs) for _ in s]
    total = len(tags)
    if limit is None and total <= 7:
        orders = sorted(set(itertools.permutations(tags)))
    else:
        orders = set()
        for _ in range(limit or 6):
            t = tags[:]
            rng.shuffle(t)
            orders.add(tuple(t))
        orders.add(tuple(tags))                       # serial: connection after connection
        rr = [i for k in range(max(len(s) for s in seqs)) for i, s in enumerate(seqs) if k < len(s)]
        orders.add(tuple(rr))                         # round robin
        orders = sorted(orders)
    for order in orders:
        pos = [0] * len(seqs)
        sched = []
        for ci in order:
            sched.append([ci, seqs[ci][pos[ci]]])
            pos[ci] += 1
        yield sched


def part2(ctx, rep, rng, n_cases, exhaustive):
    cases, refs = [], []
    for _ in range(n_cases):
        fe = rng.choice(frontends.STREAM_FRONTENDS)
        framer = rng.choice([f for f in serverlib.FRAMERS_FOR[fe] if f != 'tls'])
        single, units = serverlib.gen_units(rng)
        ignore = rng.random() < 0.5
        nconn = rng.choice([1, 2, 2, 3, 3])
        conn_frames = [gen_frames(rng, framer, units, rng.choice([1, 2, 3] if exhaustive else [1, 2, 4, 8]), ident_p=0.05) for _ in range(nconn)]
        if any(not f for f in conn_frames):
            continue
        seqs = []
        for frames in conn_frames:
            ch = cut_stream(rng, frames, rng.choice(['cut', 'cut', 'frame', 'k']))
            if exhaustive and len(ch) > 3:
                ch = ch[:2] + [[b for c in ch[2:] for b in c]]
            seqs.append(ch)
        for sched in interleavings(seqs, rng, None if exhaustive else 5):
            comp = completed_per_step(conn_frames, sched)
            ref_chunks = [[b for f in fs for b in f] for fs in comp]
            base = dict(frontend=fe, framer=framer, single=single, units=units, ignore_missing=ignore, broadcast=False)
            cases.append(dict(base, schedule=sched, nconn=nconn))
            refs.append(dict(base, schedule=[[0, c] for c in ref_chunks]))
    if not cases:
        return
    ans = serverlib.ask_model(ctx, cases)
    for c, r, a in zip(cases, refs, ans):
        check_interleave(rep, dict(c, ref_schedule=r['schedule']), a)


def check_interleave(rep, c, a):
    real = serverlib.run_real(c)
    case = {k: c[k] for k in ('frontend', 'framer', 'single', 'units', 'ignore_missing', 'broadcast', 'schedule', 'ref_schedule')}
    case['kind'] = 'interleave'
    nconn = 1 + max(ci for ci, _ in c['schedule'])
    rep.case(('p2', c['frontend'], c['framer'], str(c['schedule']), str(c['units']), c['ignore_missing'], c['single']),
             nontrivial=nconn > 1, tag='interleave:%s:%s:%d-conns' % (c['frontend'], c['framer'], nconn))
    rep.sample({'part': 2, 'frontend': c['frontend'], 'framer': c['framer'], 'connections': nconn,
                'schedule': [[ci, len(ch)] for ci, ch in c['schedule']][:12]}, cap=4)
    serverlib.compare(rep, case, real, a, 'interleaved connections vs Server.serveSched')
    got = canon_real(c['frontend'], real)
    if any(got['escaped']):
        rep.violation('an exception escaped the front-end while serving well-formed requests', case, escaped=got['escaped'])
        return
    # serial reference on one connection: empty chunks are not deliveries, skip them on both sides
    keep = [i for i, (_, ch) in enumerate(c['ref_schedule']) if ch]
    rr = dict(c, schedule=[c['ref_schedule'][i] for i in keep])
    ref = canon_real(c['frontend'], serverlib.run_real(rr)) if keep else {'out': [], 'dumps': got['dumps']}
    ref_out = [[] for _ in c['schedule']]
    for j, i in enumerate(keep):
        ref_out[i] = ref['out'][j]
    if got['out'] != ref_out or got['dumps'] != ref['dumps']:
        k = next((j for j, (x, y) in enumerate(zip(got['out'], ref_out)) if x != y), None)
        rep.violation('interleaving the chunks of several connections changed more than the order in which requests take effect '
                      '(responses or final datastore differ from the serial run of the frames in completion order)', case,
                      step=k, interleaved=(got['out'][k] if k is not None else None), serial=(ref_out[k] if k is not None else None),
                      dumps_equal=got['dumps'] == ref['dumps'])


def real_socket_probe(ctx, rep):
    """the REAL sync servers (socketserver loop, threads, OS sockets) on 127.0.0.1 with an ephemeral port: a maximum-size
    request, an ordinary one and two pipelined ones must be answered exactly as the in-process run of the same front-end
    answers them.  This is the one place where the serving loop itself (receive buffer size, handler threads) is exercised."""
    import socket
    import threading
    from pymodbus.server.sync import ModbusUdpServer, ModbusTcpServer
    lay = {'blocks': [{'kind': 'seq', 'address': 0, 'values': [0] * 200}], 'd': 0, 'c': 0, 'i': 0, 'h': 0, 'zero': True}
    units = [[0, lay]]
    big = {'t': 'writeRegisters', 'address': 3, 'count': 123, 'byte_count': 246, 'values': [(7 * i + 1) % 65536 for i in range(123)]}
    big['raw'] = [b for v in big['values'] for b in (v >> 8, v & 255)]
    small = {'t': 'readHolding', 'address': 3, 'count': 5}
    f_big = serverlib.frame_request('tcp', big, 1, 0x1234)            # 259 bytes
    f_small = serverlib.frame_request('tcp', small, 1, 0x1235)
    f_small2 = serverlib.frame_request('tcp', {'t': 'readHolding', 'address': 100, 'count': 120}, 1, 0x1236)
    for kind, cls in (('syncUdp', ModbusUdpServer), ('syncTcp', ModbusTcpServer)):
        chunks = [f_big, f_small, f_small + f_small2] if kind == 'syncTcp' else [f_big, f_small, f_small2]
        case = dict(kind='real-socket', frontend=kind, framer='tcp', single=True, units=units, ignore_missing=False, broadcast=False, chunks=chunks)
        expected = canon_real(kind, serverlib.run_real(case))['out']
        store, _ = frontends.mk_units(True, units)
        frontends.initial_control()
        srv = None
        try:
            srv = cls(store, address=('127.0.0.1', 0))
            port = srv.socket.getsockname()[1]
        except OSError as e:
            rep.hist['real-socket:unavailable:%s' % kind] += 1
            rep.notes.append('real-socket probe skipped for %s: %s' % (kind, e))
            if srv is not None:
                srv.server_close()
            continue
        th = threading.Thread(target=srv.serve_forever, kwargs={'poll_interval': 0.02}, daemon=True)
        th.start()
        got = []
        try:
            if kind == 'syncUdp':
                c = socket.socket(socket.AF_INET, socket.SOCK_DGRAM)
            else:
                c = socket.create_connection(('127.0.0.1', port), timeout=3)
            c.settimeout(3)
            for ch, exp in zip(chunks, expected):
                if kind == 'syncUdp':
                    c.sendto(bytes(ch), ('127.0.0.1', port))
                else:
                    c.sendall(bytes(ch))
                buf = b''
                try:
                    while len(buf) < len(exp):
                        part = c.recvfrom(2048)[0] if kind == 'syncUdp' else c.recv(2048)
                        if not part:
                            break
                        buf += part
                except (socket.timeout, OSError):
                    pass
                got.append(list(buf))
            c.close()
        finally:
            srv.shutdown()
            srv.server_close()
            th.join(timeout=3)
        rep.case(('real-socket', kind), nontrivial=True, tag='real-socket:' + kind)
        if got != expected:
            k = next((j for j, (a, b) in enumerate(zip(got, expected)) if a != b), None)
            rep.violation('the real %s server on a loopback socket does not answer like the in-process front-end (same bytes in)' % kind,
                          dict(case, kind='real-socket'), chunk=k, request_bytes=len(chunks[k]) if k is not None else None,
                          got=(got[k][:40] if k is not None else None), expected=(expected[k][:40] if k is not None else None))


def run(ctx):
    rep = Report(RULE)
    rng = ctx.rng
    real_socket_probe(ctx, rep)
    for c in ctx.corpus():
        if c.get('kind') in ('server', 'interleave'):
            res = serverlib.run_both(ctx, [c])
            rep.case(('corpus', str(c.get('chunks') or c.get('schedule'))), tag='corpus')
            serverlib.compare(rep, c, res[0][0], res[0][1], 'corpus')
    rounds = ctx.scale(12, 300)
    for i in range(rounds):
        if ctx.time_left() < 25:
            break
        part1(ctx, rep, rng, 40)
        part2(ctx, rep, rng, 25, exhaustive=False)
        if not ctx.quick and i % 3 == 0:
            part2(ctx, rep, rng, 4, exhaustive=True)
    return rep


def replay(ctx, payload):
    rep = Report(RULE)
    c = dict(payload['case'])
    if c.get('kind') == 'real-socket':
        real_socket_probe(ctx, rep)
        return rep.violations[0]['what'] if rep.violations else None
    if c.get('kind') == 'equiv':
        a = serverlib.run_real(c)
        b = serverlib.run_real(dict(c, frontend=c['other']))
        if canon_real(c['frontend'], a) != canon_real(c['other'], b):
            return 'two front-ends given the same datastore and the same request bytes differ'
        return None
    if c.get('kind') == 'interleave' and 'ref_schedule' in c:
        a = serverlib.ask_model(ctx, [c])[0]
        check_interleave(rep, c, a)
        if rep.violations:
            return rep.violations[0]['what']
        return 'model/implementation disagreement' if rep.disagreements else None
    res = serverlib.run_both(ctx, [c])
    if not serverlib.compare(rep, c, res[0][0], res[0][1], 'replay'):
        return 'model/implementation disagreement'
    return None
