"""C15 — concurrent callers of one synchronous client are serialised.

Real threads call `execute` on ONE real `ModbusTcpClient` (its `execute`, `connect`, `close`, `_send`, `_recv` as shipped,
the real `DictTransactionManager` it creates, the real `ModbusSocketFramer`/`ClientDecoder`).  Only the names `socket`,
`select` and `time` inside `pymodbus.client.sync` are replaced by in-memory stand-ins (a connection = a byte pipe to a
peer that answers every MBAP frame; `create_connection` takes time; a `select` on an empty pipe times out on a virtual
clock).  The threads run under a COOPERATIVE DETERMINISTIC scheduler: exactly one thread runs at a time; a thread
parks before every transport operation (the check of `connect`, the completion of `create_connection`, each of the two
writes of a frame, every poll, each `_recv`) and before every lock acquisition/release.  The lock is observed from
OUTSIDE: after construction `manager._transaction_lock` is replaced by an instrumented wrapper around WHATEVER object
the manager created (a lock, a mapping of locks, any context manager).  A thread whose next step is the acquisition of
a lock somebody else holds is not runnable; no runnable thread while some are unfinished = deadlock.

All schedules are enumerated by stateless DFS (re-execution with a forced prefix).  Every run is checked against the
property directly (overlapping send..recv intervals, interleaved frames, a caller that did not get the reply to its own
request, deadlock) and compared with the Lean model's run of the same schedule.  Half of the cases start with the
client already connected, the others with a client that is not connected yet (where the code before the repair
`connect-outside-lock` lost replies: Props.C15.connect_race_counterexample; that witness is run first on every check).
Both lock sites are instrumented when present: `manager._transaction_lock` and `client._connect_lock`.
The scripted world of a case also says which connection attempts are REFUSED (`create_connection` raises): a caller
whose own attempt was refused must get ConnectionException, everybody else its own reply, and nobody may be left
blocked (a lock that is not given back on that path shows up as a deadlock).  A request may also be marked `lost`: the
peer stays silent for it, the read comes back short, the client closes the connection and the next call re-opens it;
that caller must get its own error object, every other caller its own reply (a reconnect that escapes the client lock
shows up as a reply that was delivered but not received).  A case may contain BROADCASTS (requests to unit 0 on a
client with broadcast_enable): written, nothing read, no unit answers; the broadcaster must get the broadcast marker,
and its frame (and its flush of the input) must not land inside another caller's send..receive interval.
A case may run on a RETRYING client (`retry_on_empty=True`, 1..2 retries, back-off): a request's first `lost`
transmissions go unanswered; after each of them the retry loop of the manager backs off — `time.sleep` inside
pymodbus.transaction is a yield point on the virtual clock, so every other thread may try to enter `execute` exactly
then —, reconnects and transmits again.  That caller must get its OWN reply from the transmission that got one (its
own error object if all were lost), everybody else its own reply, and nobody may be left blocked.  All locks the
library creates while the client is constructed are instrumented AT BIRTH (`born_instrumented`), so that an object
built on such a lock (a `Condition`, say) works on the wrapper: a back-off that waits on a condition of the client
lock gives that lock up visibly, and the resulting deadlock (client lock <-> manager lock) is seen by the scheduler.
A thread that stops reaching yield points for WATCHDOG real seconds while the others are parked (it blocks on
something real the wrappers do not see) is reported as a deadlock as well; worker threads are daemons and are joined
with a bound, so a stuck thread never hangs the check."""
import sys
import threading

import socket as _real_socket
import select as _real_select
import time as _real_time

import pymodbus.client.sync as _sync
import pymodbus.transaction as _tx
from pymodbus.client.sync import ModbusTcpClient
from pymodbus.register_read_message import ReadHoldingRegistersRequest
from pymodbus.pdu import ExceptionResponse

from harness.runner import Report
from harness.pyutil import errkind
from harness import gen_tables

ASSUMPTIONS = ['pre-emption happens only at the yield points (every transport operation incl. the check and the completion of '
               'connect, every poll, lock acquire/release); pre-emption inside a Python bytecode sequence between two yield '
               'points and GIL effects are not exhibited (the model allows pre-emption between any two of its operations)',
               'the in-memory peer parses the bytes written to a connection into MBAP frames and answers each frame with '
               'the registers addr, addr+1, ... (or exception 03 for a quantity outside 1..125); a read on an empty '
               'connection times out (virtual clock)',
               'requests are read-holding-registers requests with unit < 256, address and quantity < 65536',
               'a lost reply = the peer never answers that transmission of the request (a reply that arrives late is not '
               'modelled here); `lost` = n: the first n transmissions of the request go unanswered',
               'the back-off of the retry loop is `time.sleep(delay)` in pymodbus.transaction (virtual time: a yield point); '
               'a back-off implemented on a lock/condition the library creates in a constructor is seen through the '
               'instrumented lock (its real wait lasts backoff=1 ms); any other way of waiting is a real wait of that length',
               'lock objects are observed through wrappers assigned from outside to manager._transaction_lock and '
               'client._connect_lock (whatever objects the code created there)']
TRUSTED = ['harness/c15.py cooperative scheduler and instrumented lock wrapper (observes acquire/release from outside)',
           'harness/c15.py stand-ins for socket/select/time inside pymodbus.client.sync (in-memory connections, virtual clock)',
           'harness/gen_tables.py lock_scope_info (ast reading of transaction.py: which lock, around what)',
           'harness/c15.py born_instrumented (wraps what the modules call RLock while the client is constructed) and '
           'observe_backoff (one real retried transaction: which locks are released between the two transmissions)']
RULE = ('all schedules (stateless DFS over the runnable threads at every yield point) of 2 threads x 1..3, 3 threads x 1..3 and '
        '4 threads x 1..2 transactions on a connected and on a not yet connected client, requests with different unit ids / '
        'quantities / latencies in most cases; with refused connection attempts, lost replies, broadcasts, and retrying '
        'clients (retry_on_empty, 1..2 retries, back-off = yield point, first transmissions lost; 2..3 threads x 1..2); '
        'plus random schedules of 2..4 threads x 1..3 transactions over all of these (quick); more cases, '
        '4 threads x 2..3 and 2..4 threads x 1..3 transactions by DFS '
        'with sleep sets (polls and socket-reading connect checks are the only independent steps) up to 200k schedules '
        '(thorough); non-trivial = a schedule in which some thread was parked on the lock or pre-empted inside a '
        'transaction; distinct by (requests, client state, schedule)')

YIELD_OPS = ('connect', 'open', 'acquire', 'flush', 'backoff', 'send1', 'send2', 'wait', 'recv', 'release')


WATCHDOG = 3.0          # real seconds a thread may take between two yield points


class Abort(BaseException):
    pass


class Hang(Exception):
    pass


# --------------------------------------------------------------------------- scheduler
class Baton:
    """binary semaphore on a raw lock (cheaper than threading.Event): `wait` blocks until somebody `set`s"""

    def __init__(self):
        self.l = threading.Lock()
        self.l.acquire()

    def set(self):
        try:
            self.l.release()
        except RuntimeError:
            pass

    def wait(self, timeout=None):
        return self.l.acquire(True, -1 if timeout is None else timeout)


class Scheduler:
    def __init__(self, n):
        self.n = n
        self.go = [Baton() for _ in range(n)]
        self.back = Baton()
        self.ann = [None] * n           # announced next step of each parked thread: (op, lock wrapper or None)
        self.done = [False] * n
        self.local = threading.local()
        self.abort = False
        self.events = []                # (thread, op)

    def me(self):
        return getattr(self.local, 'idx', None)

    def yield_(self, op, lock=None):
        i = self.me()
        if i is None:
            return
        if self.abort:
            raise Abort()
        self.ann[i] = (op, lock)
        self.back.set()
        self.go[i].wait()
        if self.abort:
            raise Abort()
        self.ann[i] = None
        self.events.append((i, op))

    def enabled(self):
        out = []
        for i in range(self.n):
            if self.done[i] or self.ann[i] is None:
                continue
            op, lock = self.ann[i]
            if op == 'acquire' and lock is not None and not lock.can_acquire(i):
                continue
            out.append(i)
        return out

    def resume(self, i):
        self.go[i].set()
        if not self.back.wait(WATCHDOG):
            raise Hang('thread %d did not reach a yield point within %g s (blocked on something real)' % (i, WATCHDOG))


# --------------------------------------------------------------------------- instrumented lock objects
class ILock:
    """wraps a lock-like object: yields before acquire and before release, knows its owner"""

    def __init__(self, sched, inner, log):
        self.sched, self.inner, self.log = sched, inner, log
        self.owner, self.depth = None, 0
        self.reentrant = 'RLock' in type(inner).__name__

    def can_acquire(self, i):
        return self.owner is None or (self.owner == i and self.reentrant)

    def acquire(self, blocking=True, timeout=-1):
        i = self.sched.me()
        if i is None:
            return self.inner.acquire(blocking, timeout)
        if not blocking or (timeout is not None and timeout >= 0):
            # a bounded wait: the scheduler decides when the wait ends; if the lock is still held then, it timed out
            self.sched.yield_('acquire', None)
            if not self.can_acquire(i):
                self.log.append(('timeout', i, id(self.inner), len(self.sched.events)))
                return False
        else:
            self.sched.yield_('acquire', self)
        if not self.inner.acquire(False):
            raise Hang('the scheduler granted a lock that is not free')
        self.owner, self.depth = i, self.depth + 1
        self.log.append(('acq', i, id(self.inner), len(self.sched.events)))
        return True

    def release(self):
        self.sched.yield_('release', self)
        self.depth -= 1
        if self.depth == 0:
            self.owner = None
        self.log.append(('rel', self.sched.me(), id(self.inner), len(self.sched.events)))
        self.inner.release()

    # what threading.Condition uses when it is built on this lock: give the lock up completely for the wait, take it
    # again (at the depth it had) afterwards — both are yield points like any release / acquire
    def _release_save(self):
        self.sched.yield_('release', self)
        state = (self.owner, self.depth, self.inner._release_save() if hasattr(self.inner, '_release_save')
                 else self.inner.release())
        self.owner, self.depth = None, 0
        self.log.append(('rel', self.sched.me(), id(self.inner), len(self.sched.events)))
        return state

    def _acquire_restore(self, state):
        i = self.sched.me()
        owner, depth, inner_state = state
        self.sched.yield_('acquire', self)
        if hasattr(self.inner, '_acquire_restore'):
            self.inner._acquire_restore(inner_state)
        else:
            self.inner.acquire()
        self.owner, self.depth = (i if i is not None else owner), depth
        self.log.append(('acq', i, id(self.inner), len(self.sched.events)))

    def _is_owned(self):
        i = self.sched.me()
        return self.owner is not None and (i is None or self.owner == i)

    def __enter__(self):
        self.acquire()
        return self

    def __exit__(self, *a):
        self.release()
        return False

    def __getattr__(self, k):
        return getattr(self.inner, k)


class ICtx:
    """wraps any other context manager (a do-nothing `with` object, say): yields, never blocks"""

    def __init__(self, sched, inner, log):
        self.sched, self.inner, self.log = sched, inner, log

    def can_acquire(self, i):
        return True

    def __enter__(self):
        self.sched.yield_('acquire', self)
        return self.inner.__enter__()

    def __exit__(self, *a):
        self.sched.yield_('release', self)
        return self.inner.__exit__(*a)

    def __getattr__(self, k):
        return getattr(self.inner, k)


class IMap:
    """wraps a mapping of locks: every lock it hands out is instrumented (one wrapper per real lock object)"""

    def __init__(self, sched, inner, log):
        self.sched, self.inner, self.log = sched, inner, log
        self.wrapped = {}

    def _wrap(self, obj):
        w = self.wrapped.get(id(obj))
        if w is None:
            w = self.wrapped[id(obj)] = instrument(self.sched, obj, self.log)
        return w

    def __getitem__(self, k):
        return self._wrap(self.inner[k])

    def get(self, k, default=None):
        v = self.inner.get(k, default)
        return v if v is default else self._wrap(v)

    def setdefault(self, k, default=None):
        return self._wrap(self.inner.setdefault(k, default))

    def __setitem__(self, k, v):
        self.inner[k] = v

    def __contains__(self, k):
        return k in self.inner

    def __len__(self):
        return len(self.inner)

    def __getattr__(self, k):
        return getattr(self.inner, k)


def instrument(sched, obj, log):
    if isinstance(obj, (ILock, ICtx, IMap)):
        return obj                      # instrumented at birth (see `born_instrumented`)
    if hasattr(obj, 'acquire') and hasattr(obj, 'release'):
        return ILock(sched, obj, log)
    if hasattr(obj, '__getitem__'):
        return IMap(sched, obj, log)
    if hasattr(obj, '__enter__') and hasattr(obj, '__exit__'):
        return ICtx(sched, obj, log)
    return obj


# --------------------------------------------------------------------------- the peer and the client
def reg_bytes(addr, c):
    out = []
    for i in range(c):
        v = (addr + i) % 65536
        out += [v // 256, v % 256]
    return out


def reply_to(f):
    g = lambda i: f[i] if i < len(f) else 0  # noqa
    h = [g(0), g(1), 0, 0]
    unit = g(6)
    pdu = list(f[7:])
    if len(pdu) == 5 and pdu[0] == 3:
        c = pdu[3] * 256 + pdu[4]
        if 1 <= c <= 125:
            return h + [(3 + 2 * c) // 256, (3 + 2 * c) % 256, unit, 3, 2 * c] + reg_bytes(pdu[1] * 256 + pdu[2], c)
        return h + [0, 3, unit, 0x83, 3]
    if pdu:
        return h + [0, 3, unit, pdu[0] + 128 if pdu[0] < 128 else pdu[0], 1]
    return h + [0, 3, unit, 0x80, 1]


class Peer:
    """the other end of every connection: parses what is written to a connection into MBAP frames, answers each
    frame; one reply byte stream per connection"""

    def __init__(self):
        self.pending = []
        self.stream = []
        self.wire = []

    def new_conn(self):
        self.pending.append([])
        self.stream.append([])
        return len(self.stream) - 1

    def write(self, conn, thread, first, data, lost=False, cut=None):
        """`lost`: what the peer produces while this request is being written never arrives; `cut` = k: only the first k bytes of
        the reply arrive (the rest never does)"""
        self.wire.append([thread, 1 if first else 0, conn, list(data)])
        pend = self.pending[conn]
        pend += list(data)
        while len(pend) >= 7:
            ln = pend[4] * 256 + pend[5]
            if ln < 2:
                del pend[:7]
                continue
            if len(pend) < 6 + ln:
                break
            frame = pend[:6 + ln]
            del pend[:6 + ln]
            if not lost:
                self.stream[conn] += reply_to(frame)[:cut] if cut else reply_to(frame)

    def read(self, conn, n):
        st = self.stream[conn]
        out = st[:n]
        del st[:n]
        return bytes(out)


class Env:
    """what the shims installed in pymodbus.client.sync talk to during one run"""
    current = None

    def __init__(self, sched, lats, fail=()):
        self.sched = sched
        self.peer = Peer()
        self.lats = lats            # thread index -> latency of the request it is executing
        self.fresh = {}
        self.lost = {}              # thread index -> how many transmissions of its current request get no answer
        self.cut = {}               # thread index -> the reply to its current request arrives cut after this many bytes
        self.sent = {}              # thread index -> transmissions of its current request so far
        self.clock = 1000.0
        self.fail = fail            # which create_connection calls are refused: 'all' or a collection of indices
        self.attempts = 0
        self.failed = []            # (thread, index of the `open` event) of every refused connection attempt
        self.scripted = False       # the connect made before the threads start is outside the script


class FakeSocket:
    """a connected TCP socket as far as ModbusTcpClient uses one.  `send` puts the frame on the wire in two writes
    (header, rest), yielding before each; `setblocking` is the first thing every `_recv` does: the polls of a late
    reply and the yield of the read happen there, the rest of `_recv` (select / recv loop) then runs without
    pre-emption on whatever `client.socket` is at that time."""

    def __init__(self, env, conn):
        self.env, self.conn = env, conn
        self.closed = False

    def send(self, data):
        env = self.env
        i = env.sched.me()
        data = bytes(data)
        env.sched.yield_('send1')
        lost = env.sent.get(i, 0) < env.lost.get(i, 0)         # the peer does not answer this transmission
        env.sent[i] = env.sent.get(i, 0) + 1
        cut = env.cut.get(i) or None
        env.peer.write(self.conn, i, True, data[:7], lost, cut)
        env.sched.yield_('send2')
        env.peer.write(self.conn, i, False, data[7:], lost, cut)
        env.fresh[i] = True
        return len(data)

    def setblocking(self, flag):
        env = self.env
        i = env.sched.me()
        caller = sys._getframe(1).f_code.co_name
        if caller == '_flush_input':       # `_send`: discard what waits on the socket before the request is written
            env.sched.yield_('flush')
            return
        if env.fresh.get(i):
            env.fresh[i] = False
            for _ in range(env.lats.get(i, 0)):
                env.sched.yield_('wait')
        env.sched.yield_('recv')

    def settimeout(self, t):
        pass

    def readable(self):
        return len(self.env.peer.stream[self.conn]) > 0

    def recv(self, n):
        if not self.readable():             # non-blocking socket with nothing waiting
            raise BlockingIOError(11, 'Resource temporarily unavailable')
        return self.env.peer.read(self.conn, max(int(n), 0))

    def close(self):
        self.closed = True

    def fileno(self):
        return -1


class SocketShim:
    """stands for the `socket` module inside pymodbus.client.sync: `create_connection` takes time (a yield point) and
    returns a fresh connection to the peer"""

    def __getattr__(self, k):
        return getattr(_real_socket, k)

    def create_connection(self, address, timeout=None, source_address=None):
        env = Env.current
        env.sched.yield_('open')
        if env.scripted:
            k = env.attempts
            env.attempts += 1
            if env.fail == 'all' or k in env.fail:
                env.failed.append((env.sched.me(), len(env.sched.events) - 1))
                raise ConnectionRefusedError(111, 'Connection refused')
        return FakeSocket(env, env.peer.new_conn())


class SelectShim:
    def __getattr__(self, k):
        return getattr(_real_select, k)

    def select(self, r, w, x, timeout=None):
        for so in r:
            if not isinstance(so, FakeSocket):
                raise TypeError('argument must be an int, or have a fileno() method.')
        ready = [so for so in r if so.readable()]
        if ready:
            return (ready, [], [])
        env = Env.current
        env.clock += (timeout if timeout and timeout > 0 else 0) + 0.001      # nothing arrives: the wait times out
        return ([], [], [])


class TimeShim:
    def __getattr__(self, k):
        return getattr(_real_time, k)

    def time(self):
        return Env.current.clock

    def sleep(self, t):
        Env.current.clock += t


class TxTimeShim:
    """stands for the `time` module inside pymodbus.transaction: the back-off `time.sleep(delay)` of the retry loop is a
    yield point of the cooperative scheduler (virtual time), not a real sleep"""

    def __getattr__(self, k):
        return getattr(_real_time, k)

    def time(self):
        return Env.current.clock if Env.current else _real_time.time()

    def sleep(self, t):
        env = Env.current
        if env is None or env.sched.me() is None:
            return
        env.sched.yield_('backoff')
        env.clock += t


_ORIGINALS = {}


def install_shims():
    if not isinstance(_sync.socket, SocketShim):
        _ORIGINALS.update(sock=_sync.socket, sel=_sync.select, tim=_sync.time, txtim=getattr(_tx, 'time', None))
        _sync.socket = SocketShim()
        _sync.select = SelectShim()
        _sync.time = TimeShim()
    if not isinstance(getattr(_tx, 'time', None), TxTimeShim):
        _tx.time = TxTimeShim()


def uninstall_shims():
    """put the real modules back (used when a run is made on behalf of somebody else, see gen_tables)"""
    if isinstance(_sync.socket, SocketShim) and _ORIGINALS:
        _sync.socket, _sync.select, _sync.time = _ORIGINALS['sock'], _ORIGINALS['sel'], _ORIGINALS['tim']
        if _ORIGINALS.get('txtim') is not None:
            _tx.time = _ORIGINALS['txtim']
        _ORIGINALS.clear()
    Env.current = None


class born_instrumented:
    """while a client is being constructed, every lock the library creates through the name `RLock` of its modules is
    instrumented at birth — so that an object built ON such a lock in `__init__` (a Condition, say) works on the
    instrumented lock, not behind its back.  Whatever the module calls `RLock` is still what creates the lock."""

    def __init__(self, sched, log):
        self.sched, self.log, self.saved = sched, log, []

    def __enter__(self):
        for mod in (_sync, _tx):
            orig = getattr(mod, 'RLock', None)
            if orig is not None:
                self.saved.append((mod, orig))
                setattr(mod, 'RLock', (lambda o: (lambda *a, **k: instrument(self.sched, o(*a, **k), self.log)))(orig))
        return self

    def __exit__(self, *a):
        for mod, orig in self.saved:
            setattr(mod, 'RLock', orig)
        return False


class WireClient(ModbusTcpClient):
    """the REAL ModbusTcpClient (connect / close / _send / _recv / execute as shipped); only a yield point is put in
    front of `connect`"""

    def connect(self):
        Env.current.sched.yield_('connect')
        return ModbusTcpClient.connect(self)


BROADCAST_MARKER = b'Broadcast write sent - no response expected'


def canon_result(req, rr):
    if isinstance(rr, (bytes, bytearray)) and bytes(rr) == BROADCAST_MARKER:
        return [req.transaction_id, {'bcast': 1}]
    if isinstance(rr, Exception):
        return [req.transaction_id, {'err': errkind(rr)}]
    if isinstance(rr, ExceptionResponse):
        return [req.transaction_id, {'tid': rr.transaction_id, 'unit': rr.unit_id,
                                     'msg': {'exc': [rr.function_code, rr.exception_code]}}]
    if hasattr(rr, 'registers'):
        return [req.transaction_id, {'tid': rr.transaction_id, 'unit': rr.unit_id,
                                     'msg': {'regs': [int(x) for x in rr.registers]}}]
    return [req.transaction_id, {'other': type(rr).__name__}]


# --------------------------------------------------------------------------- one run
class Run:
    pass


def world(w):
    """the scripted world of a case: {'connected': bool, 'fail': [indices of refused connection attempts] | 'all'}"""
    if isinstance(w, dict):
        return {'connected': bool(w.get('connected', True)), 'fail': w.get('fail', []), 'retry': w.get('retry')}
    return {'connected': bool(w), 'fail': [], 'retry': None}


def world_tag(w):
    w = world(w)
    return ('connected' if w['connected'] else 'cold') + ('' if not w['fail'] else ':fail=%s' % (
        'all' if w['fail'] == 'all' else ','.join(map(str, w['fail'])))) + (
        '' if not w.get('retry') else ':retries=%d' % w['retry']['retries'])


def run_schedule(threads, chooser, connected=True):
    """threads: [[req dict...]...]; chooser(step, enabled, ops) -> thread to resume; `connected`: the client is
    connected (by the main thread) before the workers start.
    Returns a Run with the schedule taken, per step (enabled, ops), the events, the wire, the results, verdicts."""
    n = len(threads)
    sched = Scheduler(n)
    lats = {}
    install_shims()
    w = world(connected)
    env = Env.current = Env(sched, lats, w['fail'])
    # a case with broadcasts runs on a client with broadcast_enable (there, unit 0 <=> broadcast)
    benable = any(r.get('bcast') for t in threads for r in t)
    kw = {}
    if w.get('retry'):      # a retrying client: retry_on_empty, `retries` further attempts, a (tiny, real) back-off
        kw = dict(retries=w['retry']['retries'], retry_on_empty=True, backoff=0.001)
    locklog = []
    with born_instrumented(sched, locklog):
        client = WireClient('192.0.2.1', 502, timeout=1, broadcast_enable=benable, **kw)
    if w['connected']:
        client.connect()
    env.scripted = True
    mgr = client.transaction
    if hasattr(mgr, '_transaction_lock'):
        mgr._transaction_lock = instrument(sched, mgr._transaction_lock, locklog)
    if hasattr(client, '_connect_lock'):      # the client-side lock around connect + transaction (absent in older trees)
        client._connect_lock = instrument(sched, client._connect_lock, locklog)
    results = [[] for _ in range(n)]
    marks = []

    def worker(i):
        sched.local.idx = i
        try:
            for k, r in enumerate(threads[i]):
                lats[i] = r['lat']
                env.lost[i] = 10 ** 6 if r.get('bcast') else int(r.get('lost') or 0)   # no unit answers a broadcast
                env.sent[i] = 0
                env.cut[i] = int(r.get('cut') or 0)
                req = ReadHoldingRegistersRequest(r['addr'], r['count'], unit=r['unit'])
                marks.append((i, k, 'begin', len(sched.events)))
                try:
                    rr = client.execute(req)
                    results[i].append(canon_result(req, rr))
                except Abort:
                    raise
                except Exception as e:  # noqa
                    results[i].append([getattr(req, 'transaction_id', None), {'raised': errkind(e)}])
                marks.append((i, k, 'end', len(sched.events)))
        except Abort:
            pass
        finally:
            sched.done[i] = True
            sched.back.set()

    ths = [threading.Thread(target=worker, args=(i,), daemon=True) for i in range(n)]
    out = Run()
    out.hang = None
    out.given_up = False
    taken, points = [], []
    try:
        for i, t in enumerate(ths):
            t.start()
            if not sched.back.wait(10):
                raise Hang('thread %d did not reach its first yield point' % i)
        while True:
            en = sched.enabled()
            if not en:
                break
            ops = {i: sched.ann[i][0] for i in range(n) if sched.ann[i] is not None and not sched.done[i]}
            c = chooser(len(taken), en, ops)
            if c is None:          # the explorer gives this run up (sleep-set blocked: an equivalent run was made)
                out.given_up = True
                break
            points.append((en, ops))
            taken.append(c)
            sched.resume(c)
    except Hang as e:
        out.hang = str(e)
    out.deadlock = (not all(sched.done)) and out.hang is None and not out.given_up
    out.parked = [i for i in range(n) if not sched.done[i]]
    if not all(sched.done):
        sched.abort = True
        for i in range(n):
            sched.go[i].set()
        for t in ths:
            t.join(0.5)
    out.taken, out.points = taken, points
    out.events = [[t, op] for t, op in sched.events]
    out.wire = env.peer.wire
    out.results = results
    out.marks = marks
    out.locklog = locklog
    out.lock_ids = {'client': id(getattr(getattr(client, '_connect_lock', None), 'inner', None)),
                    'manager': id(getattr(getattr(mgr, '_transaction_lock', None), 'inner', None))}
    out.failed = list(env.failed)
    out.attempts = env.attempts
    out.left = dict(stream=[list(x) for x in env.peer.stream], pending=[list(x) for x in env.peer.pending],
                    buf=list(client.framer._buffer), tid=mgr.tid,
                    sock=client.socket.conn if isinstance(client.socket, FakeSocket) else None)
    return out


def observe_backoff():
    """ONE real transaction whose first transmission gets no answer, on a retrying client, single caller: are the
    client lock / the manager lock given up between the two transmissions (i.e. during the back-off)?
    Returns dict(observed=bool, client=number of releases of the client lock in that window, manager=...)."""
    th = [[{'unit': 1, 'addr': 100, 'count': 2, 'lat': 0, 'lost': 1}]]
    run = run_schedule(th, lambda step, en, ops: en[0], {'connected': True, 'retry': {'retries': 1}})
    sends = [p for p, e in enumerate(run.events) if e[1] == 'send1']
    done = [p for p, e in enumerate(run.events) if e[1] == 'send2']
    out = dict(observed=False, client=0, manager=0)
    if run.hang or run.deadlock or len(sends) < 2 or not done:
        return out
    lo, hi = done[0], sends[1]
    out['observed'] = run.results == [[[1, {'tid': 1, 'unit': 1, 'msg': {'regs': [100, 101]}}]]]
    for kind, _t, lid, pos in run.locklog:
        if kind == 'rel' and lo < pos <= hi:
            if lid == run.lock_ids['client']:
                out['client'] += 1
            elif lid == run.lock_ids['manager']:
                out['manager'] += 1
    return out


# --------------------------------------------------------------------------- the property, on an observed run
def intervals(run):
    """per transaction that wrote something: (thread, k, index of its first write, index of its last recv) in the
    global event sequence; a transaction that never returned stays open to the end of the run"""
    bounds = {}
    for (i, k, what, pos) in run.marks:
        bounds.setdefault((i, k), {})[what] = pos
    out = []
    for (i, k), b in sorted(bounds.items()):
        lo, hi = b['begin'], b.get('end', len(run.events))
        s = [p for p in range(lo, hi) if run.events[p][0] == i and run.events[p][1] == 'send1']
        r = [p for p in range(lo, hi) if run.events[p][0] == i and run.events[p][1] == 'recv']
        if not s:
            continue
        w2 = [p for p in range(lo, hi) if run.events[p][0] == i and run.events[p][1] == 'send2']
        # a call that reads nothing (a broadcast) is in flight between its two writes
        last = r[-1] if ('end' in b and r) else ((w2[-1] if w2 else s[0]) if 'end' in b else len(run.events))
        out.append((i, k, s[0], last))
    return out


def max_in_flight(run):
    """a transaction is in flight in the states after its first write and before its last recv has been performed,
    i.e. in states s+1 .. last (state j = after j events)"""
    iv = intervals(run)
    best, who = 0, []
    for a in iv:
        t = a[2] + 1
        inside = [b for b in iv if b[2] + 1 <= t <= b[3]]
        if len(inside) > best:
            best, who = len(inside), inside
    return best, who


def contiguous(wire):
    i = 0
    while i < len(wire):
        if i + 1 == len(wire):
            return wire[i][1] == 1
        a, b = wire[i], wire[i + 1]
        if not (a[1] == 1 and b[1] == 0 and a[0] == b[0] and a[2] == b[2]):
            return False
        i += 2
    return True


def attempts_of(case):
    r = (case or {}).get('retry')
    return r['retries'] + 1 if r else 1


def check_property(rep, case, run, expected, threads):
    """direct predicates on what the REAL code did; returns True if the property held on this run"""
    ok = True
    if run.hang:
        rep.violation('deadlock: a thread stopped reaching yield points (it blocks on something real) while the others '
                      'are parked', case, hang=run.hang, parked=run.parked, events=run.events[-14:])
        return False
    if run.deadlock:
        rep.violation('deadlock: no thread can move while some have not finished', case, parked=run.parked,
                      events=run.events[-12:])
        ok = False
    mf, who = max_in_flight(run)
    if mf > 1:
        rep.violation('two transactions are between send and end of receive at the same time', case,
                      in_flight=[[a[0], a[1]] for a in who], events=run.events[:40])
        ok = False
    if not contiguous(run.wire):
        rep.violation('request frames are interleaved on the transport', case,
                      wire=[[w[0], w[1], w[2]] for w in run.wire][:12])
        ok = False
    # a caller whose own connection attempt was refused legitimately gets ConnectionException (and sends nothing)
    refused = set()
    bounds = {}
    for (i, k, what, pos) in run.marks:
        bounds.setdefault((i, k), {})[what] = pos
    for (i, k), b in bounds.items():
        lo, hi = b['begin'], b.get('end', len(run.events))
        if any(ft == i and lo <= fp < hi for ft, fp in run.failed):
            refused.add((i, k))
    if contiguous(run.wire) and not run.deadlock:
        frames = [run.wire[i][3] + run.wire[i + 1][3] for i in range(0, len(run.wire) - 1, 2)]
        want = sum(len(t) for t in threads) - len(refused)
        most = sum(len(t) for t in threads) * attempts_of(case)      # a retrying client transmits a request again
        if not (want <= len(frames) <= most) or any(len(f) != 12 for f in frames):
            rep.violation('the frames on the transport are not whole frames, one per transmission of a request', case,
                          frames=len(frames), requests=want)
            ok = False
    for i, (rs, es, reqs) in enumerate(zip(run.results, expected, threads)):
        if run.deadlock and len(rs) < len(reqs):
            reqs, es = reqs[:len(rs)], es[:len(rs)]
        if len(rs) != len(reqs):
            rep.violation('a caller did not get exactly one result per request', case, thread=i, got=len(rs), want=len(reqs))
            ok = False
            continue
        for k, (r, e, q) in enumerate(zip(rs, es, reqs)):
            if (i, k) in refused:
                if r[1] != {'raised': 'modbusexc'}:
                    rep.violation('a caller whose connection attempt was refused did not get ConnectionException', case,
                                  thread=i, k=k, request=q, got=r[1])
                    ok = False
                continue
            if q.get('bcast'):
                if r[1] != {'bcast': 1}:
                    rep.violation('a broadcaster did not get the broadcast marker', case, thread=i, k=k, request=q,
                                  got=r[1])
                    ok = False
                continue
            if q.get('cut'):                                         # its reply arrived incomplete
                if r[1] != {'err': 'modbusio'}:
                    rep.violation('a caller whose reply arrived incomplete did not get its error object', case,
                                  thread=i, k=k, request=q, got=r[1])
                    ok = False
                continue
            if int(q.get('lost') or 0) >= attempts_of(case):       # none of its transmissions was answered
                if r[1] != {'err': 'modbusio'}:
                    rep.violation('a caller whose reply was lost did not get its error object', case,
                                  thread=i, k=k, request=q, got=r[1])
                    ok = False
                continue
            want = {'tid': r[0], 'unit': q['unit'], 'msg': e}
            if r[1] != want:
                rep.violation('a caller did not get the reply to its own request', case, thread=i, k=k,
                              request=q, got=r[1], expected=want)
                ok = False
    return ok


# --------------------------------------------------------------------------- model side
_BACKOFF = {}


def backoff_seen():
    """observe_backoff(), once per process"""
    if 'obs' not in _BACKOFF:
        try:
            _BACKOFF['obs'] = observe_backoff()
        except Exception as e:  # noqa
            _BACKOFF['obs'] = dict(observed=False, client=0, manager=0, error='%s: %s' % (type(e).__name__, e))
    return _BACKOFF['obs']


def model_scope():
    """the model discipline that corresponds to what the two lock sites look like in the source and to what the locks
    were SEEN to do during a back-off (mutants: the nearest)"""
    inner = gen_tables.lock_scope_info()['scope']
    outer = gen_tables.client_lock_info()['scope']
    per = inner.startswith('perKey')
    if outer == 'whole':
        if per and 'unit' in inner:
            return 'outerPerUnit'
        if inner == 'whole' and backoff_seen().get('client', 0) > 0:
            return 'releaseClientLockInBackoff'      # the back-off gives the client lock up (keeps the manager lock)
        return 'whole'
    if outer == 'connectOnly' and inner == 'whole':
        return 'connectLocked'
    if outer == 'broadcastOutside' and inner == 'whole':
        return 'broadcastOutside'    # a broadcast is written after the client lock has been given back
    if outer == 'connectOnlyWhenCold' and inner == 'whole':
        return 'lockOnlyWhenCold'    # a caller that sees a socket goes straight to the manager
    if outer == 'acquireTryFinally:connectOutsideTry' and inner == 'whole':
        return 'leakOnFail'          # the client lock is not given back when the connect fails
    if outer == 'acquireTryFinally' and inner == 'whole':
        return 'whole'
    if inner == 'whole':
        return 'connectOutside'
    if per:
        return 'perUnit' if 'unit' in inner else 'perAddr'
    return 'none'


def model_op(scope, threads, taken, connected):
    w = world(connected)
    op = {'op': 'sched', 'scope': scope, 'macro': True, 'connected': w['connected'], 'threads': threads, 'sched': taken}
    if w['fail'] == 'all':
        op['fail_all'] = True
    elif w['fail']:
        op['fail'] = list(w['fail'])
    if w.get('retry'):
        op['retry'] = {'retries': w['retry']['retries'], 'retry_on_empty': True}
    return op


def impl_view(run):
    return {'trace': run.events, 'wire': run.wire, 'results': run.results,
            'deadlock': 1 if run.deadlock else 0, 'left': run.left}


def model_view(a):
    return {'trace': [e for e in a['trace'] if e[1] in YIELD_OPS], 'wire': a['wire'], 'results': a['results'],
            'deadlock': a['deadlock'],
            'left': dict(stream=a['stream'], pending=a['pending'], buf=a['buf'], tid=a['tid'], sock=a['sock'])}


# --------------------------------------------------------------------------- enumeration
def independent(a, b):
    """steps of two different threads that commute whatever the code under test does with its lock: a poll is pure;
    the check of `connect` only READS client.socket, which only an `open` or a failing read (close) writes"""
    if a == 'wait' or b == 'wait':
        return True
    if a == 'connect' and b not in ('open', 'recv'):
        return True
    if b == 'connect' and a not in ('open', 'recv'):
        return True
    return False


def explore(threads, limit, time_left, use_sleep, connected=True, status=None):
    """stateless DFS over schedules; yields Run objects (each a complete run).  With `use_sleep`, sleep sets over
    `independent`."""
    stack = []      # per depth: dict(en, ops, sleep, done, chosen)
    prefix = []
    count = 0
    while True:
        redundant = [False]

        def chooser(step, en, ops):
            if step < len(prefix):
                c = prefix[step]
                if c not in en:       # non-deterministic real code: should not happen
                    c = en[0]
                return c
            # a new node
            sleep = set()
            if use_sleep and stack:
                par = stack[-1]
                pt = par['chosen']
                pop = par['ops'][pt]
                sleep = set(u for u in (par['sleep'] | par['done'])
                            if u != pt and u in par['ops'] and independent(par['ops'][u], pop))
            cand = [t for t in en if t not in sleep]
            if not cand:
                redundant[0] = True
                return None
            node = dict(en=en, ops=ops, sleep=sleep, done=set(), chosen=cand[0])
            stack.append(node)
            prefix.append(node['chosen'])
            return node['chosen']

        run = run_schedule(threads, chooser, connected)
        run.redundant = redundant[0]
        count += 1
        if not run.redundant:
            yield run
        if count >= limit or time_left() < 12:
            return          # truncated: `status['complete']` stays unset
        # backtrack
        while stack:
            node = stack[-1]
            node['done'].add(node['chosen'])
            nxt = [t for t in node['en'] if t not in node['done'] and t not in node['sleep']]
            if nxt:
                node['chosen'] = nxt[0]
                prefix[len(stack) - 1] = nxt[0]
                del prefix[len(stack):]
                break
            stack.pop()
            prefix.pop()
        if not stack:
            if status is not None:
                status['complete'] = True
            return


def random_run(threads, rng, connected=True):
    return run_schedule(threads, lambda step, en, ops: en[rng.randrange(len(en))], connected)


def forced(sch):
    return lambda step, en, ops: sch[step] if step < len(sch) and sch[step] in en else en[0]


# --------------------------------------------------------------------------- generators
UNITS = [1, 2, 3, 17, 247]


def gen_req(rng, unit=None):
    c = rng.choice([1, 1, 2, 2, 3, 4, 5, 7, 10, rng.randrange(1, 13), rng.randrange(1, 13), rng.choice([60, 125, rng.randrange(1, 126)])])
    if rng.random() < 0.12:
        c = rng.choice([0, 126, 200, 2000])        # the peer answers with an exception reply
    a = rng.choice([0, 100, 1000, 65535, 65530, rng.randrange(65536), rng.randrange(65536)])
    return {'unit': rng.choice(UNITS) if unit is None else unit, 'addr': a, 'count': c,
            'lat': rng.choice([0, 0, 0, 1, 1, 2])}


def with_losses(rng, th, n=1, retries=None):
    """mark `n` of the requests as unanswered (the peer stays silent: the reply is lost).  On a retrying client
    (`retries` further transmissions): the first 1..retries transmissions are lost (a later one is answered), or all
    retries+1 are"""
    th = [[dict(r) for r in t] for t in th]
    slots = [(i, k) for i, t in enumerate(th) for k in range(len(t))]
    for (i, k) in rng.sample(slots, min(n, len(slots))):
        th[i][k]['lost'] = 1 if retries is None else rng.choice([1, 1, 1, retries, retries, retries + 1])
    return th


def with_broadcasts(rng, th, n=1):
    """turn `n` of the requests into broadcasts (unit 0 on a broadcast-enabled client); the ordinary requests of such a
    case never address unit 0"""
    th = [[dict(r) for r in t] for t in th]
    for t in th:
        for r in t:
            if r['unit'] == 0:
                r['unit'] = 1
    slots = [(i, k) for i, t in enumerate(th) for k in range(len(t))]
    for (i, k) in rng.sample(slots, min(n, len(slots))):
        th[i][k]['unit'] = 0
        th[i][k]['bcast'] = 1
        th[i][k]['lat'] = 0
        th[i][k].pop('lost', None)
    return th


def gen_threads(rng, shape, maxlat=2):
    """different unit per thread in ~2/3 of the cases, any units in the rest (same unit, 0 and 255 included)"""
    mode = rng.random()
    out = []
    units = rng.sample(UNITS, len(shape))
    for i, k in enumerate(shape):
        rs = []
        for _ in range(k):
            if mode < 0.66:
                r = gen_req(rng, units[i])
            elif mode < 0.85:
                r = gen_req(rng, units[0])
            else:
                r = gen_req(rng, rng.choice(UNITS + [0, 255]))
            r['lat'] = min(r['lat'], maxlat)
            rs.append(r)
        out.append(rs)
    return out


def process_batch(ctx, rep, scope, batch):
    """batch: [(threads, connected, run, how)]: model comparison + property check"""
    if not batch:
        return
    def for_model(th):
        # a reply cut short is not in the schedule model (it has replies that never arrive): such runs are checked against the
        # property directly; the model is only asked what the replies to the requests are
        return [[dict({k: v for k, v in r.items() if k != 'cut'}, lost=1) if r.get('cut') else r for r in t] for t in th]
    ans = ctx.driver.query([model_op(scope, for_model(th), run.taken, conn) for th, conn, run, _ in batch])
    for (th, conn, run, how), a in zip(batch, ans):
        w = world(conn)
        if any(r.get('cut') for t in th for r in t):
            case = {'kind': 'schedule', 'connected': w['connected'], 'fail': w['fail'], 'retry': w.get('retry'),
                    'threads': th, 'sched': run.taken}
            rep.case((th, w, run.taken), nontrivial=True, tag='%s:cut-reply:%dx%s' % (how, len(th), max(len(x) for x in th)))
            check_property(rep, case, run, a['expected'], th)
            continue
        case = {'kind': 'schedule', 'connected': w['connected'], 'fail': w['fail'], 'retry': w.get('retry'),
                'threads': th, 'sched': run.taken}
        parked = any(op == 'acquire' and t not in en for en, ops in run.points for t, op in ops.items())
        inside = False
        last = None
        for t, op in run.events:
            if last is not None and t != last[0] and last[1] not in ('release',) and op != 'acquire':
                inside = True
            last = (t, op)
        rep.case((th, w, run.taken), nontrivial=parked or inside or bool(run.failed),
                 tag='%s:%dx%s:%s' % (how, len(th), max(len(x) for x in th), world_tag(w)))
        rep.sample({'threads': th, 'world': world_tag(w), 'schedule': ''.join(str(t) for t in run.taken),
                    'events': len(run.events), 'parked_on_lock': parked}, cap=4)
        held = check_property(rep, case, run, a['expected'], th)
        rep.compare(case, impl_view(run), model_view(a), 'real threads vs Sched.runSched on the same schedule')
        verdict = 1 if held else 0
        spec = 1 if (a['spec_exclusive'] and a['spec_contiguous'] and a['spec_served'] and not a['deadlock']) else 0
        rep.compare(case, verdict, spec, 'property verdict on the real run vs Spec verdict on the model run')
        rep.hist['unit-mix:' + ('different' if len({r['unit'] for t in th for r in t}) > 1 else 'same')] += 1
        if w.get('retry'):
            nb = sum(1 for _t, op in run.events if op == 'backoff')
            rep.hist['retry:runs-with-backoff' if nb else 'retry:runs-without-backoff'] += 1
            if any(ops.get(c) == 'backoff' and any(op == 'acquire' and t not in en for t, op in ops.items())
                   for c, (en, ops) in zip(run.taken, run.points)):
                rep.hist['retry:backoff-while-callers-parked-at-the-entrance'] += 1
            if any(int(r.get('lost') or 0) >= attempts_of(w) for t in th for r in t if not r.get('bcast')):
                rep.hist['retry:runs-with-all-transmissions-lost'] += 1


def run(ctx):
    rep = Report(RULE)
    rng = ctx.rng
    # wall-clock plan of the harness part: quick ~40 s, thorough ~7.5 min (inside the runner's own limits)
    t_end = _real_time.time() + min(ctx.scale(40, 450), ctx.time_left() - 15)

    def left():
        return t_end - _real_time.time()

    scope = model_scope()
    rep.notes.append('lock discipline read off the source: manager %r, client %r; locks during a back-off (observed): %r '
                     '-> model scope %s' % (gen_tables.lock_scope_info(), gen_tables.client_lock_info(), backoff_seen(),
                                            scope))
    batch = []
    total = [0]

    def flush():
        process_batch(ctx, rep, scope, batch)
        del batch[:]

    def add(th, conn, run, how):
        batch.append((th, conn, run, how))
        total[0] += 1
        if len(batch) >= 400:
            flush()

    def fresh_violations():
        return [v for v in rep.violations if not v.get('finding')]

    def enough():
        # stop searching once the property has been seen to fail often enough (mutants: the space is huge)
        return len(fresh_violations()) >= 40

    for c in ctx.corpus():
        if c.get('kind') == 'schedule':
            conn = world(c)
            add(c['threads'], conn, run_schedule(c['threads'], forced(list(c['sched'])), conn), 'corpus')
    flush()

    # 1. exhaustive (plain DFS, every schedule): client connected before the threads start / cold client.
    #    With the client lock around connect + transaction the only choice points are the lock acquisitions, so the
    #    number of schedules of a shape is the number of orders of its transactions (2x2: 6, 3x3x3: 1680, 2x2x2x2: 2520);
    #    on a tree where a lock is missing or narrowed the same enumeration explodes and finds the interleavings.
    base = [((1, 1), 8), ((2, 1), 3), ((1, 2), 3), ((2, 2), 4), ((3, 2), 2), ((3, 3), 2), ((1, 1, 1), 3), ((2, 2, 1), 2),
            ((2, 2, 2), 2), ((1, 1, 1, 1), 2), ((2, 1, 1, 1), 1), ((3, 3, 2), 1)]
    if not ctx.quick:
        base = [(sh, 3 * k) for sh, k in base] + [((3, 3, 3), 2), ((2, 2, 2, 2), 2), ((3, 2, 2, 1), 2), ((3, 3, 3, 1), 1)]
    # connection attempts that are refused (k-th `create_connection` of the run): only a cold client ever connects
    scripts = [[0], [1], [0, 1], 'all', [0, 2], [1, 2], [2]]
    plan = []
    for n_, (sh, k) in enumerate(base):
        plan.append((sh, True, k - k // 2))
        plan.append((sh, False, max(1, k // 2)))
        plan.append((sh, {'connected': False, 'fail': scripts[n_ % len(scripts)]}, 1))
        if len(sh) == 2 or not ctx.quick:
            plan.append((sh, {'connected': False, 'fail': scripts[(n_ + 3) % len(scripts)]}, 1))
    # lost replies (the peer stays silent for one or two requests): the connection is closed and re-opened by the next
    # call — 2..3 threads, the others calling before / after / concurrently; connected and cold clients, also
    # combined with a refused re-connection
    loss_plan = [((2, 1), True, 1), ((1, 2), True, 1), ((2, 2), True, 1), ((2, 2), False, 1), ((3, 2), True, 2),
                 ((2, 1, 1), True, 1), ((2, 2, 1), True, 2), ((2, 2), {'connected': True, 'fail': [0]}, 1),
                 ((2, 1, 1), {'connected': False, 'fail': [1]}, 1), ((3, 1), True, 1)]
    if not ctx.quick:
        loss_plan = loss_plan * 3 + [((3, 3), True, 2), ((2, 2, 2), True, 2), ((3, 2, 1), False, 1),
                                     ((2, 2, 2, 1), True, 2), ((3, 3, 2), {'connected': True, 'fail': [1]}, 2)]
    # retrying clients (retry_on_empty, 1..2 retries, back-off): first transmissions lost, the other threads arriving
    # before / during / after the back-off; small configurations, all schedules
    R1, R2 = {'retries': 1}, {'retries': 2}
    retry_plan = [((2, 1), {'connected': True, 'retry': R1}, 1), ((1, 1), {'connected': True, 'retry': R2}, 2),
                  ((1, 1, 1), {'connected': True, 'retry': R1}, 1), ((2, 2), {'connected': False, 'retry': R1}, 2),
                  ((2, 1), {'connected': True, 'fail': [0], 'retry': R1}, 1), ((2, 1, 1), {'connected': True, 'retry': R2}, 2),
                  ((1, 2), {'connected': False, 'fail': [1], 'retry': R2}, 1)]
    if not ctx.quick:
        retry_plan = retry_plan * 3 + [((2, 2, 1), {'connected': True, 'retry': R2}, 2), ((3, 2), {'connected': True, 'retry': R1}, 2),
                                       ((2, 2, 2), {'connected': False, 'retry': R1}, 2),
                                       ((2, 2, 1, 1), {'connected': True, 'retry': R1}, 1),
                                       ((3, 3), {'connected': True, 'fail': [1], 'retry': R2}, 3)]
    first = [((1, 1), {'connected': False, 'fail': [0]}, 1, 0), ((1, 1), {'connected': True, 'retry': R1}, 1, 1),
             ((2, 1), {'connected': False, 'fail': [0, 1]}, 1, 0)]
    # broadcasts (client with broadcast_enable, unit 0): threads mixing broadcasts and ordinary requests; `nlost` < 0
    # encodes "-n broadcasts" (and one lost reply besides when n >= 10)
    bc_plan = [((1, 1), True, -1), ((2, 1), True, -1), ((1, 2), False, -1), ((2, 2), True, -2), ((2, 2), False, -1),
               ((2, 1, 1), True, -1), ((2, 2, 1), True, -2), ((2, 2), {'connected': False, 'fail': [0]}, -1),
               ((3, 2), True, -12)]
    if not ctx.quick:
        bc_plan = bc_plan * 3 + [((3, 3), True, -2), ((2, 2, 2), True, -3), ((2, 2, 2, 1), True, -2), ((3, 3, 2), False, -13)]
    mixed = []
    for n_ in range(max(len(bc_plan), len(loss_plan), len(retry_plan))):
        mixed += [x for x in (loss_plan[n_:n_ + 1] + retry_plan[n_:n_ + 1] + bc_plan[n_:n_ + 1])]
    plan = first + [(sh, w, 1, nl) for sh, w, nl in mixed] + [(sh, w, k, 0) for sh, w, k in plan]
    exhaustive = True
    for shape, conn, ncases, nlost in plan:
        for _ in range(ncases):
            if enough():
                break
            if left() < ctx.scale(12, 230):
                exhaustive = False
                break
            th = gen_threads(rng, shape, maxlat=1 if sum(shape) > 2 else 2)
            if nlost > 0:
                th = with_losses(rng, th, nlost, (world(conn).get('retry') or {}).get('retries'))
            elif nlost < 0:
                if -nlost >= 10:
                    th = with_losses(rng, th, 1)
                th = with_broadcasts(rng, th, (-nlost) % 10)
            status = {}
            for r in explore(th, 60000, lambda: left() + 12 - ctx.scale(6, 200), False, conn, status):
                add(th, conn, r, 'dfs')
                if enough():
                    break
            flush()
            if not status.get('complete') and not enough():
                exhaustive = False
                rep.hist['dfs-truncated:%s' % 'x'.join(map(str, shape))] += 1
            rep.hist['dfs-cases:%s:%s%s' % ('x'.join(map(str, shape)), world_tag(conn),
                                            (':lost=%d' % nlost if nlost > 0 else ':bcast=%d' % (-nlost % 10))
                                            if nlost else '')] += 1
    flush()
    rep.exhaustive = exhaustive and not enough()

    # 1b. a reply that arrives INCOMPLETE (its first 8..12 bytes, then nothing): the caller gets its error object, the client
    #     drops the connection, and the callers queued behind it are served on a new one.  Not in the schedule model: checked
    #     against the property only, every schedule of 2 threads, random ones of 3.
    for shape, conn in (((1, 1), True), ((2, 1), True), ((1, 2), True), ((2, 2), True), ((1, 1), False)):
        if enough() or left() < ctx.scale(10, 200):
            break
        th = gen_threads(rng, shape, maxlat=1)
        i = rng.randrange(len(th))
        k = rng.randrange(len(th[i]))
        th[i][k] = dict(th[i][k], cut=rng.choice([8, 9, 10]), count=th[i][k]['count'] if 1 <= th[i][k]['count'] <= 125 else 2)   # (a normal reply: 11+ bytes)
        status = {}
        for r in explore(th, 4000, lambda: left() + 12 - ctx.scale(6, 200), False, conn, status):
            add(th, conn, r, 'dfs')
            if enough():
                break
        flush()
    for _ in range(ctx.scale(40, 400)):
        if enough() or left() < ctx.scale(8, 190):
            break
        th = gen_threads(rng, tuple(rng.randrange(1, 3) for _ in range(3)), maxlat=1)
        i = rng.randrange(len(th))
        k = rng.randrange(len(th[i]))
        th[i][k] = dict(th[i][k], cut=rng.choice([8, 9, 10]), count=th[i][k]['count'] if 1 <= th[i][k]['count'] <= 125 else 2)   # (a normal reply: 11+ bytes)
        add(th, True, random_run(th, rng, True), 'random')
    flush()

    # 2. random schedules, 2..4 threads x 1..3 transactions
    nrand = ctx.scale(250, 3000)
    for _ in range(nrand):
        if enough() or left() < ctx.scale(4, 180):
            break
        shape = tuple(rng.randrange(1, 4) for _ in range(rng.randrange(2, 5)))
        th = gen_threads(rng, shape)
        if rng.random() < 0.4:
            th = with_losses(rng, th, rng.choice([1, 1, 2]))
        if rng.random() < 0.35:
            th = with_broadcasts(rng, th, rng.choice([1, 1, 2]))
        conn = rng.random() < 0.6
        if not conn and rng.random() < 0.6:
            conn = {'connected': False, 'fail': rng.choice(scripts + [[rng.randrange(4)], [0, 1, 2]])}
        if rng.random() < 0.3:        # a retrying client; the lost requests lose their first transmission(s)
            conn = dict(world(conn), retry={'retries': rng.choice([1, 1, 2])})
            th = [[dict(r, lost=rng.choice([1, 1, conn['retry']['retries'], conn['retry']['retries'] + 1]))
                   if r.get('lost') else r for r in t] for t in th]
            if rng.random() < 0.5:
                th = with_losses(rng, th, 1, conn['retry']['retries'])
        add(th, conn, random_run(th, rng, conn), 'random')
    flush()

    # 3. thorough: DFS with sleep sets for 2..4 threads x 1..3 transactions, capped
    if not ctx.quick:
        cap = 200000
        shapes = [(3, 2, 1), (2, 2, 1, 1), (3, 3, 1), (3, 2, 2, 2), (3, 3, 3, 2), (3, 3, 3, 3)]
        for shape in shapes:
            if enough() or left() < 15 or total[0] >= cap:
                break
            for conn in (True, False, {'connected': False, 'fail': scripts[len(shape) % len(scripts)]}):
                th = gen_threads(rng, shape, maxlat=1)
                if rng.random() < 0.5:
                    th = with_losses(rng, th, 1)
                if rng.random() < 0.4:
                    th = with_broadcasts(rng, th, 1)
                if rng.random() < 0.35:
                    conn = dict(world(conn), retry={'retries': rng.choice([1, 2])})
                    th = with_losses(rng, th, 1, conn['retry']['retries'])
                budget = min(cap - total[0], 6000)
                if budget <= 0 or left() < 15:
                    break
                for r in explore(th, budget, lambda: left() + 7, True, conn):
                    add(th, conn, r, 'dfs-sleep')
                    if enough():
                        break
                flush()
                rep.hist['dfs-sleep-cases:%s' % 'x'.join(map(str, shape))] += 1
    flush()
    rep.extra['schedules_run'] = total[0]
    return rep


def replay(ctx, payload):
    c = payload['case']
    if c.get('kind') != 'schedule':
        return None
    conn = world(c)
    r = run_schedule(c['threads'], forced(list(c['sched'])), conn)
    scope = model_scope()
    a = ctx.driver.query([model_op(scope, c['threads'], r.taken, conn)])[0]
    rep = Report(RULE)
    check_property(rep, c, r, a['expected'], c['threads'])
    fresh = [v for v in rep.violations if not v.get('finding')]
    if fresh:
        return fresh[0]['what']
    if rep.violations:
        return 'known finding %s: %s' % (rep.violations[0]['finding'], rep.violations[0]['what'])
    if impl_view(r) != model_view(a):
        return 'model/implementation disagreement'
    return None
