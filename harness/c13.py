"""C13 — client transactions end in bounded time with a result, and the client recovers.

Real code: ModbusTcpClient (socket / RTU / ASCII / binary framer), ModbusSerialClient (rtu / ascii / binary) and
ModbusUdpClient, each with its real ModbusTransactionManager, run over the scripted fake transport and the virtual
clock of harness/txnlib.py.  Model: lean/Pymodbus/Model/Txn.lean (`txn` op), theorems: Props/C13.lean.

Per call the real client's result kind / decoded reply, the frames it wrote, the bytes it consumed and flushed and its
state afterwards are compared with the model (correspondence), and the property is checked directly on the real
trace: transmissions <= 1 + retries, no exception escapes and nothing but a reply / error object / broadcast marker
is returned, the call terminates (operation budget and virtual-time bound), the client ends in
TRANSACTION_COMPLETE with an empty transaction table, retry_on_empty / retry_on_invalid are honoured, and after any
fault history a call over a healthy transport returns its own reply."""
import itertools

from harness.runner import Report
from harness import txnlib as T

ASSUMPTIONS = [
    'the transport is the scripted peer of harness/txnlib.py: one reaction per transmission (reply bytes now, bytes '
    'that arrive after the attempt, receive-side failure), stream reads return min(n, available); time is virtual',
    'connect() succeeds (the property excepts failure to establish the connection); a finite timeout is configured '
    '(ModbusUdpClient defaults to timeout=None, which blocks forever by design of the socket API)',
    'requests are encodable objects of the library\'s request classes (diagnostic requests carry an int message)',
    '"healthy transport" for the recovery clause: the connection is not in a failed state the client has not seen yet '
    '(recv error pending on an open socket)',
    'TCP: a reply of more than timeout/tick bytes read byte-wise (size None) is outside the fake clock\'s resolution',
]
TRUSTED = ['harness/txnlib.py: fake socket / serial / select / time objects, scripted peer, canonicalisation']
RULE = ('client kind x framer (8 combinations) x retries 0..3 x retry_on_empty x retry_on_invalid x broadcast_enable x '
        'histories of 1..6 calls (all 19 request classes, unit ids incl. 0 / 255, start tid incl. wrap) x scripts of '
        '0..4 reactions per call over 22 reaction kinds (full / exception reply, nothing, k of n bytes, split now/late, '
        'garbage, wrong unit, stale tid / function, several frames, late reply, send error, receive error, peer close), '
        'each history followed by a recovery call; retry-honour scripts (j <= retries empty / foreign-unit attempts then '
        'the reply); exhaustive scripts over a 10-kind alphabet (length <= 2 quick, <= 3 thorough); non-trivial = at '
        'least one call returned a decoded reply; distinct by canonical JSON of (configuration, history)')

KF_UDP = 'udp-stale-datagram'
ALPHABET = ['full', 'nothing', 'prefix', 'garbage', 'wrongunit', 'stale_fc', 'late', 'send_err', 'recv_err', 'closed']


# ------------------------------------------------------------------ case construction
def recovery_call(rng, cfg, tid, unit=None, t=None, prev=None):
    """a call over a healthy transport: the conformant reply (normal or exception) to this request; `prev`: execute the request
    OBJECT of that earlier call again (a polling loop)"""
    u = unit if unit is not None else rng.choice([1, 5, 17, 247, 255] + ([] if cfg['broadcast'] else [0]))
    c = None
    if prev is not None and not (cfg['broadcast'] and prev['unit'] == 0):
        c = T.again_call(rng, cfg, tid, prev, kinds=['full'] if rng.random() < 0.8 else ['exc'], nreact=1)
    if c is None:
        c = T.gen_call(rng, cfg, tid, kinds=['full'] if rng.random() < 0.8 else ['exc'], nreact=1, unit=u, t=t)
    c['expect'] = c['resp'] if c['kinds'] == ['full'] else {'t': 'exception', 'fc': T.FC[c['req']['t']],
                                                            'code': _exc_code(cfg['framer'], c)}
    return c


def _exc_code(framer, call):
    """the exception code of the frame mk_reaction put into the script (read back from the frame bytes)"""
    f = call['script'][0]['now'][0]
    if framer == 'tcp':
        return f[8]
    if framer == 'rtu':
        return f[2]
    if framer == 'binary':
        return f[3]
    return int(bytes(f[5:7]), 16)


def fault_history(rng, cfg=None, ncalls=None):
    cfg = cfg or T.gen_cfg(rng)
    tid0 = rng.choice([0, 0, 1, 65532, 65534, 65535, rng.randrange(65536)])
    n = ncalls if ncalls is not None else rng.randrange(1, 6)
    unit = rng.choice([1, 5, 17, 247, 255, 0]) if rng.random() < 0.7 else None
    calls, tid = [], tid0
    for _ in range(n):
        tid = (tid + 1) & 0xFFFF
        kinds = T.REACTION_KINDS if rng.random() < 0.5 else T.FAULT_KINDS
        again = T.again_call(rng, cfg, tid, calls[-1], kinds=kinds) if calls and rng.random() < 0.2 else None
        calls.append(again if again is not None else T.gen_call(rng, cfg, tid, kinds=kinds, unit=unit))
    tid = (tid + 1) & 0xFFFF
    ru = unit if (unit is not None and not (cfg['broadcast'] and unit == 0)) else None
    calls.append(recovery_call(rng, cfg, tid, ru, prev=calls[-1] if calls and rng.random() < 0.3 else None))
    return {'cfg': cfg, 'tid0': tid0, 'calls': calls, 'kind': 'fault+recover'}


def honour_case(rng, which, cfg=None):
    """j <= retries attempts that get nothing (which='empty') or a foreign-unit frame ('invalid'), then the reply"""
    cfg = dict(cfg or T.gen_cfg(rng))
    cfg['retries'] = rng.choice([1, 2, 3])
    cfg['retry_on_' + which] = 1
    tid0 = rng.choice([0, 1, 65534, 65535, rng.randrange(65536)])
    calls, tid = [], tid0
    for _ in range(rng.choice([0, 0, 1, 2])):          # healthy prior calls
        tid = (tid + 1) & 0xFFFF
        calls.append(recovery_call(rng, cfg, tid))
    tid = (tid + 1) & 0xFFFF
    j = rng.randrange(1, cfg['retries'] + 1)
    unit = rng.choice([1, 5, 17, 247])
    kind = 'nothing' if which == 'empty' else 'wrongunit'
    for _ in range(50):
        c = T.gen_call(rng, cfg, tid, kinds=['full'], nreact=1, unit=unit)
        pre = [T.mk_reaction(rng, kind, cfg['framer'], cfg['transport'] == 'udp', c['req'], c['resp'], unit, tid)
               for _ in range(j)]
        if all(p is not None for p in pre):
            break
    c['script'] = pre + c['script']
    c['kinds'] = [kind] * j + ['full']
    c['expect'] = c['resp']
    calls.append(c)
    return {'cfg': cfg, 'tid0': tid0, 'calls': calls, 'kind': 'honour_' + which}


def exhaustive_cases(rng, maxlen, settings):
    """every script of length <= maxlen over ALPHABET, for every client kind, followed by a recovery call"""
    out = []
    for (transport, framer) in T.CONFIGS:
        for n in range(0, maxlen + 1):
            for ks in itertools.product(ALPHABET, repeat=n):
                for (retries, roe, roi) in settings(rng):
                    cfg = {'transport': transport, 'framer': framer, 'retries': retries, 'retry_on_empty': roe,
                           'retry_on_invalid': roi, 'broadcast': 0}
                    c1 = None
                    for _ in range(20):
                        req, resp = T.gen_pair(rng, rng.choice(['readHolding', 'readCoils', 'writeRegister', 'readExceptionStatus']))
                        rs = [T.mk_reaction(rng, k, framer, transport == 'udp', req, resp, 5, 1) for k in ks]
                        if all(r is not None for r in rs):
                            c1 = {'req': req, 'unit': 5, 'script': rs, 'kinds': list(ks), 'resp': resp}
                            break
                    if c1 is None:
                        continue
                    out.append({'cfg': cfg, 'tid0': 0, 'calls': [c1, recovery_call(rng, cfg, 2, 5)], 'kind': 'exhaustive'})
    return out


# ------------------------------------------------------------------ the property on the real trace
def check_case(rep, case, real, model):
    cfg = case['cfg']
    sc = T.strip_case(case)
    T.compare(rep, sc, real, model, 'client call vs Txn.execute')
    tid = case['tid0']
    prev, prev_kind = None, None
    for i, (call, o) in enumerate(zip(case['calls'], real)):
        tid = (tid + 1) & 0xFFFF
        res = o['result']
        at = dict(sc, at_call=i)
        if res['kind'] == 'hang':
            rep.violation('a client call did not terminate within the operation budget', at, ops=o['ops'])
            return
        if res['kind'] in ('raised', 'none', 'other'):
            rep.violation('a client call raised / returned no result object instead of an error object', at, result=res)
            return
        if o['tx'] > model[i]['max_tx']:
            rep.violation('the request was transmitted more than 1 + retries times', at, tx=o['tx'], retries=cfg['retries'])
            return
        if o['elapsed'] > T.time_bound(cfg):
            rep.violation('a client call exceeded the virtual-time bound', at, elapsed=o['elapsed'], bound=T.time_bound(cfg))
            return
        if res['kind'] == 'broadcast' and len(o['writes']) != 1:
            rep.violation('a broadcast was reported as sent although the request was not written', at, tx=o['tx'],
                          writes=len(o['writes']))
            return
        st = o['state']
        if st['cstate'] != 'complete' or st['pending'] != 0:
            rep.violation('the client is not left ready for the next call (state / transaction table)', at,
                          cstate=st['cstate'], pending=st['pending'])
            return
        if 'expect' in call:
            # a healthy exchange: the property demands this call's own reply
            broken = prev is not None and prev['open'] and prev['mode'] == 'oserror'
            # known finding: a datagram left on the open socket after a call that did NOT fail (a failed call closes it)
            stale_dgram = (cfg['transport'] == 'udp' and prev is not None and prev['open'] and T.pending_input(prev)
                           and prev_kind in ('reply', 'broadcast'))
            want = T.expected_reply(call, cfg['framer'], tid)
            got = res if res['kind'] == 'reply' else None
            ok = got is not None and want is not None and got['msg'] == want['msg'] and got['uid'] == want['uid']
            if not ok and not broken:
                what = {'fault+recover': 'after a fault history a call over a healthy transport did not return its own reply',
                        'exhaustive': 'after a fault history a call over a healthy transport did not return its own reply',
                        'honour_empty': 'retry_on_empty not honoured: the reply arrived within the retry budget but was not returned',
                        'honour_invalid': 'retry_on_invalid not honoured: the reply arrived within the retry budget but was not returned',
                        }.get(case.get('kind'), 'a healthy call did not return its own reply')
                rep.violation(what, at, finding=KF_UDP if (stale_dgram and res['kind'] == 'error') else None,
                              result=res, expected=want, kinds=call.get('kinds'))
                return
        prev, prev_kind = st, res['kind']


def check(ctx, rep, cases):
    for c, (real, model) in zip(cases, T.run_both(ctx, cases)):
        replied = any(o['result']['kind'] == 'reply' for o in real)
        rep.case((c['cfg'], c['tid0'], [(x['req'], x['unit'], x['script']) for x in c['calls']]), nontrivial=replied,
                 tag='%s:%s:%s' % (c.get('kind', 'history'), c['cfg']['transport'], c['cfg']['framer']))
        for o in real:
            rep.hist['result:' + o['result']['kind']] += 1
            rep.hist['tx:%d' % o['tx']] += 1
        rep.sample({'cfg': c['cfg'], 'kinds': [x.get('kinds') for x in c['calls']],
                    'results': [o['result']['kind'] for o in real], 'tx': [o['tx'] for o in real]}, cap=6)
        check_case(rep, c, real, model)


def pyint_check(ctx, rep):
    """the model of int(x, 16) used for the ASCII peeks, against Python, on every 0/1/2-byte string"""
    items = [[]] + [[a] for a in range(256)] + [[a, b] for a in range(256) for b in range(256)]
    out = ctx.driver.query([{'op': 'pyint16', 'items': items}])[0]['out']
    for bs, m in zip(items, out):
        try:
            v = int(bytes(bs), 16)
        except ValueError:
            v = None
        if v != m:
            rep.disagree({'pyint16': bs}, v, m, 'int(bytes, 16) vs Txn.pyIntHex')
            break
    rep.traces_validated += 1
    rep.notes.append('int(bytes,16) model checked exhaustively on %d strings' % len(items))


def run(ctx):
    rep = Report(RULE)
    rng = ctx.rng
    corpus = [c for c in ctx.corpus() if c.get('calls')]
    if corpus:
        check(ctx, rep, corpus)
    pyint_check(ctx, rep)

    def settings_quick(r):
        return [(r.choice([0, 1, 2, 3]), r.choice([0, 1]), r.choice([0, 1]))]

    def settings_all(r):
        return [(n, e, i) for n in (0, 1, 2, 3) for e in (0, 1) for i in (0, 1)]

    if ctx.quick:
        ex = exhaustive_cases(rng, 2, settings_quick)
    else:
        ex = exhaustive_cases(rng, 2, settings_all) + exhaustive_cases(rng, 3, settings_quick)
    rep.exhaustive = {'alphabet': ALPHABET, 'max_script_length': 2 if ctx.quick else 3,
                      'retry_settings': 'one sampled per script' if ctx.quick else 'all 16 for length <= 2, one sampled for length 3',
                      'cases': len(ex)}
    for i in range(0, len(ex), 400):
        if ctx.time_left() < 25:
            rep.notes.append('exhaustive sweep cut short by the time budget at %d of %d' % (i, len(ex)))
            break
        check(ctx, rep, ex[i:i + 400])
    total = ctx.scale(6000, 80000)
    done = 0
    while done < total and ctx.time_left() > 20:
        cases = []
        for _ in range(250):
            x = rng.random()
            if x < 0.7:
                cases.append(fault_history(rng))
            elif x < 0.85:
                cases.append(honour_case(rng, 'empty'))
            else:
                cases.append(honour_case(rng, 'invalid'))
        check(ctx, rep, cases)
        done += len(cases)
    return rep


def replay(ctx, payload):
    rep = Report(RULE)
    c = dict(payload['case'])
    c.pop('at_call', None)
    check(ctx, rep, [c])
    bad = [v for v in rep.violations if v.get('finding') is None]
    if bad:
        return bad[0]['what']
    if rep.disagreements:
        return 'model/implementation disagreement'
    return None
