"""C06 — framing is independent of how the byte stream is chunked.

Streams of 1..6 valid frames (mixed classes) per framer and direction, cut in many ways (every single cut, byte-wise,
random cut sets with empty reads; all 2^(n-1) cut sets for short streams in thorough).  For every chunking: the
deliveries are those of one-frame-per-call delivery (= the messages of the stream, in order), no exception escapes, and
the real framer agrees call by call with the model."""
from harness.runner import Report
from harness import msggen, framelib
from harness.c01 import nontrivial, devinfo_fits
from harness.c02 import in_range
from harness.c03 import classify as classify_frame

ASSUMPTIONS = ['streams consist of valid frames addressed to a unit the receiver accepts',
               'binary framing: frames containing 0x7B/0x7D between the delimiters are excluded (known finding)']
RULE = ('streams of 1..6 frames x {tcp, rtu, ascii, binary} x {server, client}; chunkings: whole, one frame per read, '
        'every single cut, byte-wise, random cut sets incl. empty reads (quick); plus all cut sets of streams up to 14 '
        'bytes and all 2-cut sets (thorough); non-trivial = a chunking that cuts inside a frame; distinct by (stream, cuts)')


def frame_ok(name, direction, m, frame):
    """frames for which whole-frame round trip holds (C03); the rest are C03's known findings"""
    return classify_frame(name, direction, m, frame, 'recv') is None and classify_frame(name, direction, m, frame, 'build') is None


def gen_stream(rng, name, direction, nframes):
    gen = msggen.gen_req if direction == 'req' else msggen.gen_resp
    frames, msgs = [], []
    uid = rng.choice([1, 2, 0x11, 0xF7, 0, 0xFF])
    tries = 0
    while len(frames) < nframes and tries < 200:
        tries += 1
        m = gen(rng)
        if not in_range(direction, m) or not devinfo_fits(m):
            continue
        relative = m['t'] in ('readFifo', 'readFileRecord') and direction == 'resp'
        if m['t'] == 'readDeviceInfo' and direction == 'resp' and name == 'rtu' and m['number_of_objects'] != len(m['information']):
            continue
        tid = rng.randrange(65536)
        f = framelib.real_build(name, direction, m, uid, tid, 0)
        if isinstance(f, dict) or len(f) > 300:
            continue
        if relative:
            # classes whose codec is a recorded finding (C01/C02): what a whole frame delivers is not the message that was
            # built, but the chunking property is relative to one-frame-per-read, so they belong in the streams as long as
            # the whole frame is delivered at all
            whole = framelib.real_feed(name, 'client', [uid], False, [f])
            if framelib.raised(whole) or len(framelib.deliveries(whole)) != 1 or whole[-1]['buffered']:
                continue
        elif not frame_ok(name, direction, m, f):
            continue
        frames.append(f)
        msgs.append(m)
    return uid, frames, msgs


DIRECTED = {'req': ['writeRegisters', 'writeCoils', 'readWrite', 'writeFileRecord', 'readFileRecord', 'readExceptionStatus', 'writeRegister',
                    'getCommEventCounter', 'readHolding', 'getCommEventLog', 'readCoils', 'reportSlaveId'],   # the shortest requests too, one of them last
            'resp': ['readDeviceInfo', 'readHolding', 'readFifo', 'readCoils', 'getCommEventLog', 'reportSlaveId', 'writeFileRecord', 'readFifo', 'exception']}


def directed_stream(rng, name, direction, last=None):
    """one frame of every variable-length class (the RTU length oracle has a rule of its own for each); `last`: the class
    whose frame ends the stream (nothing arrives behind the last frame: a receiver that needs later bytes to notice that
    it is complete never delivers it)"""
    gen = msggen.gen_req if direction == 'req' else msggen.gen_resp
    uid, frames, msgs = 1, [], []
    order = list(DIRECTED[direction])
    if last is not None:
        order = [t for t in order if t != last][:3] + [last]
    for t in order:
        for _ in range(30):
            m = gen(rng, t)
            if t == 'readDeviceInfo' and (not m['information'] or m['number_of_objects'] != len(m['information'])):
                continue
            if not in_range(direction, m) or not devinfo_fits(m):
                continue
            f = framelib.real_build(name, direction, m, uid, rng.randrange(65536), 0)
            if isinstance(f, dict) or len(f) > 120:
                continue
            if t == 'readFifo' and direction == 'resp':
                # (codec finding: relative to what one frame per read delivers, see gen_stream)
                whole = framelib.real_feed(name, 'client', [uid], False, [f])
                if framelib.raised(whole) or len(framelib.deliveries(whole)) != 1 or whole[-1]['buffered']:
                    continue
            elif not frame_ok(name, direction, m, f):
                continue
            frames.append(f)
            msgs.append(m)
            break
    return uid, frames, msgs


def cut(stream, cuts):
    pts = [0] + sorted(cuts) + [len(stream)]
    return [stream[a:b] for a, b in zip(pts, pts[1:])]


def chunkings(rng, frames, quick):
    stream = [b for f in frames for b in f]
    n = len(stream)
    bounds, p = [], 0
    for f in frames[:-1]:
        p += len(f)
        bounds.append(p)
    out = [[stream], cut(stream, bounds), [[b] for b in stream]]
    singles = list(range(1, n))
    if quick and len(singles) > 40:
        singles = rng.sample(singles, 40)
    out += [cut(stream, [c]) for c in singles]
    for _ in range(12 if quick else 60):
        k = rng.randrange(1, min(8, n))
        cs = sorted(rng.sample(range(1, n), k)) if n > 1 else []
        ch = cut(stream, cs)
        if rng.random() < 0.5:
            for _ in range(rng.randrange(1, 3)):
                ch.insert(rng.randrange(len(ch) + 1), [])
        out.append(ch)
    if not quick:
        if n <= 14:
            for mask in range(1 << (n - 1)):
                out.append(cut(stream, [i + 1 for i in range(n - 1) if mask >> i & 1]))
        pairs = [(a, b) for a in range(1, n) for b in range(a + 1, n)]
        for a, b in (pairs if len(pairs) <= 400 else rng.sample(pairs, 400)):
            out.append(cut(stream, [a, b]))
    return out, bounds


def check_streams(ctx, rep, name, direction, streams):
    rdir = 'server' if direction == 'req' else 'client'
    q, meta = [], []
    for uid, frames, msgs in streams:
        chs, bounds = chunkings(ctx.rng, frames, ctx.quick)
        base = framelib.deliveries(framelib.real_feed(name, rdir, [uid], False, frames))
        for ch in chs:
            q.append({'op': 'feed', 'framer': name, 'dir': rdir, 'units': [uid], 'single': False, 'chunks': ch})
            meta.append((uid, frames, ch, base, bounds))
    ans = ctx.driver.query(q)
    for (uid, frames, ch, base, bounds), a in zip(meta, ans):
        case = {'kind': 'chunks', 'framer': name, 'dir': rdir, 'uid': uid, 'chunks': ch}
        cuts, p = [], 0
        for c in ch[:-1]:
            p += len(c)
            cuts.append(p)
        inside = any(c not in bounds for c in cuts)
        rep.case((name, rdir, ch), nontrivial=inside, tag='%s:%s' % (name, rdir))
        rep.sample({'framer': name, 'dir': rdir, 'chunk_lengths': [len(c) for c in ch]}, cap=5)
        calls = framelib.real_feed(name, rdir, [uid], False, ch)
        rep.compare(case, calls, a['calls'], 'processIncomingPacket per chunk vs model')
        r = framelib.raised(calls)
        if r:
            rep.violation('an exception escaped the receive call while frames were merely incomplete', case,
                          raised=r, frames=len(frames))
            continue
        got = framelib.deliveries(calls)
        if got != base or len(base) != len(frames):
            rep.violation('deliveries depend on the chunking', case, got=got[:3], expected=base[:3],
                          n_got=len(got), n_expected=len(frames))


def run(ctx):
    rep = Report(RULE)
    rng = ctx.rng
    for c in ctx.corpus():
        if c.get('kind') == 'chunks':
            a = ctx.driver.query([{'op': 'feed', 'framer': c['framer'], 'dir': c['dir'], 'units': [c['uid']], 'single': False, 'chunks': c['chunks']}])[0]
            calls = framelib.real_feed(c['framer'], c['dir'], [c['uid']], False, c['chunks'])
            rep.case(('corpus', c['framer'], c['chunks']), tag='corpus')
            rep.compare(c, calls, a['calls'], 'corpus')
            whole = framelib.deliveries(framelib.real_feed(c['framer'], c['dir'], [c['uid']], False, [[b for ch in c['chunks'] for b in ch]]))
            if framelib.raised(calls) or framelib.deliveries(calls) != whole:
                rep.violation('deliveries depend on the chunking', c, got=framelib.deliveries(calls)[:3], expected=whole[:3])
    for name in framelib.STREAM_FRAMERS:
        for direction in ('req', 'resp'):
            s = directed_stream(rng, name, direction)
            if s[1]:
                check_streams(ctx, rep, name, direction, [s])
            # every variable-length class in turn as the LAST frame of a short stream
            for t in sorted(set(DIRECTED[direction])):
                s = directed_stream(rng, name, direction, last=t)
                if s[1]:
                    check_streams(ctx, rep, name, direction, [s])
    # MANY frames in one read (a pipelining master, a burst after a stall): 40 short frames, whole and in a few pieces
    for name in framelib.STREAM_FRAMERS:
        for direction in ('req', 'resp'):
            uid, frames, msgs = gen_stream(rng, name, direction, 60)
            short = [(f, m) for f, m in zip(frames, msgs) if len(f) <= 24][:40]
            if len(short) >= 20:
                check_streams(ctx, rep, name, direction, [(uid, [f for f, _ in short], [m for _, m in short])])
                rep.hist['many-frames-stream:%s:%s' % (name, direction)] += 1
    # the largest legal frames, two per stream
    for name in framelib.STREAM_FRAMERS:
        for direction in ('req', 'resp'):
            frames, msgs = [], []
            big = [m for m in msggen.max_size_msgs(rng, direction) if in_range(direction, m)]
            rng.shuffle(big)
            for m in big:
                f = framelib.real_build(name, direction, m, 1, rng.randrange(65536), 0)
                if isinstance(f, dict) or not frame_ok(name, direction, m, f):
                    continue
                frames.append(f)
                msgs.append(m)
                if len(frames) == 2:
                    break
            if frames:
                check_streams(ctx, rep, name, direction, [(1, frames, msgs)])
                rep.hist['max-size-stream:%s:%s' % (name, direction)] += 1
    rounds = ctx.scale(6, 120)
    for _ in range(rounds):
        if ctx.time_left() < 20:
            break
        for name in framelib.STREAM_FRAMERS:
            for direction in ('req', 'resp'):
                streams = []
                for _ in range(2):
                    s = gen_stream(rng, name, direction, rng.choice([1, 1, 2, 3, 6]))
                    if s[1]:
                        streams.append(s)
                check_streams(ctx, rep, name, direction, streams)
    return rep


def replay(ctx, payload):
    c = payload['case']
    rep = Report(RULE)
    a = ctx.driver.query([{'op': 'feed', 'framer': c['framer'], 'dir': c['dir'], 'units': [c['uid']], 'single': False, 'chunks': c['chunks']}])[0]
    calls = framelib.real_feed(c['framer'], c['dir'], [c['uid']], False, c['chunks'])
    whole = framelib.deliveries(framelib.real_feed(c['framer'], c['dir'], [c['uid']], False, [[b for ch in c['chunks'] for b in ch]]))
    if framelib.raised(calls):
        return 'exception escaped'
    if framelib.deliveries(calls) != whole:
        return 'deliveries depend on the chunking'
    if calls != a['calls']:
        return 'model/implementation disagreement'
    return None
