"""Shared check runner: build + audit the Lean side, run the property's harness against the real
code and the compiled model driver, decide the verdict, write evidence/replays."""
import argparse
import fcntl
import hashlib
import importlib
import json
import os
import random
import re
import subprocess
import sys
import time
import traceback
from collections import Counter

VERIF = os.path.dirname(os.path.dirname(os.path.abspath(__file__)))
LEAN = os.path.join(VERIF, 'lean')
DRIVER = os.path.join(LEAN, '.lake', 'build', 'bin', 'pmdriver')
ALLOWED_AXIOMS = {'propext', 'Classical.choice', 'Quot.sound'}
FORBIDDEN = re.compile(r'\b(sorry|admit|native_decide|bv_decide|implemented_by|unsafe)\b|maxHeartbeats 0|^\s*axiom\s')

TRUSTED_BASE = [
    'Lean 4.33.0 kernel; axioms allowed: propext, Classical.choice, Quot.sound (audited per theorem on every run)',
    'Lean compiler/runtime for the pmdriver executable (runs the definitions the theorems are about)',
    'harness/gen_tables.py (reads class attributes/constants of the imported pymodbus into Generated/Tables.lean)',
    'correspondence harness (generators, canonicalisation, in-process fakes) comparing /repo code with the model',
    'CPython semantics of struct, bytes slicing, dict order as modelled in Model/Prelude.lean',
]


class InfraError(Exception):
    pass


def sh(cmd, timeout, cwd=None, inp=None):
    p = subprocess.run(cmd, cwd=cwd, input=inp, stdout=subprocess.PIPE, stderr=subprocess.STDOUT,
                       timeout=timeout, text=True)
    return p.returncode, p.stdout


# --------------------------------------------------------------------------- driver
class Driver:
    """One batch = one process run of the compiled model driver (line protocol, JSON per line)."""

    def __init__(self):
        self.lines = 0

    def query(self, ops):
        if not ops:
            return []
        data = '\n'.join(json.dumps(o, separators=(',', ':')) for o in ops) + '\n'
        p = subprocess.run([DRIVER], input=data, stdout=subprocess.PIPE, stderr=subprocess.PIPE,
                           text=True, timeout=1800)
        if p.returncode != 0:
            raise InfraError('pmdriver exited %d: %s' % (p.returncode, p.stderr[-2000:]))
        out = p.stdout.splitlines()
        if len(out) != len(ops):
            raise InfraError('pmdriver answered %d lines for %d ops' % (len(out), len(ops)))
        self.lines += len(ops)
        res = []
        for o, l in zip(ops, out):
            r = json.loads(l)
            if isinstance(r, dict) and 'driver_error' in r:
                raise InfraError('pmdriver rejected op %r: %s' % (o, r['driver_error']))
            res.append(r)
        return res


# --------------------------------------------------------------------------- report
def canon(x):
    return json.dumps(x, sort_keys=True, separators=(',', ':'), default=str)


class Report:
    def __init__(self, rule):
        self.rule = rule
        self.evaluations = 0
        self.nontrivial = set()
        self.samples = []
        self.hist = Counter()
        self.violations = []      # property failures on the real code
        self.disagreements = []   # impl != model
        self.traces_validated = 0
        self.exhaustive = None
        self.notes = []
        self.extra = {}

    def case(self, key=None, nontrivial=True, tag=None):
        self.evaluations += 1
        if tag:
            self.hist[tag] += 1
        if nontrivial and key is not None:
            self.nontrivial.add(hashlib.blake2b(canon(key).encode(), digest_size=8).digest())

    def sample(self, s, cap=6):
        if len(self.samples) < cap:
            self.samples.append(s)

    def violation(self, what, case, finding=None, **detail):
        self.violations.append(dict(what=what, case=case, finding=finding, detail=detail))

    def disagree(self, case, impl, model, where=''):
        self.disagreements.append(dict(case=case, impl=impl, model=model, where=where))

    def compare(self, case, impl, model, where=''):
        """correspondence: the real code and the model agree on this case"""
        self.traces_validated += 1
        if impl != model:
            self.disagree(case, impl, model, where)
            return False
        return True


class Ctx:
    def __init__(self, pid, tier, seed, deadline):
        self.pid = pid
        self.tier = tier
        self.seed = seed
        self.rng = random.Random((seed * 1000003) ^ int(pid[1:]))
        self.driver = Driver()
        self.deadline = deadline
        self.quick = tier == 'quick'

    def corpus(self):
        """witnesses of recorded findings (known and fixed) + minimised past failures; run first"""
        out = [f['witness'] for f in load_known() if f.get('property') == self.pid and 'witness' in f]
        p = os.path.join(VERIF, 'corpus', self.pid + '.jsonl')
        if os.path.exists(p):
            out += [json.loads(l) for l in open(p) if l.strip()]
        return out

    def time_left(self):
        return self.deadline - time.time()

    def scale(self, quick, thorough):
        return quick if self.quick else thorough


# --------------------------------------------------------------------------- build & audit
def lean_sources():
    for root, _, files in os.walk(os.path.join(LEAN, 'Pymodbus')):
        for f in files:
            if f.endswith('.lean'):
                yield os.path.join(root, f)
    for root, _, files in os.walk(os.path.join(LEAN, 'Driver')):
        for f in files:
            if f.endswith('.lean'):
                yield os.path.join(root, f)


def strip_comments(src):
    src = re.sub(r'/-.*?-/', '', src, flags=re.S)
    return re.sub(r'--.*', '', src)


def grep_forbidden():
    hits = []
    for p in lean_sources():
        for i, line in enumerate(strip_comments(open(p).read()).splitlines(), 1):
            if FORBIDDEN.search(line):
                hits.append('%s:%d: %s' % (os.path.relpath(p, VERIF), i, line.strip()))
    return hits


AUDIT_TMPL = '''import Lean
import Pymodbus.Props.%(pid)s
open Lean Elab Command

run_cmd do
  let env ← getEnv
  let pfx := `Pymodbus.Props.%(pid)s
  let mut names : Array Name := #[]
  for (n, ci) in env.constants.map₁.toList do
    if pfx.isPrefixOf n && !n.isInternalDetail then
      if let .thmInfo _ := ci then
        if (← findDeclarationRanges? n).isSome then
          names := names.push n
  for n in names.qsort (fun a b => a.toString < b.toString) do
    let ax ← collectAxioms n
    IO.println s!"THEOREM {n} AXIOMS {ax.toList}"
'''


def build_and_audit(pid, tier, log):
    """Returns dict(theorems=[(name, axioms)], broken=[str], checker_cmd=str)."""
    from harness import gen_tables
    info = dict(theorems=[], broken=[], checker_cmd='', build_s=0.0)
    t0 = time.time()
    lock = open(os.path.join(VERIF, '.build.lock'), 'w')
    fcntl.flock(lock, fcntl.LOCK_EX)
    try:
        try:
            changed = gen_tables.write()
            log('tables regenerated from /repo (%s)' % ('changed' if changed else 'unchanged'))
        except Exception as e:  # the repo no longer exposes what the model is tied to
            info['broken'].append('gen_tables: %s: %s' % (type(e).__name__, e))
        rc, out = sh(['lake', 'build', 'pmdriver'], 3000, cwd=LEAN)
        if rc != 0:
            raise InfraError('lake build pmdriver failed:\n' + out[-4000:])
        cmd = ['lake', 'build', 'Pymodbus.Props.' + pid]
        info['checker_cmd'] = 'cd lean && ' + ' '.join(cmd) + ' && lake env lean .audit/Audit%s.lean' % pid
        rc, out = sh(cmd, 3000, cwd=LEAN)
        if rc != 0:
            errs = [l for l in out.splitlines() if l.startswith('error:')]
            info['broken'].append('lake build Pymodbus.Props.%s failed: %s' % (pid, ' | '.join(errs[:6])))
            info['build_log'] = out[-6000:]
        else:
            os.makedirs(os.path.join(LEAN, '.audit'), exist_ok=True)
            ap = os.path.join(LEAN, '.audit', 'Audit%s.lean' % pid)
            src = AUDIT_TMPL % dict(pid=pid)
            if not os.path.exists(ap) or open(ap).read() != src:
                open(ap, 'w').write(src)
            rc, out = sh(['lake', 'env', 'lean', ap], 1200, cwd=LEAN)
            if rc != 0:
                raise InfraError('axiom audit failed:\n' + out[-3000:])
            for l in out.splitlines():
                m = re.match(r'THEOREM (\S+) AXIOMS \[(.*)\]', l)
                if m:
                    ax = [a.strip() for a in m.group(2).split(',') if a.strip()]
                    info['theorems'].append((m.group(1), ax))
                    bad = [a for a in ax if a not in ALLOWED_AXIOMS]
                    if bad:
                        info['broken'].append('theorem %s depends on axioms %s' % (m.group(1), bad))
            if not info['theorems']:
                info['broken'].append('no theorems found in Pymodbus.Props.%s' % pid)
            if tier == 'thorough':
                rc, out = sh(['lake', 'env', 'leanchecker', 'Pymodbus.Props.' + pid], 3000, cwd=LEAN)
                info['checker_cmd'] += ' && lake env leanchecker Pymodbus.Props.' + pid
                if rc != 0:
                    info['broken'].append('leanchecker rejected Pymodbus.Props.%s: %s' % (pid, out[-500:]))
        hits = grep_forbidden()
        if hits:
            info['broken'].append('forbidden tokens in Lean sources: ' + '; '.join(hits[:5]))
    finally:
        fcntl.flock(lock, fcntl.LOCK_UN)
        lock.close()
    info['build_s'] = round(time.time() - t0, 1)
    return info


# --------------------------------------------------------------------------- known findings
def load_known():
    p = os.path.join(VERIF, 'known_findings.json')
    if not os.path.exists(p):
        return []
    return json.load(open(p)).get('findings', [])


# --------------------------------------------------------------------------- main
def write_replay(pid, name, payload):
    d = os.path.join(VERIF, 'replays')
    os.makedirs(d, exist_ok=True)
    path = os.path.join(d, '%s_%s.json' % (pid, name))
    json.dump(payload, open(path, 'w'), indent=1, default=str)
    return os.path.relpath(path, VERIF)


def main(argv):
    ap = argparse.ArgumentParser()
    ap.add_argument('prop')
    ap.add_argument('--tier', default=os.environ.get('VERIF_TIER') or 'quick', choices=['quick', 'thorough'])
    ap.add_argument('--replay')
    ap.add_argument('--no-build', action='store_true', help='skip the Lean build/audit (development only)')
    a = ap.parse_args(argv)
    pid = a.prop.upper()
    try:
        seed = int(os.environ.get('VERIF_SEED') or 0)
    except ValueError:
        seed = int(hashlib.sha1(os.environ['VERIF_SEED'].encode()).hexdigest()[:8], 16)
    t0 = time.time()
    budget = 100 if a.tier == 'quick' else 1500
    ctx = Ctx(pid, a.tier, seed, t0 + budget)

    def log(msg):
        print('[%s %6.1fs] %s' % (pid, time.time() - t0, msg), flush=True)

    try:
        mod = importlib.import_module('harness.' + pid.lower())
    except ImportError as e:
        print('no harness for %s: %s' % (pid, e))
        return 2

    if a.replay:
        payload = json.load(open(a.replay))
        try:
            if not os.path.exists(DRIVER):
                sh(['lake', 'build', 'pmdriver'], 3000, cwd=LEAN)
            bad = mod.replay(ctx, payload)
        except Exception:
            traceback.print_exc()
            return 2
        if bad:
            print('REPLAY property=%s still fails: %s' % (pid, bad))
            return 1
        print('REPLAY property=%s passes on the current tree' % pid)
        return 0

    try:
        if a.no_build:
            info = dict(theorems=[('(build skipped)', [])], broken=[], checker_cmd='(skipped)', build_s=0)
        else:
            info = build_and_audit(pid, a.tier, log)
        log('lean: %d theorems, %d broken obligations, %.1fs' % (len(info['theorems']), len(info['broken']), info['build_s']))
        for b in info['broken']:
            log('BROKEN: ' + b)
        ctx.deadline = time.time() + budget      # the exploration budget starts when the build and the audit are done
        rep = mod.run(ctx)
    except subprocess.TimeoutExpired as e:
        print('timeout: %s' % e)
        return 2
    except InfraError as e:
        print('infrastructure failure: %s' % e)
        return 2
    except Exception:
        traceback.print_exc()
        return 2

    known = [f for f in load_known() if f.get('property') == pid and f.get('status') == 'known']
    known_ids = {f['id']: f for f in known}
    exit_code = 0
    lines = []
    reproduced = Counter()
    nviol = 0
    seen = set()
    for v in rep.violations:
        fid = v.get('finding')
        if fid in known_ids:
            reproduced[fid] += 1
            continue
        key = (v['what'], fid)
        if key in seen and nviol >= 5:
            continue
        seen.add(key)
        nviol += 1
        if nviol <= 5:
            path = write_replay(pid, 'viol%d_seed%d' % (nviol, seed), dict(
                property=pid, kind='property-failure', seed=seed, tier=a.tier, **v))
            lines.append('VIOLATION property=%s replay=%s' % (pid, path))
            log('violation: %s  case=%s  detail=%s' % (v['what'], canon(v['case'])[:300], canon(v['detail'])[:400]))
    for fid, n in sorted(reproduced.items()):
        lines.append('KNOWN-FINDING: property=%s %s (%s; reproduced on %d cases)' % (pid, fid, known_ids[fid].get('what', ''), n))
    for fid in known_ids:
        if fid not in reproduced:
            log('note: known finding %s was not reproduced in this run' % fid)
    if nviol == 0 and (info['broken'] or rep.disagreements):
        # the property is no longer shown to hold, and the search found no failing input
        payload = dict(property=pid, kind='no-failing-input-found', seed=seed, tier=a.tier,
                       broken_obligations=info['broken'], build_log=info.get('build_log', ''),
                       first_disagreements=rep.disagreements[:5],
                       searched=dict(evaluations=rep.evaluations, distinct_nontrivial=len(rep.nontrivial)))
        path = write_replay(pid, 'unproved_seed%d' % seed, payload)
        for d in rep.disagreements[:3]:
            log('correspondence broken at %s: case=%s impl=%s model=%s' % (
                d['where'], canon(d['case'])[:300], canon(d['impl'])[:300], canon(d['model'])[:300]))
        lines.append('VIOLATION property=%s replay=%s no-failing-input-found' % (pid, path))
        nviol += 1
    if nviol:
        exit_code = 1

    wall = round(time.time() - t0, 1)
    nthm = len(info['theorems'])
    bad_thms = sum(1 for _, ax in info['theorems'] if any(x not in ALLOWED_AXIOMS for x in ax))
    discharged = 0 if any(b.startswith('lake build') for b in info['broken']) else nthm - bad_thms
    cov = dict(
        obligations=max(nthm, 1), discharged=discharged,
        checker_cmd=info['checker_cmd'], trusted_base=TRUSTED_BASE + list(getattr(mod, 'TRUSTED', [])),
        theorems=[dict(name=n, axioms=ax) for n, ax in info['theorems']],
        broken_obligations=info['broken'],
        evaluations=rep.evaluations, distinct_nontrivial=len(rep.nontrivial), rule=rep.rule,
        samples=rep.samples or ['(none)'], traces_validated_against_impl=rep.traces_validated,
        disagreements_checked=rep.traces_validated, disagreements_found=len(rep.disagreements),
        histogram=dict(sorted(rep.hist.items())), driver_lines=ctx.driver.lines,
        known_findings_reproduced=dict(reproduced), notes=rep.notes, lean_build_s=info['build_s'],
    )
    if rep.exhaustive is not None:
        if isinstance(rep.exhaustive, bool):
            cov['exhaustive'] = rep.exhaustive
        else:
            # a description of the sub-domain that was swept completely; the run as a whole is sampled
            cov['exhaustive'] = False
            cov['exhaustive_sweep'] = rep.exhaustive
    cov.update(rep.extra)
    ev = dict(property_id=pid, tier=a.tier, seed=seed, level='proof', coverage=cov,
              assumptions=list(getattr(mod, 'ASSUMPTIONS', [])), wall_s=wall, violations=nviol)
    # a --no-build run (development only) checked no theorem: its record is kept apart from the evidence files
    scratch = a.no_build or os.path.realpath(os.environ.get('PMV_REPO', '/repo')) != '/repo'   # a run against another tree is not evidence about /repo
    evdir = os.path.join(VERIF, 'evidence', 'dev') if scratch else os.path.join(VERIF, 'evidence')
    os.makedirs(evdir, exist_ok=True)
    json.dump(ev, open(os.path.join(evdir, pid + '.json'), 'w'), indent=1, default=str)
    for l in lines:
        print(l)
    log('%s: %d cases (%d distinct non-trivial), %d model comparisons, %d theorems; exit %d' % (
        a.tier, rep.evaluations, len(rep.nontrivial), rep.traces_validated, nthm, exit_code))
    return exit_code
