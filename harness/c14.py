"""C14 — predicted reply length equals the length the server really sends.

(a) every request class with get_response_pdu_size, all quantities 1..max: prediction vs 1+len(encode()) of the
    response the real server path produces (ServerDecoder → execute → encode); model prediction compared too;
(b) FC 8 sub-functions: prediction vs real reply, reply shape vs Impl.diagReply;
(c) a client built from the real ModbusTransactionManager + real framers (RTU, ASCII, binary, TLS, socket) over a stub
    transport that records the sizes asked of it: exactly the reply frame is read, for normal and exception replies."""
import struct

from pymodbus.factory import ServerDecoder, ClientDecoder
from pymodbus.datastore import ModbusSlaveContext, ModbusSequentialDataBlock
from pymodbus.transaction import (ModbusSocketFramer, ModbusRtuFramer, ModbusAsciiFramer, ModbusBinaryFramer,
                                  ModbusTlsFramer, DictTransactionManager, FifoTransactionManager)
from pymodbus.pdu import ExceptionResponse
from pymodbus.exceptions import ModbusIOException
from pymodbus import diag_message as dm
from pymodbus.device import ModbusControlBlock

from harness.runner import Report
from harness import pdus, msggen, framelib
from harness.pyutil import errkind

ASSUMPTIONS = ['the transport returns exactly the bytes asked for while the reply frame lasts (a serial port with the '
               'whole reply buffered); timing is not modelled']
RULE = ('exhaustive over quantities: FC1/2 1..2000, FC3/4 1..125, FC15 1..1968, FC16 1..123, FC23 read 1..125 x write '
        '{1,121}, FC5/6, every FC 8 sub-function x operation words; each also run through a stub-transport client for the '
        'RTU, ASCII, binary, TLS and socket framings with normal and exception replies; non-trivial = a normal reply was '
        'produced; distinct by (class, quantity, framing)')

SD = ServerDecoder()
MCB = ModbusControlBlock()
FRAMERS = {'rtu': ModbusRtuFramer, 'ascii': ModbusAsciiFramer, 'binary': ModbusBinaryFramer, 'tls': ModbusTlsFramer,
           'socket': ModbusSocketFramer}


def classify(m, what):
    if m['t'] == 'diag' and m['sub'] == 4:
        return 'listen-only-prediction'
    return None


def big_ctx():
    blk = lambda: ModbusSequentialDataBlock(0, [1] * 2100)  # noqa
    return ModbusSlaveContext(di=blk(), co=blk(), hr=blk(), ir=blk(), zero_mode=True)


def all_requests():
    out = []
    for n in range(1, 2001):
        out.append({'t': 'readCoils', 'address': 0, 'count': n})
        out.append({'t': 'readDiscrete', 'address': 3, 'count': n})
    for n in range(1, 126):
        out.append({'t': 'readHolding', 'address': 0, 'count': n})
        out.append({'t': 'readInput', 'address': 1, 'count': n})
        for wn in (1, 121):
            out.append({'t': 'readWrite', 'read_address': 0, 'read_count': n, 'write_address': 5, 'write_count': wn,
                        'write_byte_count': 2 * wn, 'write_registers': [7] * wn})
    for n in range(1, 1969):
        out.append({'t': 'writeCoils', 'address': 0, 'count': n, 'byte_count': (n + 7) // 8, 'values': [True] * n})
    for n in range(1, 124):
        out.append({'t': 'writeRegisters', 'address': 0, 'count': n, 'byte_count': 2 * n, 'values': [n] * n})
    out.append({'t': 'writeCoil', 'address': 1, 'word': 0xFF00})
    out.append({'t': 'writeCoil', 'address': 1, 'word': 0})
    out.append({'t': 'writeRegister', 'address': 1, 'value': 0xABCD})
    return out


def diag_requests():
    out = []
    for sub in msggen.DIAG_SUBS:
        for m in ([0, 3, 4, 5, 0xFFFF] if sub == 21 else [0, 1, 0xA5A5]):
            out.append({'t': 'diag', 'sub': sub, 'message': {'k': 'int', 'n': m}})
    return out


def serve(ctx_store, m):
    """the server side: decode the request bytes, execute, return (response object or None, should_respond)"""
    obj = SD.decode(bytes([msggen.mk_req(m).function_code]) + msggen.mk_req(m).encode())
    resp = obj.execute(ctx_store)
    return resp


class StubClient:
    """what ModbusTransactionManager and the framers need from a client, over a scripted reply"""
    broadcast_enable = False

    label = 'StubClient'

    def __init__(self, framer_cls, reply=b''):
        self.framer = framer_cls(ClientDecoder(), self)
        self.reply = reply
        self.pos = 0
        self.asked = []
        self.sent = []
        from pymodbus.utilities import ModbusTransactionState
        self.state = ModbusTransactionState.IDLE
        self.timeout = 1
        self.silent_interval = 0
        self.last_frame_end = None
        mgr = DictTransactionManager if framer_cls in (ModbusSocketFramer, ModbusTlsFramer) else FifoTransactionManager
        self.transaction = mgr(self, retries=3, retry_on_empty=False, retry_on_invalid=False)

    def __str__(self):
        return self.label

    def idle_time(self):
        return 0

    def connect(self):
        return True

    def close(self):
        pass

    def send(self, data):
        self.sent.append(bytes(data))
        if getattr(self, 'handle_local_echo', False):
            # an RS-485 adaptor with local echo: what is written comes back first
            self.reply = self.reply[:self.pos] + bytes(data) + self.reply[self.pos:]
        return len(data)

    def recv(self, size):
        self.asked.append(size)
        if size is None:
            size = len(self.reply) - self.pos
        out = self.reply[self.pos:self.pos + size]
        self.pos += len(out)
        return out


def client_roundtrip(fname, m, resp, unit=1, label=None):
    """returns (asked sizes, bytes consumed, frame length, result json or error); `label`: what str(client) gives (a stream
    client is a stream client whatever its host is called)"""
    fcls = FRAMERS[fname]
    req = msggen.mk_req(m)
    req.unit_id = unit
    probe = StubClient(fcls)
    resp.unit_id = unit
    resp.transaction_id = 1           # the manager's first tid
    frame = probe.framer.buildPacket(resp)
    c = StubClient(fcls, frame)
    if label:
        c.label = label
    try:
        got = c.transaction.execute(req)
    except Exception as e:  # noqa
        return c.asked, c.pos, frame, {'raised': errkind(e)}
    if isinstance(got, Exception):
        return c.asked, c.pos, frame, {'error_object': str(got)[:80]}
    return c.asked, c.pos, frame, pdus.resp_to_json(got)


def client_history(rep, fname):
    """the same on a client with a HISTORY: the unit was silent twice, then answered, then sends an exception reply —
    the bookkeeping of silent units must not make the client ask for the normal reply length when the exception comes"""
    fcls = FRAMERS[fname]
    m = {'t': 'readHolding', 'address': 0, 'count': 10}
    c = StubClient(fcls, b'')
    unit = 1

    def call(reply_obj):
        req = msggen.mk_req(m)
        req.unit_id = unit
        frame = b''
        if reply_obj is not None:
            reply_obj.unit_id = unit
            reply_obj.transaction_id = (c.transaction.tid + 1) & 0xFFFF
            frame = StubClient(fcls).framer.buildPacket(reply_obj)
        c.reply, c.pos, c.asked = frame, 0, []
        try:
            got = c.transaction.execute(req)
        except Exception as e:  # noqa
            return frame, list(c.asked), {'raised': errkind(e)}
        if isinstance(got, Exception):
            return frame, list(c.asked), {'error_object': True}
        return frame, list(c.asked), pdus.resp_to_json(got)

    from pymodbus.register_read_message import ReadHoldingRegistersResponse
    trace = [call(None), call(None), call(ReadHoldingRegistersResponse(list(range(10)))), call(ExceptionResponse(3, 2))]
    frame, asked, got = trace[-1]
    case = {'kind': 'client-history', 'framer': fname, 'history': ['silent', 'silent', 'normal reply', 'exception reply']}
    rep.case(('history', fname), nontrivial=True, tag='client-history:' + fname)
    ok = got == {'t': 'exception', 'fc': 3, 'code': 2} and trace[2][2].get('t') == 'readHolding'
    over = bool(asked) and all(a is not None for a in asked) and sum(asked) != len(frame)
    if not ok or over:
        rep.violation('after a history of silent transactions the client did not read exactly the exception reply', case,
                      asked=asked, frame_len=len(frame), got=got, earlier=[t[2] for t in trace[:3]])


HISTORY_EVENTS = ['silent', 'normal', 'exc2', 'exc11', 'other11']


def client_histories(rep, fname, maxlen=4):
    """EVERY history of up to `maxlen` transactions on one client, each of them: the unit stays silent / sends the normal
    reply / an exception reply with code 2 / the exception 0x0B a gateway sends for a target that did not respond / the same
    from a second unit.  Whatever the client keeps about earlier transactions (its list of units that did not respond, the
    framer's header, the transaction id), every reply that arrives must be returned, and read exactly - the port is asked for
    the bytes of that frame, no more.  One designed exception (not a finding: the property quantifies over replies, not over
    transport faults, which are C13's): the transaction that directly follows one the SAME unit did not answer is read in one
    piece with the normal reply length (`_no_response_devices`); exactness is required again from the unit's first answer on."""
    import itertools
    from pymodbus.register_read_message import ReadHoldingRegistersResponse
    fcls = FRAMERS[fname]
    m = {'t': 'readHolding', 'address': 0, 'count': 10}
    builder = StubClient(fcls).framer
    for n in range(1, maxlen + 1):
        for hist in itertools.product(HISTORY_EVENTS, repeat=n):
            if hist[-1] == 'silent':
                continue          # nothing to read in the last call: a prefix of a longer history
            c = StubClient(fcls, b'')
            rep.case(('histories', fname, hist), nontrivial=True, tag='client-histories:' + fname)
            last_silent = {1: False, 2: False}
            for i, ev in enumerate(hist):
                unit = 2 if ev == 'other11' else 1
                after_silence, last_silent[unit] = last_silent[unit], ev == 'silent'
                req = msggen.mk_req(m)
                req.unit_id = unit
                reply = {'silent': None, 'normal': ReadHoldingRegistersResponse(list(range(10))), 'exc2': ExceptionResponse(3, 2),
                         'exc11': ExceptionResponse(3, 11), 'other11': ExceptionResponse(3, 11)}[ev]
                frame = b''
                if reply is not None:
                    reply.unit_id = unit
                    reply.transaction_id = (c.transaction.tid + 1) & 0xFFFF
                    frame = builder.buildPacket(reply)
                c.reply, c.pos, c.asked = frame, 0, []
                try:
                    got = c.transaction.execute(req)
                    got = {'error_object': True} if isinstance(got, Exception) else pdus.resp_to_json(got)
                except Exception as e:  # noqa
                    got = {'raised': errkind(e)}
                if reply is None:
                    continue
                expect = pdus.resp_to_json(ClientDecoder().decode(bytes([reply.function_code]) + reply.encode()))
                asked = list(c.asked)
                over = bool(asked) and all(a is not None for a in asked) and sum(asked) != len(frame) and not after_silence
                if got != expect or over:
                    rep.violation('after a history of transactions the client did not read exactly the reply that arrived',
                                  {'kind': 'client-histories', 'framer': fname, 'history': list(hist[:i + 1])},
                                  asked=asked, frame_len=len(frame), got=got, expected=expect)
                    break


PAIR_REQUESTS = [
    {'t': 'readCoils', 'address': 0, 'count': 9}, {'t': 'readCoils', 'address': 0, 'count': 200},
    {'t': 'readDiscrete', 'address': 3, 'count': 17},
    {'t': 'readHolding', 'address': 0, 'count': 2}, {'t': 'readHolding', 'address': 0, 'count': 100},
    {'t': 'readInput', 'address': 1, 'count': 2}, {'t': 'readInput', 'address': 1, 'count': 33},
    {'t': 'readWrite', 'read_address': 0, 'read_count': 2, 'write_address': 5, 'write_count': 1, 'write_byte_count': 2, 'write_registers': [7]},
    {'t': 'readWrite', 'read_address': 0, 'read_count': 10, 'write_address': 5, 'write_count': 1, 'write_byte_count': 2, 'write_registers': [7]},
    {'t': 'readWrite', 'read_address': 0, 'read_count': 100, 'write_address': 5, 'write_count': 3, 'write_byte_count': 6, 'write_registers': [7, 8, 9]},
    {'t': 'writeRegister', 'address': 1, 'value': 0xABCD}, {'t': 'writeCoil', 'address': 1, 'word': 0xFF00},
    {'t': 'writeRegisters', 'address': 0, 'count': 3, 'byte_count': 6, 'values': [1, 2, 3]},
    {'t': 'writeCoils', 'address': 0, 'count': 9, 'byte_count': 2, 'values': [True] * 9},
    {'t': 'diag', 'sub': 0, 'message': {'k': 'int', 'n': 0xA5A5}}, {'t': 'diag', 'sub': 11, 'message': {'k': 'int', 'n': 0}},
]


def client_pairs(rep, fname, store):
    """two DIFFERENT requests one after the other on ONE client (every ordered pair of a list that covers every predicting
    class with two quantities each): whatever the client keeps from the first transaction, the reply to the second is read
    exactly and returned"""
    fcls = FRAMERS[fname]
    builder = StubClient(fcls).framer
    for i, m1 in enumerate(PAIR_REQUESTS):
        for j, m2 in enumerate(PAIR_REQUESTS):
            if i == j:
                continue
            c = StubClient(fcls, b'')
            rep.case(('pairs', fname, i, j), nontrivial=True, tag='client-pairs:' + fname)
            for m in (m1, m2):
                MCB.reset()
                MCB.ListenOnly = False
                resp = serve(store, m)
                req = msggen.mk_req(m)
                req.unit_id = resp.unit_id = 1
                resp.transaction_id = (c.transaction.tid + 1) & 0xFFFF
                frame = builder.buildPacket(resp)
                expect = pdus.resp_to_json(ClientDecoder().decode(bytes([resp.function_code]) + resp.encode()))
                c.reply, c.pos, c.asked = frame, 0, []
                try:
                    got = c.transaction.execute(req)
                    got = {'error_object': True} if isinstance(got, Exception) else pdus.resp_to_json(got)
                except Exception as e:  # noqa
                    got = {'raised': errkind(e)}
                asked = list(c.asked)
                over = bool(asked) and all(a is not None for a in asked) and sum(asked) != len(frame)
                if got != expect or over or c.pos != len(frame):
                    if fname == 'binary' and framelib.has_delim(frame):
                        break            # (known finding binary-framer-escaping: checked per request by check_client)
                    rep.violation('on a client that has already run another transaction the reply was not read exactly', 
                                  {'kind': 'client-pairs', 'framer': fname, 'first': {k: (v if not isinstance(v, list) else len(v)) for k, v in m1.items()},
                                   'second': {k: (v if not isinstance(v, list) else len(v)) for k, v in m2.items()}, 'failed_at': 'first' if m is m1 else 'second'},
                                  asked=asked, frame_len=len(frame), consumed=c.pos, got=got, expected=expect)
                    break


def client_retries(rep, fname):
    """a client that RETRIES (retry_on_empty): the unit was silent for a whole call, then is silent on the first attempt of
    the next call and answers the retry — with an exception reply, or with the normal reply.  On every attempt the
    client must ask the port for exactly the bytes of what arrives (the unit's place on the list of silent units must not
    make a retry ask for the normal length when the exception reply comes)."""
    fcls = FRAMERS[fname]
    from pymodbus.register_read_message import ReadHoldingRegistersResponse
    m = {'t': 'readHolding', 'address': 0, 'count': 10}
    for label, mk_reply in (('exception', lambda: ExceptionResponse(3, 2)), ('normal', lambda: ReadHoldingRegistersResponse(list(range(10))))):
        for silent_attempts in (1, 2):
            c = StubClient(fcls, b'')
            c.transaction.retry_on_empty = True
            c.transaction.retries = 3
            attempts = []          # (bytes offered to this attempt, sizes asked during it)
            script = []

            def send(data, c=c, attempts=attempts, script=script):
                c.sent.append(bytes(data))
                c.reply, c.pos = (script.pop(0) if script else b''), 0
                c.asked = []
                attempts.append((c.reply, c.asked))
                return len(data)
            c.send = send

            def call(per_attempt):
                req = msggen.mk_req(m)
                req.unit_id = 1
                script[:] = per_attempt
                try:
                    got = c.transaction.execute(req)
                except Exception as e:  # noqa
                    return {'raised': errkind(e)}
                return {'error_object': True} if isinstance(got, Exception) else pdus.resp_to_json(got)
            first = call([])                                   # silent on every attempt: the unit is now listed as silent
            reply = mk_reply()
            reply.unit_id = 1
            reply.transaction_id = (c.transaction.tid + 1) & 0xFFFF
            frame = StubClient(fcls).framer.buildPacket(reply)
            del attempts[:]
            got = call([b''] * silent_attempts + [frame])
            expect = pdus.resp_to_json(ClientDecoder().decode(bytes([reply.function_code]) + reply.encode()))
            case = {'kind': 'client-retries', 'framer': fname, 'reply': label, 'silent_attempts': silent_attempts}
            rep.case(('retries', fname, label, silent_attempts), nontrivial=True, tag='client-retries:' + fname)
            answered = [(off, asked) for off, asked in attempts if off]
            over = [[list(asked), len(off)] for off, asked in answered
                    if asked and all(a is not None for a in asked) and sum(asked) != len(off)]
            if first != {'error_object': True} or got != expect or over or len(attempts) != silent_attempts + 1:
                rep.violation('a retrying client did not read exactly the reply that answered its retry', case,
                              first_call=first, got=got, expected=expect, attempts=[[len(off), list(asked)] for off, asked in attempts],
                              asked_vs_frame=over)


class _Clock(object):
    """virtual time for pymodbus.client.sync (its module-level `time` is swapped for this during the probe)"""

    def __init__(self):
        self.now = 1000.0

    def time(self):
        return self.now

    def sleep(self, d):
        self.now += max(d, 0)


class _BurstPort(object):
    """a serial port on which the reply reaches the receive buffer in bursts: `in_waiting` is what has arrived by now,
    read(n) blocks (virtually) until n bytes are there or the port timeout has passed"""

    def __init__(self, clock, timeout=1.0):
        self.clock, self.timeout = clock, timeout
        self.arrivals = []        # (time, bytes), in time order
        self.written = []
        self.asked = []
        self.timed_out = 0
        self.is_open = True
        self.plan = []            # bursts to schedule after the next write: [(delay, bytes)]

    def _arrived(self):
        return sum(len(b) for t, b in self.arrivals if t <= self.clock.now)

    @property
    def in_waiting(self):
        return self._arrived()

    def write(self, data):
        self.written.append(bytes(data))
        t0 = self.clock.now
        self.arrivals = [(t0 + d, bytes(b)) for d, b in self.plan]
        self.plan = []
        return len(data)

    def read(self, n=1):
        self.asked.append(n)
        if not n or n < 0:
            return b''
        deadline = self.clock.now + self.timeout
        while self._arrived() < n:
            later = [t for t, _ in self.arrivals if t > self.clock.now]
            if not later or min(later) > deadline:
                self.clock.now = deadline
                self.timed_out += 1
                break
            self.clock.now = min(later)
        buf = b''.join(b for t, b in self.arrivals if t <= self.clock.now)
        rest = [(t, b) for t, b in self.arrivals if t > self.clock.now]
        out, keep = buf[:n], buf[n:]
        self.arrivals = ([(self.clock.now, keep)] if keep else []) + rest
        return out

    def close(self):
        self.is_open = False

    def unread(self):
        return b''.join(b for _, b in self.arrivals)


def real_serial_bursts(rep, fname):
    """the REAL ModbusSerialClient (its own _send / _recv / _wait_for_data, not a stub) on a port where the reply comes in
    one piece or in two bursts 0.2 s apart (USB adapters, ASCII gaps): it must read exactly the reply frame, leave nothing
    unread, sit out no timeout, and return the decoded reply — for normal and exception replies"""
    import pymodbus.client.sync as cs
    from pymodbus.register_read_message import ReadHoldingRegistersResponse
    from pymodbus.bit_read_message import ReadCoilsResponse
    method = {'rtu': 'rtu', 'ascii': 'ascii', 'binary': 'binary'}[fname]
    fcls = FRAMERS[fname]
    cases = [({'t': 'readHolding', 'address': 0, 'count': 40}, lambda: ReadHoldingRegistersResponse(list(range(40)))),
             ({'t': 'readHolding', 'address': 0, 'count': 2}, lambda: ReadHoldingRegistersResponse([7, 8])),
             ({'t': 'readCoils', 'address': 0, 'count': 19}, lambda: ReadCoilsResponse([True] * 19 + [False] * 5)),
             ({'t': 'readHolding', 'address': 0, 'count': 40}, lambda: ExceptionResponse(3, 2))]
    saved = cs.time
    try:
        for m, mk in cases:
            for split in ('whole', 'after-head', 'middle', 'before-checksum'):
                clock = _Clock()
                cs.time = clock
                client = cs.ModbusSerialClient(method=method, port='/dev/null', timeout=1)
                port = _BurstPort(clock)
                client.socket = port
                reply = mk()
                reply.unit_id, reply.transaction_id = 1, 1
                frame = bytes(StubClient(fcls).framer.buildPacket(reply))
                k = {'whole': len(frame), 'after-head': min(len(frame) - 1, client.transaction._set_adu_size() or 4) if False else 4,
                     'middle': len(frame) // 2, 'before-checksum': len(frame) - 2}[split]
                k = max(1, min(k, len(frame)))
                port.plan = [(0.0, frame[:k])] + ([(0.2, frame[k:])] if k < len(frame) else [])
                req = msggen.mk_req(m)
                req.unit_id = 1
                try:
                    got = client.execute(req)
                    gj = {'error_object': str(got)[:60]} if isinstance(got, Exception) else pdus.resp_to_json(got)
                except Exception as e:  # noqa
                    gj = {'raised': errkind(e)}
                expect = pdus.resp_to_json(ClientDecoder().decode(bytes([reply.function_code]) + reply.encode()))
                case = {'kind': 'real-serial-bursts', 'framer': fname, 'request': m, 'reply': type(reply).__name__, 'split': split}
                rep.case(('bursts', fname, str(m), type(reply).__name__, split), nontrivial=True, tag='real-serial-bursts:' + fname)
                reads = [a for a in port.asked if a]
                if gj != expect or port.unread() or port.timed_out or sum(reads) != len(frame):
                    rep.violation('the real serial client did not read exactly the reply frame that reached the port in bursts', case,
                                  asked=port.asked, frame_len=len(frame), left_unread=len(port.unread()), timeouts=port.timed_out,
                                  got=gj, expected=expect)
    finally:
        cs.time = saved


def client_echo(rep, fname):
    """serial clients with handle_local_echo: the echo of the request is read first, then the reply — an exception reply
    must still be read with ITS length"""
    fcls = FRAMERS[fname]
    from pymodbus.register_read_message import ReadHoldingRegistersResponse
    for label, reply_obj in (('normal', ReadHoldingRegistersResponse(list(range(10)))), ('exception', ExceptionResponse(3, 2))):
        m = {'t': 'readHolding', 'address': 0, 'count': 10}
        req = msggen.mk_req(m)
        req.unit_id = 1
        reply_obj.unit_id = 1
        reply_obj.transaction_id = 1
        frame = StubClient(fcls).framer.buildPacket(reply_obj)
        c = StubClient(fcls, frame)
        c.handle_local_echo = True
        try:
            got = c.transaction.execute(req)
            gj = {'error_object': True} if isinstance(got, Exception) else pdus.resp_to_json(got)
        except Exception as e:  # noqa
            gj = {'raised': errkind(e)}
        echo_len = len(c.sent[0]) if c.sent else 0
        case = {'kind': 'client-echo', 'framer': fname, 'reply': label}
        rep.case(('echo', fname, label), nontrivial=True, tag='client-echo:' + fname)
        expect = pdus.resp_to_json(ClientDecoder().decode(bytes([reply_obj.function_code]) + reply_obj.encode()))
        over = bool(c.asked) and all(a is not None for a in c.asked) and sum(c.asked) != echo_len + len(frame)
        if gj != expect or over or c.pos != echo_len + len(frame):
            rep.violation('with local echo the client did not read exactly the echo and the reply', case,
                          asked=c.asked, echo_len=echo_len, frame_len=len(frame), got=gj, expected=expect)


def run(ctx):
    rep = Report(RULE)
    reqs = all_requests()
    dreqs = diag_requests()
    plus_words = len(MCB.Plus.encode())
    ans = ctx.driver.query([{'op': 'predict', 'req': m, 'plus': plus_words} for m in reqs + dreqs])
    store = big_ctx()
    framer_names = list(FRAMERS)
    k = 0
    for m, a in zip(reqs, ans):
        case = {'kind': 'predict', 'req': {kk: (v if not isinstance(v, list) else len(v)) for kk, v in m.items()}}
        pred = msggen.mk_req(m).get_response_pdu_size()
        resp = serve(store, m)
        real = 1 + len(resp.encode())
        rep.case((m['t'], m.get('count', m.get('read_count', 0)), m.get('write_count', 0)), nontrivial=not isinstance(resp, ExceptionResponse), tag='predict:' + m['t'])
        rep.sample(dict(case, predicted=pred, real=real), cap=4)
        rep.compare(case, pred, a['size'], 'get_response_pdu_size vs Impl.respPduSize')
        if isinstance(resp, ExceptionResponse):
            rep.violation('the test server rejected an in-range request', case, response=pdus.resp_to_json(resp))
            continue
        if pred != real:
            rep.violation('predicted reply PDU size differs from the real reply', case, finding=classify(m, 'pdu'),
                          predicted=pred, real=real)
            continue
        # client side: a subset of quantities per framing (every quantity for one framing in turn)
        fname = framer_names[k % len(framer_names)]
        k += 1
        check_client(rep, fname, m, resp)
        if ctx.time_left() < 15:
            rep.notes.append('stopped early at %d requests (time budget)' % k)
            break
    rep.exhaustive = ctx.time_left() >= 15
    # diagnostics
    q = []
    for m in dreqs:
        MCB.reset()
        counter = 0
        q.append({'op': 'diagreply', 'sub': m['sub'], 'm': m['message']['n'], 'counter': counter,
                  'diagreg': list(__import__('pymodbus.utilities', fromlist=['x']).pack_bitstring(MCB.getDiagnosticRegister())),
                  'plus': list(MCB.Plus.encode())})
    dans = ctx.driver.query(q)
    for m, a, d in zip(dreqs, ans[len(reqs):], dans):
        case = {'kind': 'predict-diag', 'req': m}
        MCB.reset()
        MCB.ListenOnly = False
        obj = SD.decode(bytes([8]) + struct.pack('>HH', m['sub'], m['message']['n']))
        pred = msggen.mk_req(m).get_response_pdu_size()
        resp = obj.execute(store)
        MCB.ListenOnly = False
        real = 1 + len(resp.encode())
        rep.case(('diag', m['sub'], m['message']['n']), nontrivial=True, tag='predict:diag')
        rep.compare(case, {'pred': pred, 'msg': pdus.diag_msg(resp.message), 'sr': bool(resp.should_respond)},
                    {'pred': a['size'], 'msg': d['message'], 'sr': d.get('should_respond')}, 'diag reply shape / prediction vs model')
        if not resp.should_respond:
            rep.violation('a reply size is predicted for a request that is never answered', case,
                          finding=classify(m, 'pdu'), predicted=pred)
            continue
        if pred != real:
            rep.violation('predicted reply PDU size differs from the real reply', case, finding=classify(m, 'pdu'),
                          predicted=pred, real=real)
            continue
        for fname in framer_names:
            check_client(rep, fname, m, resp)
    # Return Query Data with N data words (a conformant server echoes them all): the prediction must be 3 + 2N.  The
    # library's own server cannot decode such a request (known finding diag-request-multiword of C01), so the real reply
    # is the echo the specification prescribes, built with the library's response class.
    multi = [{'t': 'diag', 'sub': 0, 'message': {'k': 'list', 'ws': [(7 * i + n) % 65536 for i in range(n)]}} for n in (0, 1, 2, 3, 5, 60, 120)]
    mans = ctx.driver.query([{'op': 'predict', 'req': m, 'plus': plus_words} for m in multi])
    for m, a in zip(multi, mans):
        case = {'kind': 'predict-diag-multi', 'req': m}
        robj = msggen.mk_req(m)
        pred = robj.get_response_pdu_size()
        echo = dm.ReturnQueryDataResponse(list(m['message']['ws']))
        real = 1 + len(echo.encode())
        rep.case(('diag-multi', len(m['message']['ws'])), nontrivial=True, tag='predict:diag-multiword')
        rep.compare(case, {'pred': pred}, {'pred': a['size']}, 'multi-word Return Query Data prediction vs model')
        if pred != real:
            rep.violation('predicted reply PDU size differs from the real reply', case, finding=classify(m, 'pdu'),
                          predicted=pred, real=real)
    for fname in framer_names:
        client_history(rep, fname)
        client_histories(rep, fname)
        client_pairs(rep, fname, store)
        if fname in ('rtu', 'ascii', 'binary'):
            client_echo(rep, fname)
            client_retries(rep, fname)
            real_serial_bursts(rep, fname)
    # exception replies through every framing
    for fname in framer_names:
        for m in (reqs[0], reqs[4000], {'t': 'writeRegister', 'address': 1, 'value': 2}, dreqs[0]):
            exc = ExceptionResponse(msggen.mk_req(m).function_code, 2)
            check_client(rep, fname, m, exc, exception=True)
            # a stream client whose host name happens to contain the name of another transport
            for label in ('ModbusTlsClient(udp-bridge.plant.local:802)', 'ModbusTcpClient(serial-udp-gw:502)'):
                check_client(rep, fname, m, ExceptionResponse(msggen.mk_req(m).function_code, 2), exception=True, label=label)
    return rep


def check_client(rep, fname, m, resp, exception=False, label=None):
    case = {'kind': 'client-read', 'framer': fname, 'req': {kk: (v if not isinstance(v, list) else len(v)) for kk, v in m.items()},
            'exception': exception}
    if label:
        case['client_str'] = label
    expect = pdus.resp_to_json(ClientDecoder().decode(bytes([resp.function_code]) + resp.encode()))
    asked, pos, frame, got = client_roundtrip(fname, m, resp, label=label)
    flen = len(frame)
    rep.case((fname, m['t'], m.get('count', m.get('read_count', 0)), exception), nontrivial=True, tag='client:' + fname)
    over = bool(asked) and all(a is not None for a in asked) and sum(asked) != flen     # asked the port for more (or fewer) bytes than the reply has
    if pos != flen or got != expect or (asked and any(a is not None and a < 0 for a in asked)) or over:
        fid = classify(m, 'client')
        if fname == 'rtu' and m['t'] == 'diag' and len(frame) > 8 and pos == flen:
            fid = 'rtu-diag-response-size'
        if fname == 'binary' and framelib.has_delim(frame):
            fid = 'binary-framer-escaping'
        rep.violation('the client did not read exactly the reply frame', case, finding=fid,
                      asked=asked, consumed=pos, frame_len=flen, got=got, expected=expect)


def replay(ctx, payload):
    """the check is exhaustive and deterministic (a few seconds): a replay re-runs it and reports whether the recorded
    case (or, failing that, any case) still violates the property"""
    rep = run(ctx)
    want = canon_case(payload.get('case'))
    unknown = [v for v in rep.violations if v['finding'] is None]
    same = [v for v in unknown if canon_case(v['case']) == want]
    if same:
        return same[0]['what']
    if unknown:
        return unknown[0]['what'] + ' (another case than the recorded one)'
    if rep.disagreements:
        return 'model/implementation disagreement'
    return None


def canon_case(c):
    import json
    return json.dumps(c, sort_keys=True, default=str)
