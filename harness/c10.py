"""C10 — requests act only on the addressed unit; broadcast acts on all.

Configurations: every front-end x every framer it accepts that carries a unit id x hosted unit sets (including sets with
0 and/or 255, one unit, many units) and single-context mode x ignore_missing_slaves x broadcast_enable.  Histories of
1..25 requests (mostly writes), one per read/datagram, addressed to hosted units, unhosted units, 0, 255 and random ids.
Checked on the REAL front-end, with per-unit datastore dumps after every request:
  (a) call-by-call agreement with the model (`server` op);
  (b) non-interference: a non-broadcast request changes no unit other than the addressed one; a request for a unit that is
      not hosted changes nothing and is answered not at all or with exception 0x0A/0x0B;
  (c) broadcast: no response; (d) projection oracle: the final tables of every hosted unit equal those obtained by
      executing, on that unit alone, exactly the requests addressed to it plus the broadcasts (`exec` op: Impl.serverExecute
      and the register-file spec) — i.e. each is applied exactly once and nothing else is."""
from pymodbus.factory import ServerDecoder

from harness.runner import Report
from harness import execlib, serverlib, frontends, pdus, framelib

ASSUMPTIONS = ['event loops and sockets are replaced by in-process fakes that hand each chunk to the real handler in order',
               'datastores do not raise (a raising datastore aborts a broadcast loop half way: modelled, not part of (d))',
               'the Twisted protocols have no broadcast option: unit 0 is an ordinary address there']
RULE = ('front-end x framer x hosted sets {[1],[1,2],[0,1],[1,255],[247],[2,5,17],[0],[0,255],[255],random} / single x '
        'ignore_missing x broadcast x histories of 1..25 requests to hosted / unhosted / 0 / 255 / random unit ids; '
        'non-trivial = some unit table changed; distinct by (configuration, byte history)')

UNIT_FRAMERS = ('tcp', 'rtu', 'ascii', 'binary')
HOSTED = [[1], [1, 2], [0, 1], [1, 255], [247], [2, 5, 17], [0], [0, 255], [255], [1, 2, 3, 4]]
DEC = ServerDecoder()


def gen_case(rng, frontend=None):
    fe = frontend or rng.choice(frontends.FRONTENDS)
    framer = rng.choice([f for f in serverlib.FRAMERS_FOR[fe] if f in UNIT_FRAMERS])
    hosted = rng.choice(HOSTED) if rng.random() < 0.8 else sorted(rng.sample(range(256), rng.randrange(1, 5)))
    single, units = serverlib.gen_units(rng, hosted=hosted)
    ignore = rng.random() < 0.5
    bcast = rng.random() < 0.5 and fe not in ('twistedTcp', 'twistedUdp')
    hosted = [u for u, _ in units]
    twins = (not single) and len(units) > 1 and rng.random() < 0.35
    if twins:
        # every unit gets an equal (but separate) small table: whole-table writes, e.g. by broadcast, must not make the
        # units share storage
        ncell = rng.choice([4, 8, 16, 40])
        base = {'blocks': [{'kind': 'seq', 'address': rng.choice([0, 1, 10]), 'values': [0] * ncell}], 'd': 0, 'c': 0, 'i': 0, 'h': 0,
                'zero': rng.random() < 0.5}
        units = [[u, {'blocks': [dict(b, values=list(b['values'])) for b in base['blocks']], 'd': 0, 'c': 0, 'i': 0, 'h': 0, 'zero': base['zero']}]
                 for u, _ in units]
        if rng.random() < 0.7 and fe not in ('twistedTcp', 'twistedUdp'):
            bcast = True
    n = rng.choice([1, 2, 5, 12, 25])
    steps = []
    for k in range(n):
        if twins and k < 2 and rng.random() < 0.7:
            lay = units[0][1]
            lo, hi = execlib.table_window(lay, 'h')
            a = lo - (0 if lay['zero'] else 1)
            cnt = hi - lo + 1
            if 0 <= a <= 65535 and 1 <= cnt <= 123:
                vals = [rng.randrange(65536) for _ in range(cnt)]
                raw = [b for v in vals for b in (v >> 8, v & 255)]
                r = {'t': 'writeRegisters', 'address': a, 'count': cnt, 'byte_count': 2 * cnt, 'values': vals, 'raw': raw}
                uid = 0 if bcast else rng.choice(hosted)
                f = serverlib.frame_request(framer, r, uid, rng.randrange(65536))
                if not (framer == 'binary' and framelib.has_delim(f)):
                    steps.append({'uid': uid, 'req': r, 'frame': f})
                    continue
        others = [u for u in range(256) if u not in hosted]
        uid = rng.choice(hosted + hosted + [0, 0, 255, rng.choice(others), rng.randrange(256)])
        layout = dict(units)[uid] if uid in dict(units) else rng.choice(units)[1]
        r = execlib.gen_req(rng, layout, [], 0.05)
        if r['t'].startswith('read') and r['t'] != 'readWrite' and rng.random() < 0.6:
            continue   # mostly writes: they are what can interfere
        if framer == 'rtu' and 'raw' in r and len(r['raw']) != r.get('byte_count', r.get('write_byte_count')):
            continue   # on RTU the byte count field delimits the frame: a mismatch is a framing error, not a request
        tid = rng.choice([0, 1, 0xFFFF, rng.randrange(65536), rng.randrange(65536), rng.randrange(65536)])
        f = serverlib.frame_request(framer, r, uid, tid)
        if framer == 'binary' and framelib.has_delim(f):
            continue
        steps.append({'uid': uid, 'req': r, 'frame': f})
        if rng.random() < 0.2 and len(hosted) > 1:
            # the same request, with the same transaction id, straight away for ANOTHER unit (a master that numbers its
            # requests per unit, or polls several units with one template): it is a different request, not a retransmission
            u2 = rng.choice([u for u in hosted + [0, 255] if u != uid])
            f2 = serverlib.frame_request(framer, r, u2, tid)
            if not (framer == 'binary' and framelib.has_delim(f2)):
                steps.append({'uid': u2, 'req': r, 'frame': f2})
    if not single and len(units) >= 2 and len(steps) >= 2 and rng.random() < 0.3:
        # the application removes a hosted unit while the server runs (`del context[u]`): later requests must see the new set
        u = rng.choice([x for x, _ in units][:-1] + [units[0][0]])
        pos = rng.randrange(1, len(steps))
        steps.insert(pos, {'uid': None, 'del': u, 'req': None, 'frame': {'del': u}})
        w = rng.choice([x for x in hosted if x != u] or [hosted[0]])
        rw = {'t': 'readHolding', 'address': 0, 'count': 1}
        fw = serverlib.frame_request(framer, rw, w, rng.randrange(65536))
        if rng.random() < 0.6 and all(0 <= x <= 247 for x, _ in units) and not (framer == 'binary' and framelib.has_delim(fw)):
            # ... and registers ANOTHER one right away (`context[v] = slave`: the number of hosted units is what it was); requests to
            # the new unit follow
            v = rng.choice([x for x in range(1, 248) if x not in hosted])
            lay = execlib.gen_layout(rng)
            steps.insert(pos + 1, {'uid': None, 'add': v, 'req': None, 'frame': {'add': v, 'layout': lay}})
            # (the handlers that fetch the unit list BEFORE they block in the read - sync TCP, asyncio - see the new unit from the
            # second read after the registration on: one read for another unit comes first; the model has this as Conn.snap)
            steps.insert(pos + 2, {'uid': w, 'req': rw, 'frame': fw})
            for k in range(rng.choice([1, 2, 3])):
                r = execlib.gen_req(rng, lay, [], 0.05)
                if framer == 'rtu' and 'raw' in r and len(r['raw']) != r.get('byte_count', r.get('write_byte_count')):
                    continue
                f = serverlib.frame_request(framer, r, v, rng.randrange(65536))
                if framer == 'binary' and framelib.has_delim(f):
                    continue
                steps.insert(rng.randrange(pos + 3, len(steps) + 1), {'uid': v, 'req': r, 'frame': f, 'after_add': True})
    # a gateway that learns its units at run time: the server is built (real constructor) around an empty context
    late = (not single) and all(0 <= u <= 247 for u, _ in units) and rng.random() < 0.25
    # a fifth of the servers is configured through the library-wide defaults set at run time (no option passed to a constructor)
    viad = (not late) and rng.random() < 0.2
    return dict(frontend=fe, framer=framer, single=single, units=units, ignore_missing=ignore, broadcast=bcast,
                chunks=[s['frame'] for s in steps], steps=steps, late=late, via_defaults=viad)


def run_real_stepwise(c):
    # late: the server is built by its real constructor around a context without units; the units are attached afterwards
    s = frontends.Session(c['frontend'], c['framer'], c['single'], c['units'], c['ignore_missing'], c['broadcast'], late=bool(c.get('late')),
                          via_defaults=bool(c.get('via_defaults')))
    if s.late_note:
        run_real_stepwise.notes.add('%s: real constructor unavailable (%s)' % (c['frontend'], s.late_note))
    try:
        conn = s.open()
        before = s.dumps()
        outs, escs, alive, per_step = [], [], [], []
        for ch in c['chunks']:
            o, e = s.feed(conn, ch)
            outs.append(o)
            escs.append(e)
            alive.append(s.conns[conn].alive())
            per_step.append(s.dumps())
        return (outs, escs, s.dumps(), alive, s.control()), before, per_step
    finally:
        s.close()


run_real_stepwise.notes = set()


def check(ctx, rep, cases):
    ans = serverlib.ask_model(ctx, cases)
    proj_q, proj_meta = [], []
    results = []
    for c, a in zip(cases, ans):
        real, before, per_step = run_real_stepwise(c)
        results.append((real, before, per_step))
        outs, escs, dumps, alive, control = real
        case = {k: c[k] for k in ('frontend', 'framer', 'single', 'units', 'ignore_missing', 'broadcast', 'chunks', 'steps')}
        case['kind'] = 'server'
        case['late'] = bool(c.get('late'))
        case['via_defaults'] = bool(c.get('via_defaults'))
        if case['late']:
            rep.hist['late-attach:%s' % c['frontend']] += 1
        changed = any(d != before for d in per_step)
        rep.case((c['frontend'], c['framer'], str(c['chunks']), str(c['units']), c['ignore_missing'], c['broadcast'], c['single']),
                 nontrivial=changed, tag='%s:%s' % (c['frontend'], c['framer']))
        hosted = [u for u, _ in c['units']]
        rep.hist['hosted:%s' % ('single' if c['single'] else ','.join(map(str, hosted)) if hosted in HOSTED else 'random')] += 1
        rep.sample({'frontend': c['frontend'], 'framer': c['framer'], 'hosted': hosted, 'single': c['single'], 'broadcast': c['broadcast'],
                    'addressed': [s['uid'] for s in c['steps']][:8]}, cap=6)
        serverlib.compare(rep, case, real, a, 'unit routing vs Server.callback')
        # (a `del context[u]` step is the application's own call: what it raises, e.g. for an id outside 0..247, is not the front-end's)
        if any(e for e, st in zip(escs, c['steps']) if st.get('del') is None and st.get('add') is None):
            rep.violation('an exception escaped the front-end while serving well-formed requests', case, escaped=escs)
            continue
        # (b), (c): per-step non-interference on the real dumps
        prev = before
        bad = False
        hosted = list(hosted)
        for i, (st, o, now) in enumerate(zip(c['steps'], outs, per_step)):
            if st.get('del') is not None:
                if st['del'] in hosted and escs[i] is None:      # the deletion took effect (ids outside 0..247 cannot be deleted)
                    hosted.remove(st['del'])
                prev = [x for x in now]
                continue
            if st.get('add') is not None:
                if escs[i] is None and st['add'] not in hosted:
                    hosted.append(st['add'])
                prev = [x for x in now]
                continue
            uid = st['uid']
            is_b = c['broadcast'] and uid == 0
            rep.hist['route:' + ('broadcast' if is_b else 'single' if c['single'] else 'hosted' if uid in hosted else 'unhosted')] += 1
            frames = serverlib.parse_responses(c['framer'], o) if c['frontend'] != 'twistedTcp' else serverlib.parse_responses(c['framer'], o)
            if is_b:
                if o:
                    rep.violation('a broadcast request was answered', case, index=i, request=execlib.strip(st['req']), written=o)
                    bad = True
                    break
            elif c['single']:
                pass
            elif uid in hosted:
                for (u, d0), (_, d1) in zip(prev, now):
                    if u != uid and d0 != d1:
                        rep.violation('a request changed the tables of a unit it does not address', case, index=i, addressed=uid,
                                      changed_unit=u, request=execlib.strip(st['req']))
                        bad = True
                        break
            else:
                if now != prev:
                    rep.violation('a request for a unit that is not hosted changed a datastore', case, index=i, addressed=uid,
                                  request=execlib.strip(st['req']))
                    bad = True
                elif o and c['framer'] == 'binary' and any(framelib.has_delim(f) for f in o):
                    rep.violation('a binary response frame contains a delimiter byte', case, finding='binary-framer-escaping')
                    bad = True
                elif o and not (len(frames) == 1 and 'msg' in frames[0] and frames[0]['msg']['t'] == 'exception' and frames[0]['msg']['code'] in (10, 11)):
                    rep.violation('a request for a unit that is not hosted was answered with something other than a gateway exception',
                                  case, index=i, addressed=uid, written=o)
                    bad = True
            if bad:
                break
            prev = now
        if bad:
            continue
        # (d) projection oracle, one `exec` query per hosted unit
        deleted = {st['del'] for st, e in zip(c['steps'], escs) if st.get('del') is not None and e is None}
        left = [(x[0], x[1], 0) for x in c['units'] if x[0] not in deleted]
        # units registered at run time take part from the step of their registration on
        left += [(st['add'], st['frame']['layout'], i) for i, (st, e) in enumerate(zip(c['steps'], escs)) if st.get('add') is not None and e is None]
        for k, (u, desc, since) in enumerate(left):
            if any(b['kind'] == 'broken' for b in desc['blocks']):
                continue
            mine = [st['req'] for i, st in enumerate(c['steps']) if i >= since and st.get('del') is None and st.get('add') is None and
                    ((c['broadcast'] and st['uid'] == 0) or c['single'] or (st['uid'] == u))]
            mreqs = []
            for r in mine:
                try:
                    obj = DEC.decode(execlib.enc_req(r))
                except Exception:  # noqa
                    obj = None
                if obj is not None:
                    mreqs.append(pdus.req_to_json(obj))
            proj_q.append({'op': 'exec', 'ctx': desc, 'reqs': mreqs, 'spec_reqs': [execlib.strip(r) for r in mine], 'windows': execlib.windows(desc)})
            proj_meta.append((case, u, k, desc, dumps[k][1], len(mine)))
    if proj_q:
        pans = ctx.driver.query(proj_q)
        for (case, u, k, desc, real_dump, n_mine), pa in zip(proj_meta, pans):
            rep.hist['projection-checked'] += 1
            if real_dump != pa['dump']:
                rep.violation('the tables of a hosted unit are not those obtained by executing exactly the requests addressed to it '
                              '(and the broadcasts) once each', case, unit=u, requests_for_unit=n_mine)
                continue
            wins = execlib.windows(desc)
            impl_cells = [execlib.cells_in(d, w) for d, w in zip(real_dump, wins)]
            if impl_cells != pa['spec_cells']:
                rep.violation('the tables of a hosted unit differ from the register-file spec run on the requests addressed to it',
                              case, unit=u, requests_for_unit=n_mine)
    return results


def gen_noisy(rng):
    """a noisy serial line in front of a multi-unit server: now and then the beginning of a frame addressed to one hosted unit
    (cut before its end, no terminator) is followed - in the same read or the next - by a complete valid request to ANOTHER
    hosted unit.  Whatever the receiver makes of the damaged bytes, only a complete valid frame is a request: the unit named
    in the cut-off frame must not change."""
    fe = rng.choice(['syncSerial', 'syncTcp', 'aioTcp', 'twistedTcp'])
    framer = rng.choice([f for f in serverlib.FRAMERS_FOR[fe] if f in ('rtu', 'ascii', 'binary')])
    hosted = rng.choice([[1, 2], [2, 5, 17], [1, 2, 3, 4], [1, 0x11]])
    _, units = serverlib.gen_units(rng, hosted=hosted)
    ncell = rng.choice([8, 16, 40])
    units = [[u, {'blocks': [{'kind': 'seq', 'address': 0, 'values': [0] * ncell}], 'd': 0, 'c': 0, 'i': 0, 'h': 0, 'zero': True}] for u, _ in units]

    def req_frame(uid):
        for _ in range(40):
            r = execlib.gen_req(rng, units[0][1], [], 0.0)
            if r['t'].startswith('read') and r['t'] != 'readWrite':
                continue
            if 'raw' in r and len(r['raw']) != r.get('byte_count', r.get('write_byte_count')):
                continue
            f = serverlib.frame_request(framer, r, uid, 0)
            if framer == 'binary' and framelib.has_delim(f):
                continue
            return r, f
        return None, None
    chunks, allowed = [], []
    for _ in range(rng.choice([1, 2, 4, 8])):
        b = rng.choice(hosted)
        r, f = req_frame(b)
        if f is None:
            continue
        if rng.random() < 0.6:
            a = rng.choice([u for u in hosted if u != b])
            _, fa = req_frame(a)
            if fa is not None:
                body_end = len(fa) - (2 if framer == 'ascii' else 1)        # before CR LF / before the end delimiter / inside the CRC
                stump = fa[:rng.randrange(1, max(2, body_end))]
                if rng.random() < 0.5:
                    chunks.append(stump + f)
                    allowed.append(b)
                    continue
                chunks.append(stump)
                allowed.append(None)
        chunks.append(f)
        allowed.append(b)
    return dict(frontend=fe, framer=framer, single=False, units=units, ignore_missing=rng.random() < 0.5, broadcast=False,
                chunks=chunks, allowed=allowed, steps=[])


def check_noisy(ctx, rep, cases):
    for c, a in zip(cases, serverlib.ask_model(ctx, cases)):
        real, before, per_step = serverlib.run_real_steps(c)
        case = {k: c[k] for k in ('frontend', 'framer', 'single', 'units', 'ignore_missing', 'broadcast', 'chunks', 'allowed')}
        case['kind'] = 'noisy'
        rep.case(('noisy', c['frontend'], c['framer'], str(c['chunks'])), nontrivial=any(d != before for d in per_step),
                 tag='noisy:%s:%s' % (c['frontend'], c['framer']))
        same = serverlib.compare(rep, case, real, a, 'noisy line vs Server.callback')
        prev = before
        for i, (al, now) in enumerate(zip(c['allowed'], per_step)):
            touched = [u for (u, d0), (_, d1) in zip(prev, now) if d0 != d1 and u != al]
            if touched:
                if same:
                    # the proven model does the same: the damaged bytes happen to pass the checksum (a false frame, 2^-16)
                    rep.hist['excluded:false-frame'] += 1
                else:
                    rep.violation('the tables of a unit changed although no complete valid frame in the received bytes addresses it '
                                  '(a cut-off frame named it)', case, index=i, changed_units=touched, valid_frame_for=al)
                break
            prev = now


def check_preempted(ctx, rep, rng, n):
    """the threaded sync TCP server, two connections with requests for two different units in flight at once: connection A is
    pre-empted right where its framer has a complete, checked frame in hand (before the result is stamped with the frame's
    ids), connection B is served in the meantime, then A goes on.  Each request must still be executed on its own unit and
    answered with its own ids: exactly what the model gives for the two reads one after the other."""
    cases = []
    for _ in range(n):
        framer = rng.choice(['tcp', 'tcp', 'rtu', 'ascii', 'binary'])
        ua, ub = rng.sample([1, 2, 5, 17, 200], 2)
        lay = {'blocks': [{'kind': 'seq', 'address': 0, 'values': [0] * 16}], 'd': 0, 'c': 0, 'i': 0, 'h': 0, 'zero': True}
        units = [[u, {'blocks': [dict(b, values=list(b['values'])) for b in lay['blocks']], 'd': 0, 'c': 0, 'i': 0, 'h': 0, 'zero': True}]
                 for u in sorted([ua, ub])]
        ra = {'t': 'writeRegister', 'address': rng.randrange(16), 'value': rng.randrange(1, 65536)}
        rb = {'t': 'writeRegister', 'address': rng.randrange(16), 'value': rng.randrange(1, 65536)}
        fa = serverlib.frame_request(framer, ra, ua, rng.randrange(65536))
        fb = serverlib.frame_request(framer, rb, ub, rng.randrange(65536))
        if framer == 'binary' and (framelib.has_delim(fa) or framelib.has_delim(fb)):
            continue
        cases.append(dict(frontend='syncTcp', framer=framer, single=False, units=units, ignore_missing=False, broadcast=False,
                          schedule=[[0, fa], [1, fb]], kind='preempted', addressed=[ua, ub]))
    if not cases:
        return
    for c, a in zip(cases, serverlib.ask_model(ctx, cases)):
        out_a, out_b, dumps, parked = frontends.preempted_pair(c['framer'], c['units'], c['ignore_missing'], c['schedule'][0][1], c['schedule'][1][1])
        case = {k: c[k] for k in ('kind', 'frontend', 'framer', 'single', 'units', 'ignore_missing', 'broadcast', 'schedule', 'addressed')}
        rep.case(('preempted', c['framer'], str(c['schedule'])), nontrivial=parked, tag='preempted:' + c['framer'])
        if not parked:
            rep.hist['preempt-point-not-reached'] += 1
        real = {'out': [[b for f in out_a for b in f], [b for f in out_b for b in f]], 'dumps': dumps}
        model = {'out': [[b for f in call['out'] for b in f] for call in a['calls']], 'dumps': a['dumps']}
        if not rep.compare(case, real, model, 'two connections, one pre-empted in its framer, vs Server.serveSched'):
            rep.violation('with two connections served at once, a request was not executed on its own unit and answered with its own '
                          'ids', case, written_to_A=real['out'][0], written_to_B=real['out'][1], expected=model['out'])


def run(ctx):
    rep = Report(RULE)
    rng = ctx.rng
    for c in ctx.corpus():
        if c.get('kind') == 'server' and c.get('steps'):
            check(ctx, rep, [c])
        elif c.get('kind') == 'server':
            c = dict(c, steps=[])
            res = serverlib.run_both(ctx, [c])
            rep.case(('corpus', str(c['chunks'])), tag='corpus')
            serverlib.compare(rep, c, res[0][0], res[0][1], 'corpus')
    total = ctx.scale(2500, 40000)
    done = 0
    while done < total and ctx.time_left() > 20:
        cases = [gen_case(rng) for _ in range(100)]
        cases = [c for c in cases if c['chunks']]
        check(ctx, rep, cases)
        done += len(cases)
        check_noisy(ctx, rep, [gen_noisy(rng) for _ in range(25)])
        check_preempted(ctx, rep, rng, 10)
    rep.notes.extend(sorted(run_real_stepwise.notes))
    return rep


def replay(ctx, payload):
    rep = Report(RULE)
    c = dict(payload['case'])
    c.setdefault('steps', [])
    if c.get('kind') == 'preempted':
        a = serverlib.ask_model(ctx, [c])[0]
        out_a, out_b, dumps, parked = frontends.preempted_pair(c['framer'], c['units'], c['ignore_missing'], c['schedule'][0][1], c['schedule'][1][1])
        real = {'out': [[b for f in out_a for b in f], [b for f in out_b for b in f]], 'dumps': dumps}
        model = {'out': [[b for f in call['out'] for b in f] for call in a['calls']], 'dumps': a['dumps']}
        return None if real == model else 'with two connections served at once, a request was not executed on its own unit and answered with its own ids'
    if c.get('kind') == 'noisy':
        check_noisy(ctx, rep, [c])
    else:
        check(ctx, rep, [c])
    if rep.violations:
        return rep.violations[0]['what']
    if rep.disagreements:
        return 'model/implementation disagreement'
    return None
