"""C02 — encode/decode are mutual inverses and encoding is pure.

For every generated message m of every class: real encode twice (same bytes? object state after encode =
model's postEnc?), real decode of the real encoding (equals m up to zero padding = driver's `norm`), real
re-encode of the decoded object (same bytes), and decode into an already-used object (no accumulation)."""
from pymodbus.factory import ServerDecoder, ClientDecoder

from harness.runner import Report
from harness import pdus, msggen
from harness.pyutil import errkind
from harness.c01 import nontrivial

ASSUMPTIONS = ['messages are built through the public constructors (harness/msggen.py); attributes compared are the '
               'public fields listed in harness/pdus.py', 'diagnostic `message` compared at word-list level']
RULE = ('type-directed in-range messages of every registered class (same generator as C01, quantities within what '
        'fits a 253-byte PDU): encode() twice on one object, decode(encode(m)) == m up to zero padding, '
        'encode(decode(encode(m))) == encode(m), decode into a used object vs into a fresh one; '
        'non-trivial = message with a non-zero field; distinct by canonical JSON')

SD, CD = ServerDecoder(), ClientDecoder()


def classify(direction, m, what):
    t = m['t']
    if direction == 'resp' and t == 'readFifo':
        return 'fifo-response-count'
    if direction == 'resp' and t == 'readFileRecord':
        return 'read-file-record-response-layout'
    if direction == 'resp' and t == 'readWrite' and what == 'history':
        return 'readwrite-response-accumulates'
    if direction == 'req' and t == 'diag' and m['message']['k'] != 'int' and \
            not (m['message']['k'] == 'list' and len(m['message']['ws']) == 1):
        return 'diag-request-multiword'       # only a request whose data is not exactly one word
    return None


def devinfo_fits(m):
    """a device-identification response is a message of the protocol only if its objects fit one PDU"""
    return 'information' not in m or sum(2 + len(v) for _, vs in m['information'] for v in vs) <= 246


def in_range(direction, m):
    """the property's scope: field values in range and lists that fit a 253-byte PDU"""
    t = m['t']
    if direction == 'req':
        if t == 'writeCoils':
            return len(m['values']) <= 1968
        if t == 'writeRegisters':
            return len(m['values']) <= 123
        if t == 'readWrite':
            return len(m['write_registers']) <= 121
        if t == 'readFileRecord':
            return len(m['records']) <= 35
        return True
    if t in ('readCoils', 'readDiscrete'):
        return len(m['bits']) <= 2000
    if t in ('readHolding', 'readInput', 'readWrite'):
        return len(m['registers']) <= 125
    if t == 'diag' and m['message']['k'] == 'list':
        return len(m['message']['ws']) <= 125
    if t == 'reportSlaveId':
        return len(m['identifier']) <= 250
    return devinfo_fits(m)


def enc(obj):
    try:
        return list(bytes([obj.function_code]) + obj.encode())
    except Exception as e:  # noqa
        return {'err': errkind(e)}


def check_batch(ctx, rep, direction, msgs):
    req = direction == 'req'
    msgs = [m for m in msgs if in_range(direction, m)]
    mk = msggen.mk_req if req else msggen.mk_resp
    to_json = pdus.req_to_json if req else pdus.resp_to_json
    dec = SD if req else CD
    ans = ctx.driver.query([{'op': 'codec', 'dir': 'enc_req' if req else 'enc_resp', 'msg': m} for m in msgs])
    into_q, into_meta = [], []
    for m, a in zip(msgs, ans):
        case = {'kind': 'pdu', 'dir': direction, 'msg': m}
        rep.case(case, nontrivial=nontrivial(m), tag=direction + ':' + m['t'])
        rep.sample(case, cap=4)
        obj = mk(m)
        e1 = enc(obj)
        post = to_json(obj)
        e2 = enc(obj)
        model_e = [a['fc']] + a['out'] if isinstance(a['out'], list) else a['out']
        rep.compare(case, {'bytes': e1, 'post': post}, {'bytes': model_e, 'post': a['post']}, 'encode + object state after encode')
        if isinstance(e1, dict):
            continue  # out of range for struct: not a message the property quantifies over
        if e1 != e2:
            rep.violation('encoding the same object twice gives different bytes', case, finding=classify(direction, m, 'pure'),
                          first=e1, second=e2)
            continue
        try:
            d = dec.decode(bytes(e1))
            dj = to_json(d) if d is not None else None
        except Exception as e:  # noqa
            d, dj = None, {'err': errkind(e)}
        if dj != a['norm']:
            rep.violation('decode(encode(m)) differs from m', case, finding=classify(direction, m, 'roundtrip'),
                          decoded=dj, expected=a['norm'])
            continue
        # a decoded object must own its fields: editing them in place must not reach into later decodes of the same bytes
        if d is not None:
            touched = False
            for attr in ('bits', 'registers', 'values', 'events', 'message', 'write_registers', 'records'):
                v = getattr(d, attr, None)
                if isinstance(v, list) and v:
                    try:
                        v[0] = (not v[0]) if isinstance(v[0], bool) else (v[0] + 1 if isinstance(v[0], int) else v[0])
                        touched = True
                    except Exception:  # noqa
                        pass
            if touched:
                try:
                    d2 = dec.decode(bytes(e1))
                    dj2 = to_json(d2) if d2 is not None else None
                except Exception as e:  # noqa
                    dj2 = {'err': errkind(e)}
                if dj2 != a['norm']:
                    rep.violation('editing a decoded message in place changes what the same bytes decode to afterwards', case,
                                  decoded_again=dj2, expected=a['norm'])
                    continue
                d = d2
        e3 = enc(d)
        if e3 != e1:
            rep.violation('encoding the decoded object gives different bytes', case, finding=classify(direction, m, 'fixed'),
                          first=e1, again=e3)
            continue
        # decode into a used object: decode another message of the same class first
        if d is not None and not req:
            other = msggen.gen_resp(ctx.rng, m['t'])
            if m['t'] == 'diag':
                other['sub'] = m['sub']      # same class: the decoder re-classes by sub-function, decode() does not
            if m['t'] == 'exception':
                other['fc'] = m['fc']  # the function code is a constructor argument, not decoded state
            if in_range('resp', other):
                used = mk(other)
                eo = enc(used)
                if not isinstance(eo, dict):
                    try:
                        used.decode(bytes(e1[1:]))
                        uj = to_json(used)
                    except Exception as e:  # noqa
                        uj = {'err': errkind(e)}
                    into_q.append({'op': 'codec', 'dir': 'dec_into_resp', 'obj': other, 'bytes': e1[1:]})
                    into_meta.append((case, other, uj, dj))
    if into_q:
        for (case, other, uj, dj), a in zip(into_meta, ctx.driver.query(into_q)):
            c2 = dict(case, used_object=other)
            rep.compare(c2, uj, a['out'], 'decode into a used object vs Impl.decodeIntoResp')
            if uj != dj:
                rep.violation('decode into a used object accumulates state from the earlier contents', c2,
                              finding=classify('resp', case['msg'], 'history'), used=uj, fresh=dj)


def run(ctx):
    rep = Report(RULE)
    rng = ctx.rng
    for c in ctx.corpus():
        check_batch(ctx, rep, c['dir'], [c['msg']])
    check_batch(ctx, rep, 'resp', msggen.devinfo_boundary(rng))
    total = ctx.scale(6000, 200000)
    done = 0
    while done < total and ctx.time_left() > 20:
        check_batch(ctx, rep, 'req', [msggen.gen_req(rng) for _ in range(500)])
        check_batch(ctx, rep, 'resp', [msggen.gen_resp(rng) for _ in range(500)])
        done += 1000
    return rep


def replay(ctx, payload):
    rep = Report(RULE)
    c = payload['case']
    check_batch(ctx, rep, c['dir'], [c['msg']])
    unknown = [v for v in rep.violations if v['finding'] is None]
    if unknown:
        return unknown[0]['what']
    if rep.disagreements:
        return 'model/implementation disagreement'
    return None
