"""Driving the REAL server front-ends in-process (no sockets, no reactor): fake sockets / transports feed chunks to the
real handler / protocol classes and capture what they write.  A `Session` owns one datastore and any number of
connections of one front-end; `feed(conn, chunk)` hands one chunk to one connection and returns what it wrote."""
import asyncio

from pymodbus.datastore import ModbusServerContext
from pymodbus.factory import ServerDecoder
from pymodbus.server import sync as ssync
from pymodbus.server import async_io as saio
from pymodbus.server import asynchronous as stw
from pymodbus.device import ModbusControlBlock

from harness import framelib
from harness.execlib import mk_slave, dump_slave
from harness.pyutil import errkind

FRONTENDS = ['syncTcp', 'syncSerial', 'syncUdp', 'aioTcp', 'aioUdp', 'twistedTcp', 'twistedUdp']
STREAM_FRONTENDS = ['syncTcp', 'syncSerial', 'aioTcp', 'twistedTcp']
DGRAM_FRONTENDS = ['syncUdp', 'aioUdp', 'twistedUdp']
ADDR = ('10.0.0.9', 5020)


def mk_units(single, units):
    """units: list of [unit id, slave desc].  Returns (ModbusServerContext, {id: block list})"""
    blocks = {}
    if single:
        ctx, bl = mk_slave(units[0][1])
        blocks[units[0][0]] = bl
        return ModbusServerContext(slaves=ctx, single=True), blocks
    d = {}
    for uid, desc in units:
        ctx, bl = mk_slave(desc)
        d[uid] = ctx
        blocks[uid] = bl
    return ModbusServerContext(slaves=d, single=False), blocks


class _Server:
    """the attributes of ModbusTcpServer & co that the handlers use"""

    def __init__(self, context, framer, ignore_missing, broadcast):
        self.context = context
        self.framer = framelib.FRAMERS[framer]
        self.decoder = ServerDecoder()
        self.ignore_missing_slaves = ignore_missing
        self.broadcast_enable = broadcast
        self.threads = []
        self.active_connections = {}
        self.control = ModbusControlBlock()


def real_server(kind, context, framer, ignore_missing, broadcast, loop=None):
    """the REAL server object of a front-end, built by its own constructor around `context` (bound to an ephemeral
    loopback port, never served): the handlers below take their settings and the context from it exactly as in
    production.  Returns (server, closer) or (None, reason)."""
    fr = framelib.FRAMERS[framer]
    # None = the keyword is left out: the constructor takes the library-wide default (constants.Defaults) as it stands NOW
    opts = {}
    if ignore_missing is not None:
        opts['ignore_missing_slaves'] = ignore_missing
    if broadcast is not None:
        opts['broadcast_enable'] = broadcast
    try:
        if kind == 'syncTcp':
            srv = ssync.ModbusTcpServer(context, framer=fr, address=('127.0.0.1', 0), **opts)
            return srv, srv.server_close
        if kind == 'syncUdp':
            srv = ssync.ModbusUdpServer(context, framer=fr, address=('127.0.0.1', 0), **opts)
            return srv, srv.server_close
        if kind in ('aioTcp', 'aioUdp'):
            cls = saio.ModbusTcpServer if kind == 'aioTcp' else saio.ModbusUdpServer
            srv = cls(context, framer=fr, address=('127.0.0.1', 0), loop=loop, **opts)

            def closer():
                f = getattr(srv, 'server_factory', None)
                if f is not None and hasattr(f, 'close'):
                    f.close()       # the never-awaited create_server coroutine
            return srv, closer
    except Exception as e:  # noqa
        return None, '%s: %s' % (type(e).__name__, e)
    return None, 'no constructor probe for ' + kind


class _OneShotSocket:
    """the datagram handlers get (data, socket) once: this is the socket they send through"""

    def __init__(self):
        self.h = None
        self.out = []

    def send(self, data):
        self.out.append(list(data))
        return len(data)

    def sendto(self, data, addr):
        self.out.append(list(data))
        return len(data)


class Hang(Exception):
    """the real code did not return from a receive call within the watchdog time (it spins or blocks for good)"""


def _alarm(signum, frame):
    raise Hang('the receive call did not return within 8 s')


class _BlockingSocket:
    """the socket of a stream handler whose handle() runs ONCE, in its own thread, for the life of the connection (as
    under socketserver): recv blocks until the harness feeds a chunk, an idle timeout, or the end of the connection"""

    def __init__(self):
        import queue
        import threading
        self.q = queue.Queue()
        self.idle = threading.Event()     # set while the handler waits in recv (everything fed so far is processed)
        self.out = []
        self.h = None
        self.pending = b''

    def recv(self, n):
        # stream semantics: a read returns AT MOST n bytes of what has arrived and the rest stays for the next read; the
        # handler is idle (everything fed so far is processed) only when it blocks with nothing left to read
        if n < 0:
            raise ValueError('negative buffersize in recv')
        if self.pending:
            data, self.pending = self.pending[:n], self.pending[n:]
            return data
        self.idle.set()
        item = self.q.get()
        self.idle.clear()
        if item == 'TIMEOUT':
            import socket
            raise socket.timeout('timed out')
        if item == 'STOP':
            self.h.running = False
            return b''
        data, self.pending = item[:n], item[n:]
        return data

    def send(self, data):
        self.out.append(list(data))
        return len(data)


class _SyncStreamConn:
    """ModbusConnectedRequestHandler (TCP) / ModbusSingleRequestHandler (serial): handle() runs in a thread of its own
    from the first chunk to the end of the connection, exactly one call, so that state the loop keeps in local
    variables lives as long as it does in a real server."""

    def __init__(self, kind, srv):
        import threading
        cls = ssync.ModbusConnectedRequestHandler if kind == 'syncTcp' else ssync.ModbusSingleRequestHandler
        self.h = cls.__new__(cls)
        self.sock = _BlockingSocket()
        self.sock.h = self.h
        self.h.request, self.h.client_address, self.h.server = self.sock, ADDR, srv
        self.h.setup()
        self.esc = None
        self.done = threading.Event()

        def run():
            try:
                self.h.handle()
            except Exception as e:  # noqa
                self.esc = errkind(e)
            finally:
                self.done.set()
                self.sock.idle.set()
        self.thread = threading.Thread(target=run, daemon=True)
        self.thread.start()
        self._wait()

    def _wait(self):
        if not self.sock.idle.wait(8):
            raise Hang('handler thread did not come back to recv within 8 s')

    def feed(self, chunk):
        if self.done.is_set():
            return [], None
        if chunk is not None and not chunk:        # an empty read is "peer closed" for a socket, not a chunk
            return [], None
        self.sock.out = []
        self.sock.idle.clear()
        self.sock.q.put('TIMEOUT' if chunk is None else bytes(chunk))
        self._wait()
        esc, self.esc = self.esc, None
        return self.sock.out, esc

    def alive(self):
        return not self.done.is_set()

    def close(self):
        if not self.done.is_set():
            self.sock.q.put('STOP')
            self.done.wait(5)
        try:
            self.h.finish()
        except Exception:  # noqa
            pass


class _ParkingDecoder:
    """the server's shared decoder, with one scheduling point: a handler thread that has been told to `park` stops right where
    the framer hands it a complete, checked frame to decode (between checkFrame and populateResult) until it is released.  This
    is the pre-emption a threaded server can suffer at that point; nothing else about the decoder is changed."""

    def __init__(self, real):
        import threading
        self.real = real
        self.park_thread = None
        self.parked = threading.Event()
        self.go = threading.Event()

    def decode(self, data):
        import threading
        if self.park_thread is threading.current_thread() and not self.parked.is_set():
            self.parked.set()
            self.go.wait(5)
        return self.real.decode(data)

    def __getattr__(self, name):
        return getattr(self.real, name)


def preempted_pair(framer, units, ignore_missing, chunk_a, chunk_b):
    """sync threaded TCP server, two connections: A receives chunk_a and is pre-empted when its framer has a checked frame in
    hand; meanwhile B receives chunk_b and is served completely; then A goes on.  Returns (frames written to A, frames written
    to B, dumps per unit, whether A really was parked)."""
    s = Session('syncTcp', framer, False, units, ignore_missing, False)
    try:
        dec = _ParkingDecoder(s.srv.decoder)
        s.srv.decoder = dec
        a, b = s.open(), s.open()
        ca, cb = s.conns[a], s.conns[b]
        dec.park_thread = ca.thread
        ca.sock.out = []
        ca.sock.idle.clear()
        ca.sock.q.put(bytes(chunk_a))
        import time as _t
        t0 = _t.time()
        while _t.time() - t0 < 3 and not dec.parked.is_set() and not ca.sock.idle.is_set():
            _t.sleep(0.001)           # (A is back in recv without having reached the decoder: nothing to pre-empt)
        was_parked = dec.parked.is_set()
        out_b, _ = s.feed(b, chunk_b)
        dec.go.set()
        ca._wait()
        return [list(f) for f in ca.sock.out], out_b, s.dumps(), was_parked
    finally:
        s.close()


class _SyncUdpConn:
    """socketserver builds a new ModbusDisconnectedRequestHandler for every datagram"""

    def __init__(self, srv):
        self.srv = srv

    def feed(self, chunk):
        h = ssync.ModbusDisconnectedRequestHandler.__new__(ssync.ModbusDisconnectedRequestHandler)
        sock = _OneShotSocket()
        sock.h = h
        h.request, h.client_address, h.server = (bytes(chunk), sock), ADDR, self.srv
        esc = None
        h.setup()
        try:
            h.handle()
        except Exception as e:  # noqa
            esc = errkind(e)
        h.finish()
        return sock.out, esc

    def alive(self):
        return True

    def close(self):
        pass


class _FakeTransport:
    def __init__(self, proto):
        self.out = []
        self.proto = proto
        self.closed = False

    def get_extra_info(self, name):
        return ADDR

    def write(self, data, addr=None):
        self.out.append(list(data))

    def sendto(self, data, addr=None):
        self.out.append(list(data))

    def close(self):
        if not self.closed:
            self.closed = True
            self.proto.connection_lost(None)


class _AioConn:
    def __init__(self, kind, srv, loop):
        self.kind, self.loop = kind, loop
        self.reported = False

        async def mk():
            cls = saio.ModbusConnectedRequestHandler if kind == 'aioTcp' else saio.ModbusDisconnectedRequestHandler
            h = cls(srv)
            h.protocol = type('P', (), {'_sock': type('S', (), {'getsockname': lambda self: ADDR})()})()  # used by a log line only
            tr = _FakeTransport(h)
            h.connection_made(tr)
            return h, tr
        self.h, self.tr = loop.run_until_complete(mk())

    def feed(self, chunk):
        async def go():
            n = len(self.tr.out)
            if self.h.running:
                if self.kind == 'aioTcp':
                    self.h.data_received(bytes(chunk))
                else:
                    self.h.datagram_received(bytes(chunk), ADDR)
                for _ in range(4):
                    await asyncio.sleep(0)
            return self.tr.out[n:]
        out = self.loop.run_until_complete(go())
        esc = None
        t = self.h.handler_task
        if t is not None and t.done() and not t.cancelled() and t.exception() is not None and not self.reported:
            esc = errkind(t.exception())      # an exception ended the serving coroutine
            self.reported = True
        return out, esc

    def alive(self):
        return bool(self.h.running)

    def close(self):
        async def go():
            if self.h.running:
                try:
                    self.h.connection_lost(None)
                except Exception:  # noqa
                    pass
            # the handler task must really finish before the loop is closed (a pending task that is garbage
            # collected later spins in its own error handling)
            self.h.running = False
            if self.h.handler_task is not None:
                self.h.handler_task.cancel()
                await asyncio.gather(self.h.handler_task, return_exceptions=True)
        self.loop.run_until_complete(go())


class _TwistedTcpConn:
    def __init__(self, store, framer, ignore_missing):
        from twisted.test.proto_helpers import StringTransport

        class Rec(StringTransport):
            def __init__(self):
                StringTransport.__init__(self)
                self.writes = []

            def write(self, data):
                self.writes.append(list(data))
                StringTransport.write(self, data)

        opts = {} if ignore_missing is None else {'ignore_missing_slaves': ignore_missing}
        fac = stw.ModbusServerFactory(store, framer=framelib.FRAMERS[framer], **opts)
        self.p = stw.ModbusTcpProtocol()
        self.p.factory = fac
        self.tr = Rec()
        self.p.makeConnection(self.tr)

    def feed(self, chunk):
        if self.tr.disconnecting:      # the protocol dropped the connection: the reactor delivers nothing more
            return [], None
        self.tr.writes = []
        esc = None
        try:
            self.p.dataReceived(bytes(chunk))
        except Exception as e:  # noqa
            esc = errkind(e)
        return self.tr.writes, esc

    def alive(self):
        return not self.tr.disconnecting

    def close(self):
        pass


class _DgramTransport:
    def __init__(self):
        self.out = []

    def write(self, data, addr=None):
        self.out.append(list(data))


class _TwistedUdpConn:
    def __init__(self, store, framer, ignore_missing):
        opts = {} if ignore_missing is None else {'ignore_missing_slaves': ignore_missing}
        self.p = stw.ModbusUdpProtocol(store, framer=framelib.FRAMERS[framer], **opts)
        self.p.transport = _DgramTransport()

    def feed(self, chunk):
        n = len(self.p.transport.out)
        esc = None
        try:
            self.p.datagramReceived(bytes(chunk), ADDR)
        except Exception as e:  # noqa
            esc = errkind(e)
        return self.p.transport.out[n:], esc

    def alive(self):
        return True

    def close(self):
        pass


MCB = ModbusControlBlock()      # the process-wide singleton all the message modules use


def reset_control():
    """put the process-wide control block into the state every case starts from"""
    MCB.reset()
    MCB.ListenOnly = False
    MCB.Plus.reset()
    MCB.Delimiter = b'\r'
    ident = MCB.Identity
    for k in list(dict(iter(ident))):
        if k > 8:
            del ident._ModbusDeviceIdentification__data[k]
    for k in range(9):
        ident._ModbusDeviceIdentification__data[k] = ''


def control_json():
    """the control block as the model's `Control` (driver field `control`)"""
    c = MCB.Counter
    counters = [c.BusMessage, c.BusCommunicationError, c.BusExceptionError, c.SlaveMessage, c.SlaveNoResponse, c.SlaveNAK,
                c.SlaveBusy, c.BusCharacterOverrun, c.Event]
    ident = []
    for k, v in dict(iter(MCB.Identity)).items():
        ident.append([k, list(v.encode() if isinstance(v, str) else v)])
    return {'counters': counters, 'listen_only': bool(MCB.ListenOnly), 'diagreg': [int(b) for b in MCB.getDiagnosticRegister()],
            'events': list(MCB.getEvents()), 'plus': list(MCB.Plus.encode()), 'ident': ident}


def initial_control(identity=None):
    """reset the control block to the state a case starts from (plus the given identity strings) and describe it"""
    reset_control()
    counters = None
    if isinstance(identity, dict):          # {'ident': [[id, value]...], 'counters': [nine counter values]}
        counters, identity = identity.get('counters'), identity.get('ident')
    if counters:
        c = MCB.Counter
        (c.BusMessage, c.BusCommunicationError, c.BusExceptionError, c.SlaveMessage, c.SlaveNoResponse, c.SlaveNAK,
         c.SlaveBusy, c.BusCharacterOverrun, c.Event) = counters
    if identity:
        for k, v in identity:
            MCB.Identity._ModbusDeviceIdentification__data[k] = v
    return control_json()


class Session:
    def __init__(self, kind, framer, single, units, ignore_missing, broadcast, identity=None, late=False, via_defaults=False):
        """via_defaults=True: the application configures the server through the library-wide defaults (constants.Defaults set at
        run time, after the modules were imported) and passes NO option to the constructors; the front-ends that can be built
        without a port are built by their REAL constructors.  What is served must be what the explicit options give.
        late=True: the server object is built by the front-end's REAL constructor around a context that hosts NO unit yet
        (multi-unit contexts), and the units are attached afterwards with `context[u] = ...` — a gateway that learns its
        units at run time.  What is served afterwards must be what a server built around the full context serves."""
        initial_control(identity)
        self.kind, self.framer, self.units = kind, framer, units
        self.ignore_missing = ignore_missing
        self.saved_defaults = None
        if via_defaults:
            from pymodbus.constants import Defaults
            self.saved_defaults = (Defaults.IgnoreMissingSlaves, Defaults.broadcast_enable, Defaults.UnitId)
            Defaults.IgnoreMissingSlaves, Defaults.broadcast_enable = bool(ignore_missing), bool(broadcast)
            # ... and has changed a default that is none of the server's business: the unit id its CLIENTS address when none is
            # given.  The broadcast address is 0 whatever that default says.
            Defaults.UnitId = 1
            self.ignore_missing = None          # (the Twisted constructors get no option either)
        self.conns = []
        self.loop = None
        self.closer = None
        self.late_note = None
        if kind in ('aioTcp', 'aioUdp'):
            self.loop = asyncio.new_event_loop()
            asyncio.set_event_loop(self.loop)
        full, self.blocks = mk_units(single, units)
        if late and not single:
            self.store = ModbusServerContext(slaves={}, single=False)
        else:
            self.store = full
        self.srv = None
        if (late or via_defaults) and kind in ('syncTcp', 'syncUdp', 'aioTcp', 'aioUdp'):
            self.srv, self.closer = real_server(kind, self.store, framer, None if via_defaults else ignore_missing,
                                                None if via_defaults else broadcast, self.loop)
            if self.srv is None:
                self.late_note, self.closer = self.closer, None
        if self.srv is None:
            self.srv = _Server(self.store, framer, ignore_missing, broadcast)
        self.late_store = self.store
        if late and kind in ('twistedTcp', 'twistedUdp'):
            # the Twisted factory / protocol take the store in their constructors: build them now, attach later
            self.pre = (_TwistedTcpConn if kind == 'twistedTcp' else _TwistedUdpConn)(self.store, framer, self.ignore_missing)
        else:
            self.pre = None
        if late and not single:
            for uid, _ in units:
                self.store[uid] = full[uid]

    def open(self):
        k = self.kind
        if k in ('syncTcp', 'syncSerial'):
            c = _SyncStreamConn(k, self.srv)
        elif k == 'syncUdp':
            c = _SyncUdpConn(self.srv)
        elif k in ('aioTcp', 'aioUdp'):
            c = _AioConn(k, self.srv, self.loop)
        elif self.pre is not None:
            c, self.pre = self.pre, None
        elif k == 'twistedTcp':
            c = _TwistedTcpConn(self.store, self.framer, self.ignore_missing)
        else:
            c = _TwistedUdpConn(self.store, self.framer, self.ignore_missing)
        self.conns.append(c)
        return len(self.conns) - 1

    def feed(self, conn, chunk):
        if isinstance(chunk, dict) and 'add' in chunk:
            # the application registers (or replaces) a unit at run time: `context[u] = slave`
            try:
                ctx, bl = mk_slave(chunk['layout'])
                self.store[chunk['add']] = ctx
                self.blocks[chunk['add']] = bl
                if all(x[0] != chunk['add'] for x in self.units):
                    self.units = list(self.units) + [[chunk['add'], chunk['layout']]]
                return [], None
            except Exception as e:  # noqa
                return [], errkind(e)
        if isinstance(chunk, dict):
            # the application removes a unit from the server context at run time: `del context[u]`
            try:
                del self.store[chunk['del']]
                self.units = [x for x in self.units if x[0] != chunk['del']]
                return [], None
            except Exception as e:  # noqa
                return [], errkind(e)
        if getattr(self, 'hung', False):
            return [], 'hang'
        # watchdog: a receive call that never returns (an endless loop in a decoder, say) is reported as the escape 'hang'
        # for this and every later step of the session instead of hanging the check
        import signal
        import threading
        main = threading.current_thread() is threading.main_thread()
        if main:
            old = signal.signal(signal.SIGALRM, _alarm)
            signal.setitimer(signal.ITIMER_REAL, 8)
        try:
            return self.conns[conn].feed(chunk)
        except Hang:
            self.hung = True
            return [], 'hang'
        finally:
            if main:
                signal.setitimer(signal.ITIMER_REAL, 0)
                signal.signal(signal.SIGALRM, old)

    def dumps(self):
        return [[uid, dump_slave(self.blocks[uid])] for uid, _ in self.units]

    def control(self):
        c = control_json()
        return {'counters': c['counters'], 'listen_only': c['listen_only']}

    def close(self):
        for c in self.conns:
            c.close()
        if self.closer is not None:
            try:
                self.closer()
            except Exception:  # noqa
                pass
        if self.loop is not None:
            asyncio.set_event_loop(None)
            self.loop.close()
        if self.saved_defaults is not None:
            from pymodbus.constants import Defaults
            Defaults.IgnoreMissingSlaves, Defaults.broadcast_enable, Defaults.UnitId = self.saved_defaults
            self.saved_defaults = None


def run_schedule(kind, framer, single, units, ignore_missing, broadcast, nconns, schedule, identity=None, late=False, via_defaults=False):
    """several connections sharing one datastore; schedule = list of (connection index, chunk).
    Returns (per-step written frames, per-step escaped exception kind, final dumps per unit, per-step "the connection is
    still served afterwards")"""
    s = Session(kind, framer, single, units, ignore_missing, broadcast, identity, late=late, via_defaults=via_defaults)
    try:
        ids = [s.open() for _ in range(nconns)]
        outs, escs, alive = [], [], []
        for ci, ch in schedule:
            o, e = s.feed(ids[ci], ch)
            outs.append(o)
            escs.append(e)
            alive.append(s.conns[ids[ci]].alive())
        return outs, escs, s.dumps(), alive, s.control()
    finally:
        s.close()


def run_frontend(kind, framer, single, units, ignore_missing, broadcast, chunks, identity=None, via_defaults=False):
    """one connection receiving `chunks`"""
    return run_schedule(kind, framer, single, units, ignore_missing, broadcast, 1, [(0, c) for c in chunks], identity, via_defaults=via_defaults)
