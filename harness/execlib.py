"""Shared machinery of C04/C05 (and the server checks): slave-context layouts, request-history
generators, running a history through the REAL decode → handler.execute path, comparison with the
model (`exec` driver op: Impl.serverExecute) and with the register-file spec (RegisterFile.step)."""
import struct

from pymodbus.datastore import ModbusSlaveContext, ModbusServerContext
from pymodbus.datastore.store import BaseModbusDataBlock
from pymodbus.factory import ServerDecoder
from pymodbus.server.sync import ModbusBaseRequestHandler

from harness import pdus
from harness.pyutil import errkind
from harness.c18 import mk_block, dump_block, gen_block, extent, build_slave_context

LETTER = {2: 'd', 4: 'i', 3: 'h', 6: 'h', 16: 'h', 22: 'h', 23: 'h', 1: 'c', 5: 'c', 15: 'c'}
TABLE_OF_T = {'readCoils': 'c', 'writeCoil': 'c', 'writeCoils': 'c', 'readDiscrete': 'd', 'readInput': 'i',
              'readHolding': 'h', 'writeRegister': 'h', 'writeRegisters': 'h', 'maskWrite': 'h', 'readWrite': 'h'}


EXC_KINDS = {'runtime': RuntimeError, 'key': KeyError, 'index': IndexError, 'value': ValueError, 'io': IOError,
             'attr': AttributeError, 'type': TypeError, 'zero': ZeroDivisionError}


class RaisingBlock(BaseModbusDataBlock):
    """a datastore that fails on every access (with the exception class a custom backend might raise: a dict-backed
    one raises KeyError, a remote one IOError, ...)"""
    values = []
    address = 0
    default_value = 0

    def __init__(self, exc='runtime'):
        self.exc = EXC_KINDS.get(exc, RuntimeError)

    def validate(self, address, count=1):
        raise self.exc('datastore failure')

    def getValues(self, address, count=1):
        raise self.exc('datastore failure')

    def setValues(self, address, values):
        raise self.exc('datastore failure')

    def __iter__(self):
        return iter([])


def with_prelude(rng, desc, gen_history):
    """the unit had ANOTHER set of tables before, and served requests on them (every function code may have been used); then the
    application installed the tables of `desc` at run time through the public ModbusSlaveContext.register().  From then on the
    unit must behave exactly like one built with those tables."""
    old = gen_layout(rng, small=True, big_p=0.0)
    return dict(desc, prelude={'ctx': dict(old, zero=desc['zero'], zconf=desc.get('zconf', 'explicit')),
                               'reqs': gen_history(rng, old, rng.choice([4, 8, 14]), 0.05)})


def mk_slave(desc):
    blocks = [RaisingBlock(b.get('exc', 'runtime')) if b['kind'] == 'broken' else mk_block(b) for b in desc['blocks']]
    pre = desc.get('prelude')
    if pre:
        ctx, _ = mk_slave(pre['ctx'])
        h = Handler(ModbusServerContext(slaves=ctx, single=True))
        dec = ServerDecoder()
        for r in pre['reqs']:
            try:
                obj = dec.decode(enc_req(r))
                if obj is not None:
                    h.execute(obj)
            except Exception:  # noqa
                pass
        for t, fc in (('d', 2), ('c', 1), ('i', 4), ('h', 3)):
            ctx.register(fc, t, blocks[desc[t]])
        return ctx, blocks
    omit = desc.get('omit') or []
    if omit:
        # tables the caller leaves out: ModbusSlaveContext creates their (default) blocks itself; those are what is dumped
        kw = {k: blocks[desc[t]] for t, k in (('d', 'di'), ('c', 'co'), ('i', 'ir'), ('h', 'hr')) if t not in omit}
        ctx = build_slave_context(desc, **kw)
        for t in omit:
            blocks[desc[t]] = ctx.store[t]
        return ctx, blocks
    ctx = build_slave_context(desc, di=blocks[desc['d']], co=blocks[desc['c']], ir=blocks[desc['i']], hr=blocks[desc['h']])
    return ctx, blocks


def dump_slave(blocks):
    return [dump_block(b) for b in blocks]


def gen_layout(rng, broken_p=0.0, small=True, big_p=0.07):
    if rng.random() < big_p:
        # a unit with room for the LARGEST legal requests and responses (2000 bits, 125 registers, 123 written registers):
        # frames of 250+ bytes (500+ characters on ASCII) on every path
        nblk = rng.choice([1, 2])
        blocks = [{'kind': 'seq', 'address': rng.choice([0, 1]), 'values': [0] * 2100,
                   'pybool': rng.random() < 0.3} for _ in range(nblk)]
        ix = [rng.randrange(nblk) for _ in range(4)]
        return {'blocks': blocks, 'd': ix[0], 'c': ix[1], 'i': ix[2], 'h': ix[3], 'zero': rng.random() < 0.5}
    n = rng.choice([1, 2, 4, 4, 4])
    blocks = []
    for _ in range(n):
        b = gen_block(rng)
        if b['kind'] == 'seq':
            ln = rng.choice([1, 2, 10, 100]) if not small else rng.choice([1, 2, 4, 10, 30])
            b['values'] = [rng.randrange(0, 2) for _ in range(ln)]
            # some applications initialise their blocks with Python bools ([False] * n); the cells are still registers
            b['pybool'] = rng.random() < 0.25
            b['address'] = rng.choice([0, 1, 5, 65530])
            if b['address'] + ln > 65537:
                b['address'] = 65537 - ln
        blocks.append(b)
    if n == 4:
        idx = dict(zip('dcih', rng.sample(range(4), 4)))
    else:
        idx = {t: rng.randrange(n) for t in 'dcih'}
    if broken_p and rng.random() < broken_p:
        blocks.append({'kind': 'broken', 'exc': rng.choice(sorted(EXC_KINDS))})
        idx[rng.choice('dcih')] = len(blocks) - 1
    return {'blocks': blocks, 'd': idx['d'], 'c': idx['c'], 'i': idx['i'], 'h': idx['h'], 'zero': rng.random() < 0.5,
            'zconf': rng.choice(['explicit', 'explicit', 'explicit', 'explicit-under-other-default', 'from-default'])}


def table_window(desc, t):
    b = desc['blocks'][desc[t]]
    if b['kind'] == 'broken':
        return 0, 4
    lo, hi = extent(b)
    return lo, hi


def windows(desc):
    out = []
    for b in desc['blocks']:
        if b['kind'] == 'broken':
            out.append([0, 0])
        else:
            lo, hi = extent(b)
            out.append([max(0, lo - 3), hi + 140])
    return out


# ------------------------------------------------------------------ abstract request generators
def pick_addr(rng, desc, t, recent):
    lo, hi = table_window(desc, t)
    off = 0 if desc['zero'] else 1
    cands = [lo - off - 1, lo - off, lo - off + 1, hi - off - 1, hi - off, hi - off + 1, 65535]
    if recent and rng.random() < 0.5:
        cands += recent * 3
    cands.append(rng.randrange(max(0, lo - off - 2), hi - off + 3))
    a = rng.choice(cands)
    return min(max(a, 0), 65535)


def gen_req(rng, desc, recent, invalid_p):
    """one abstract data-access request; with probability invalid_p a deliberately invalid one"""
    t = rng.choice(['readCoils', 'readDiscrete', 'readHolding', 'readInput', 'writeCoil', 'writeRegister',
                    'writeCoils', 'writeRegisters', 'maskWrite', 'readWrite'])
    tab = TABLE_OF_T[t]
    lo, hi = table_window(desc, tab)
    size = hi - lo + 1
    a = pick_addr(rng, desc, tab, recent)
    bad = rng.random() < invalid_p

    def qty(lim):
        if bad and rng.random() < 0.5:
            return rng.choice([0, lim + 1, lim + 2, 0xFFFF, lim])
        return rng.choice([1, 1, 2, 3, min(size, lim), min(size + 1, lim), lim - 1, lim]) if rng.random() < 0.3 else rng.randrange(1, min(size, lim) + 2)

    if t in ('readCoils', 'readDiscrete'):
        return {'t': t, 'address': a, 'count': qty(2000)}
    if t in ('readHolding', 'readInput'):
        return {'t': t, 'address': a, 'count': qty(125)}
    if t == 'writeCoil':
        word = rng.choice([0xFF00, 0]) if not bad else rng.choice([0xFF00, 0, 1, 0x00FF, 0xFF01, 0xFFFF, rng.randrange(65536)])
        return {'t': t, 'address': a, 'word': word}
    if t == 'writeRegister':
        return {'t': t, 'address': a, 'value': rng.choice([0, 1, 0xFFFF, rng.randrange(65536)])}
    if t == 'maskWrite':
        return {'t': t, 'address': a, 'and_mask': rng.choice([0, 0xFFFF, 0xF2, rng.randrange(65536)]),
                'or_mask': rng.choice([0, 0xFFFF, 0x25, rng.randrange(65536)])}
    if t == 'writeCoils':
        cnt = qty(1968)
        bc = (cnt + 7) // 8
        ndata = bc
        if bad:
            r = rng.random()
            if r < 0.3:
                bc = rng.choice([max(bc - 1, 0), bc + 1, 0, 255])
                ndata = rng.choice([bc, (cnt + 7) // 8])
            elif r < 0.45:
                ndata = rng.choice([max(bc - 1, 0), bc + 1])
        bc = min(bc, 255)
        ndata = min(ndata, 250)
        raw = [rng.randrange(256) for _ in range(ndata)]
        bits = [bool((raw[i // 8] >> (i % 8)) & 1) for i in range(min(cnt, 8 * ndata))]
        return {'t': t, 'address': a, 'count': cnt, 'byte_count': bc, 'values': bits, 'raw': raw}
    if t == 'writeRegisters':
        cnt = qty(123)
        bc = 2 * cnt
        ndata = bc
        if bad:
            r = rng.random()
            if r < 0.3:
                bc = rng.choice([max(bc - 1, 0), bc + 1, bc + 2, 0, 255, max(bc - 2, 0)])
                ndata = rng.choice([bc, 2 * cnt])
            elif r < 0.45:
                ndata = rng.choice([max(bc - 2, 0), bc + 2, max(bc - 1, 0)])
        bc = min(bc, 255)
        ndata = min(ndata, 250)
        raw = [rng.randrange(256) for _ in range(ndata)]
        regs = [raw[2 * i] * 256 + raw[2 * i + 1] for i in range(min(cnt, ndata // 2))]
        return {'t': t, 'address': a, 'count': cnt, 'byte_count': bc, 'values': regs, 'raw': raw}
    if t == 'readWrite':
        rn = qty(125)
        wn = qty(121) if rng.random() < 0.7 else rng.randrange(1, 4)
        wa = pick_addr(rng, desc, tab, recent)
        bc = 2 * wn
        ndata = bc
        if bad:
            r = rng.random()
            if r < 0.25:
                bc = rng.choice([max(bc - 1, 0), bc + 1, bc + 2, 0, max(bc - 2, 0)])
                ndata = rng.choice([bc, 2 * wn])
            elif r < 0.35:
                ndata = rng.choice([max(bc - 2, 0), bc + 2])
        bc = min(bc, 255)
        ndata = min(ndata, 244)
        raw = [rng.randrange(256) for _ in range(ndata)]
        regs = [raw[2 * i] * 256 + raw[2 * i + 1] for i in range(min(wn, ndata // 2))]
        return {'t': t, 'read_address': a, 'read_count': rn, 'write_address': wa, 'write_count': wn,
                'write_byte_count': bc, 'write_registers': regs, 'raw': raw}
    raise AssertionError


UNASSIGNED_FC = [0, 9, 10, 13, 14, 18, 19] + list(range(25, 43)) + list(range(44, 128))


def enc_req(r):
    """wire PDU of an abstract request (the `raw` data bytes, when present, are what is on the wire)"""
    if 'raw' in r:
        raw = bytes(r['raw'])
        t = r['t']
        if t == 'writeCoils':
            return bytes([15]) + pdus.H(r['address']) + pdus.H(r['count']) + bytes([r['byte_count']]) + raw
        if t == 'writeRegisters':
            return bytes([16]) + pdus.H(r['address']) + pdus.H(r['count']) + bytes([r['byte_count']]) + raw
        if t == 'readWrite':
            return (bytes([23]) + pdus.H(r['read_address']) + pdus.H(r['read_count']) + pdus.H(r['write_address'])
                    + pdus.H(r['write_count']) + bytes([r['write_byte_count']]) + raw)
    return pdus.enc_abstract_req(r)


def strip(r):
    return {k: v for k, v in r.items() if k not in ('raw', 'data')}


# ------------------------------------------------------------------ the real code path
class _Srv:
    pass


class Handler:
    """the real ModbusBaseRequestHandler.execute with a fake server object and a captured send"""

    def __init__(self, server_ctx, ignore_missing=False, broadcast=False):
        self.h = ModbusBaseRequestHandler.__new__(ModbusBaseRequestHandler)
        srv = _Srv()
        srv.context = server_ctx
        srv.ignore_missing_slaves = ignore_missing
        srv.broadcast_enable = broadcast
        self.h.server = srv
        self.sent = []
        # like every real send(): a response whose should_respond is false is not put on the wire
        self.h.send = lambda m: self.sent.append(m) if getattr(m, 'should_respond', True) else None

    def execute(self, request):
        n = len(self.sent)
        self.h.execute(request)
        return self.sent[n:]


def run_history(desc, abstract_reqs, decoder=None, per_step_dump=False):
    """bytes → ServerDecoder → handler.execute for every request.  Returns
    (model_reqs, impl_outs, dumps_per_step, final_dump)"""
    ctx, blocks = mk_slave(desc)
    sctx = ModbusServerContext(slaves=ctx, single=True)
    h = Handler(sctx)
    dec = decoder or ServerDecoder()
    model_reqs, outs, dumps = [], [], []
    for r in abstract_reqs:
        if r.get('t') == '_reset':
            # the application puts the unit back to its defaults at run time: ModbusSlaveContext.reset()
            ctx.reset()
            outs.append({'reset': True})
            model_reqs.append('RESET')
            if per_step_dump:
                dumps.append(dump_slave(blocks))
            continue
        pdu = enc_req(r)
        try:
            obj = dec.decode(pdu)
        except Exception as e:  # noqa
            outs.append({'decode_raised': errkind(e)})
            model_reqs.append(None)
            if per_step_dump:
                dumps.append(dump_slave(blocks))
            continue
        if obj is None:
            outs.append({'decode_raised': 'none'})
            model_reqs.append(None)
            if per_step_dump:
                dumps.append(dump_slave(blocks))
            continue
        model_reqs.append(pdus.req_to_json(obj))
        try:
            sent = h.execute(obj)
        except Exception as e:  # noqa
            outs.append({'execute_raised': errkind(e)})
        else:
            outs.append(pdus.resp_to_json(sent[0]) if len(sent) == 1 else {'sent': len(sent)})
        # the request is the server's to throw away: whatever happens to its value lists after execute() must not reach the tables
        for attr in ('values', 'write_registers', 'registers', 'bits'):
            v = getattr(obj, attr, None)
            if isinstance(v, list):
                for i in range(len(v)):
                    v[i] = (not v[i]) if isinstance(v[i], bool) else ((v[i] + 1) & 0xFFFF if isinstance(v[i], int) else v[i])
        if per_step_dump:
            dumps.append(dump_slave(blocks))
    return model_reqs, outs, dumps, dump_slave(blocks)


def with_resets(rng, reqs, p=0.2):
    """now and then the application resets the unit in the middle of a history (`ModbusSlaveContext.reset()`): all cells go
    back to their defaults, the tables keep their addresses"""
    if len(reqs) < 2 or rng.random() >= p:
        return reqs
    out = list(reqs)
    for _ in range(rng.choice([1, 1, 2])):
        out.insert(rng.randrange(1, len(out)), {'t': '_reset'})
    return out


def cells_in(dump, w):
    return sorted([k, v] for k, v in dump if w[0] <= k <= w[1])


def check_histories(ctx, rep, cases, tag, per_step=False, classify=None):
    """cases: list of (layout desc, abstract request list)."""
    prepared = []
    q = []
    for desc, reqs in cases:
        orig_reqs = list(reqs)
        model_reqs, outs, dumps, final = run_history(desc, reqs, per_step_dump=per_step and len(reqs) > 1)
        if per_step and len(reqs) == 1:
            dumps = [final]
        prevs = [None] + list(dumps[:-1]) if dumps else []      # the dump right BEFORE each step (None = the initial tables)
        has_reset = any(m == 'RESET' for m in model_reqs)
        if has_reset:
            # take the reset steps out of the request lists; tell the model / the spec before which request each one happens
            resets, spec_resets, nm, ns = [], [], 0, 0
            for m in model_reqs:
                if m == 'RESET':
                    resets.append(nm)
                    spec_resets.append(ns)
                else:
                    ns += 1
                    nm += 1 if m is not None else 0
            idx = [i for i, m in enumerate(model_reqs) if m != 'RESET']
            reqs = [reqs[i] for i in idx]
            model_reqs = [model_reqs[i] for i in idx]
            outs = [outs[i] for i in idx]
            if dumps:
                dumps = [dumps[i] for i in idx]
                prevs = [prevs[i] for i in idx]
        keep = [i for i, m in enumerate(model_reqs) if m is not None]
        op = {'op': 'exec', 'ctx': desc, 'reqs': [model_reqs[i] for i in keep],
              'spec_reqs': [strip(r) for r in reqs], 'windows': windows(desc)}
        if has_reset:
            op['resets'], op['spec_resets'] = resets, spec_resets
        if per_step and len(reqs) > 1:
            op['dump_each'] = True
        q.append(op)
        prepared.append((desc, reqs, model_reqs, outs, dumps, final, keep, orig_reqs, prevs))
    answers = ctx.driver.query(q)
    for (desc, reqs, model_reqs, outs, dumps, final, keep, orig_reqs, prevs), ans in zip(prepared, answers):
        case = {'kind': 'exec', 'ctx': desc, 'reqs': orig_reqs}
        normal = sum(1 for o in outs if o.get('t') not in (None, 'exception'))
        rep.case(case, nontrivial=normal > 0, tag=tag)
        for o in outs:
            rep.hist['resp:' + (o.get('t') or next(iter(o))) + (':%d' % o['code'] if o.get('t') == 'exception' else '')] += 1
        rep.sample({'ctx': desc, 'reqs': [strip(r) for r in reqs[:4]], 'impl_responses': outs[:4]}, cap=3)
        # correspondence: real execute vs Impl.serverExecute on the decoded objects
        impl_kept = [outs[i] for i in keep]
        rep.compare(case, {'outs': impl_kept, 'dump': final}, {'outs': ans['outs'], 'dump': ans['dump']},
                    'decode→handler.execute vs Impl.serverExecute')
        if per_step and len(reqs) > 1 and [dumps[i] for i in keep] != ans['dumps']:
            rep.disagree(case, 'per-step dumps', 'per-step dumps', 'per-step dump vs model')
        # property oracle: responses and final cells are those of the register file
        wins = windows(desc)
        bad = None
        for i, (o, s) in enumerate(zip(outs, ans['spec_outs'])):
            if o != s:
                bad = i
                break
        if bad is not None:
            fid = classify(desc, reqs[bad], outs[bad], ans['spec_outs'][bad]) if classify else None
            rep.violation('response differs from the register-file spec', case, finding=fid, index=bad,
                          request=strip(reqs[bad]), impl=outs[bad], spec=ans['spec_outs'][bad])
            continue
        impl_cells = [cells_in(d, w) if desc['blocks'][k]['kind'] != 'broken' else [] for k, (d, w) in enumerate(zip(final, wins))]
        spec_cells = [c if desc['blocks'][k]['kind'] != 'broken' else [] for k, c in enumerate(ans['spec_cells'])]
        if impl_cells != spec_cells:
            rep.violation('table contents after the history differ from the register-file spec', case,
                          impl=impl_cells, spec=spec_cells)
            continue
        # C05 clause: an exception response changes nothing (checked on the real dumps per step)
        if per_step:
            ctx0, blocks0 = mk_slave(desc)
            initial = dump_slave(blocks0)
            for i, o in enumerate(outs):
                prev = prevs[i] if (i < len(prevs) and prevs[i] is not None) else (initial if i == 0 or not prevs else dumps[i - 1])
                if o.get('t') == 'exception' and dumps[i] != prev:
                    rep.violation('an exception response was sent but a table changed', case, index=i,
                                  request=strip(reqs[i]), response=o)
                    break
