"""C08 — the synchronous client returns only the reply to its own request.

Real code: ModbusTcpClient (socket / RTU / ASCII / binary framer), ModbusSerialClient (rtu / ascii / binary) and
ModbusUdpClient with their real ModbusTransactionManager and framers, over the scripted fake transport and virtual
clock of harness/txnlib.py; replies are built by the real response encoders and framers.
Model: lean/Pymodbus/Model/Txn.lean (`txn` op), Spec: Spec/TxnSpec.lean (`answers`), theorems: Props/C08.lean.

Per call the result (kind + decoded reply + ids), the frames written, the bytes consumed / flushed and the client state
are compared with the model, and the property is checked directly on the real trace: a returned reply answers the
request (Spec `answers`, evaluated by the Lean driver on the REAL reply: transaction id on the MBAP framing, unit id on
the serial framings, function code or code | 0x80) and was decoded from bytes received during that call; the
conformant reply (normal or exception, every request class, every framing, any prior history incl. tid wrap and
pending stale input) is returned with the values the server sent; the transaction ids on the wire follow
tid0+1, tid0+2, ... mod 65536 whatever the retries."""
from harness.runner import Report
from harness import txnlib as T, msggen
from harness.c13 import recovery_call, fault_history

ASSUMPTIONS = [
    'the transport is the scripted peer of harness/txnlib.py (reply bytes per transmission, late bytes, receive-side '
    'failure); time is virtual; connect() succeeds',
    'unit id 0 / 255 in a request addressed over a serial framing accepts a reply from any unit (the library\'s '
    'wildcard, kept: broadcast address / "TCP direct" id)',
    'on the serial framings a stale reply that carries the same unit id and function code as the request cannot be told '
    'from the real one by its ids: the property demands ids, the harness additionally checks that pending input is '
    'discarded before the request is written',
    'reply classes whose encoder and decoder disagree (C01/C02 findings: FIFO count, file-record layout) are used with '
    'values the library can carry; binary frames containing a delimiter byte are left out (C03 finding)',
]
TRUSTED = ['harness/txnlib.py: fake socket / serial / select / time objects, scripted peer, canonicalisation']
RULE = ('client kind x framer (8 combinations) x all 19 request classes x {normal, exception} conformant reply x prior '
        'history of 0..5 calls (healthy or faulty: stale tid / other function / other unit / several frames / late and '
        'split replies / garbage / errors) x start tid incl. 65533..65535 (wrap) x retry settings; stale-reply scripts '
        '(the stale frame before or instead of the reply); non-trivial = a decoded reply was returned; distinct by '
        'canonical JSON of (configuration, history)')

KF_UDP = 'udp-stale-datagram'
STALE_KINDS = ['stale_tid', 'stale_fc', 'wrongunit', 'stale_then_full', 'two', 'garbage_full', 'full_late_stale', 'late',
               'split', 'full', 'exc', 'wrongsize', 'exc_other', 'late_two', 'undecodable', 'full_undecodable']


def conformant_case(rng, cfg=None, t=None, prior=None):
    """0..5 prior healthy calls, then the call under test with the conformant reply"""
    cfg = dict(cfg or T.gen_cfg(rng))
    tid0 = rng.choice([0, 0, 1, 65530, 65533, 65534, 65535, rng.randrange(65536)])
    calls, tid = [], tid0
    for _ in range(rng.randrange(0, 6) if prior is None else prior):
        tid = (tid + 1) & 0xFFFF
        calls.append(recovery_call(rng, cfg, tid))
    tid = (tid + 1) & 0xFFFF
    c = recovery_call(rng, cfg, tid, t=t)
    calls.append(c)
    return {'cfg': cfg, 'tid0': tid0, 'calls': calls, 'kind': 'conformant'}


def stale_case(rng):
    """calls whose scripts put stale / foreign frames before or instead of the reply, then a healthy call"""
    cfg = T.gen_cfg(rng)
    tid0 = rng.choice([0, 5, 65533, 65535, rng.randrange(65536)])
    unit = rng.choice([1, 5, 17, 247, 0, 255])
    calls, tid = [], tid0
    same_t = rng.choice(msggen.REQ_TYPES) if rng.random() < 0.5 else None   # same function: ids cannot tell replies apart
    for _ in range(rng.randrange(1, 5)):
        tid = (tid + 1) & 0xFFFF
        calls.append(T.gen_call(rng, cfg, tid, kinds=STALE_KINDS, unit=unit, t=same_t))
    tid = (tid + 1) & 0xFFFF
    u = unit if not (cfg['broadcast'] and unit == 0) else 5
    calls.append(recovery_call(rng, cfg, tid, u, t=same_t))
    return {'cfg': cfg, 'tid0': tid0, 'calls': calls, 'kind': 'stale'}


def wire_tid(framer, frame):
    return frame[0] * 256 + frame[1] if framer == 'tcp' else None


def check_case(rep, case, real, model):
    cfg = case['cfg']
    sc = T.strip_case(case)
    T.compare(rep, sc, real, model, 'client call vs Txn.execute')
    tid = case['tid0']
    prev, prev_kind = None, None
    for i, (call, o) in enumerate(zip(case['calls'], real)):
        tid = (tid + 1) & 0xFFFF
        res = o['result']
        at = dict(sc, at_call=i)
        if res['kind'] in ('hang', 'raised', 'none', 'other'):
            rep.violation('a client call returned neither a reply nor an error object', at, result=res)
            return
        # the ids on the wire: every transmission of this call carries the call's transaction id
        if o['state']['tid'] != tid or model[i]['req_tid'] != tid:
            rep.violation('transaction ids are not issued as tid0+1, tid0+2, ... mod 65536', at, tid=o['state']['tid'], expected=tid)
            return
        for w in o['writes']:
            if cfg['framer'] == 'tcp' and wire_tid('tcp', w) != tid:
                rep.violation('a transmitted frame does not carry the transaction id of its call', at, frame=w[:8], expected=tid)
                return
        if res['kind'] == 'reply':
            if not model[i].get('impl_answers', False):
                rep.violation('the returned reply does not answer the request (transaction id / unit id / function code)', at,
                              result={k: res[k] for k in ('uid', 'tid')}, reply=res['msg'].get('t'), request=call['req']['t'],
                              unit=call['unit'], req_tid=tid)
                return
            if not T.decoded_from(cfg['framer'], res, o['rx']):
                rep.violation('the returned reply was not decoded from bytes received during this call', at, result=res,
                              rx=o['rx'][:80])
                return
        if 'expect' in call:
            broken = prev is not None and prev['open'] and prev['mode'] == 'oserror'
            stale_dgram = (cfg['transport'] == 'udp' and prev is not None and prev['open'] and T.pending_input(prev)
                           and prev_kind in ('reply', 'broadcast'))
            want = T.expected_reply(call, cfg['framer'], tid)
            got = res if res['kind'] == 'reply' else None
            ok = got is not None and want is not None and got['msg'] == want['msg'] and got['uid'] == want['uid']
            if not ok and not broken:
                rep.violation('the conformant reply to the request was not returned with the values the server sent', at,
                              finding=KF_UDP if (stale_dgram and res['kind'] == 'error') else None,
                              result=res, expected=want, kinds=call.get('kinds'))
                return
        prev, prev_kind = o['state'], res['kind']


def check(ctx, rep, cases):
    for c, (real, model) in zip(cases, T.run_both(ctx, cases)):
        replied = any(o['result']['kind'] == 'reply' for o in real)
        rep.case((c['cfg'], c['tid0'], [(x['req'], x['unit'], x['script']) for x in c['calls']]), nontrivial=replied,
                 tag='%s:%s:%s' % (c.get('kind', 'history'), c['cfg']['transport'], c['cfg']['framer']))
        last = c['calls'][-1]
        if 'expect' in last:
            rep.hist['reply:%s:%s' % (c['cfg']['framer'], last['expect']['t'] if last['expect']['t'] == 'exception' else last['req']['t'])] += 1
        for o in real:
            rep.hist['result:' + o['result']['kind']] += 1
        rep.sample({'cfg': c['cfg'], 'requests': [x['req']['t'] for x in c['calls']], 'kinds': [x.get('kinds') for x in c['calls']],
                    'results': [o['result']['kind'] for o in real]}, cap=6)
        check_case(rep, c, real, model)


def run(ctx):
    rep = Report(RULE)
    rng = ctx.rng
    corpus = [c for c in ctx.corpus() if c.get('calls')]
    if corpus:
        check(ctx, rep, corpus)
    # every request class x every client kind x {normal, exception}: the sweep the property quantifies over
    sweep = []
    for (transport, framer) in T.CONFIGS:
        for t in msggen.REQ_TYPES:
            for _ in range(ctx.scale(2, 12)):
                cfg = T.gen_cfg(rng, transport, framer)
                sweep.append(conformant_case(rng, cfg, t))
    rep.exhaustive = {'request_classes': len(msggen.REQ_TYPES), 'client_kinds': len(T.CONFIGS),
                      'per_cell': ctx.scale(2, 12), 'cases': len(sweep)}
    for i in range(0, len(sweep), 300):
        check(ctx, rep, sweep[i:i + 300])
    total = ctx.scale(6000, 80000)
    done = 0
    while done < total and ctx.time_left() > 20:
        cases = []
        for _ in range(250):
            x = rng.random()
            if x < 0.35:
                cases.append(conformant_case(rng))
            elif x < 0.75:
                cases.append(stale_case(rng))
            else:
                cases.append(fault_history(rng))
        check(ctx, rep, cases)
        done += len(cases)
    return rep


def replay(ctx, payload):
    rep = Report(RULE)
    c = dict(payload['case'])
    c.pop('at_call', None)
    check(ctx, rep, [c])
    bad = [v for v in rep.violations if v.get('finding') is None]
    if bad:
        return bad[0]['what']
    if rep.disagreements:
        return 'model/implementation disagreement'
    return None
