"""C01 — PDU wire format conforms to the Modbus application protocol.

Real code: every request/response class's encode(), ServerDecoder/ClientDecoder.decode().
Model: Impl.encReq/encResp/decReq/decResp (Model/Codec.lean).  Spec: Spec/PduSpec.lean (encReq, encResp,
normReq, normResp).  Theorems: Props/C01.lean."""
from pymodbus.factory import ServerDecoder, ClientDecoder

from harness.runner import Report
from harness import pdus, msggen
from harness.pyutil import errkind

ASSUMPTIONS = ['struct.pack/unpack, bytes slicing and indexing as modelled in Model/Codec.lean',
               'diagnostic `message` values compared at word-list level (int n == [n])']
RULE = ('type-directed messages of every class in both decoder tables (16-bit fields from boundary values and random; '
        'list lengths 0,1,7,8,9,15,16,17,max-1,max,random; file-record lists; all diagnostic sub-functions plus '
        'unassigned ones; exception codes 0..255): (a) real encode() vs model vs spec bytes, (b) real decode of the '
        'spec encoding vs model vs the spec message, (c) truncated/extended/mutated PDUs: real decode outcome vs model; '
        'non-trivial = message with at least one non-zero field; distinct by canonical JSON')

SD, CD = ServerDecoder(), ClientDecoder()


def classify(direction, m, what):
    """known findings of C01 (see known_findings.json)"""
    t = m['t']
    if direction == 'resp' and t == 'readFifo':
        return 'fifo-response-count'
    if direction == 'resp' and t == 'readFileRecord':
        return 'read-file-record-response-layout'
    if direction == 'req' and t == 'diag' and what == 'dec' and m['message']['k'] != 'int' and \
            not (m['message']['k'] == 'list' and len(m['message']['ws']) == 1):
        return 'diag-request-multiword'       # only a request whose data is not exactly one word
    return None


def devinfo_fits(m):
    """a device-identification response is a message of the protocol only if its objects fit one PDU"""
    return 'information' not in m or sum(2 + len(v) for _, vs in m['information'] for v in vs) <= 246


def nontrivial(m):
    return any(v not in (0, [], False, None, '') for k, v in m.items() if k != 't')


def impl_encode(obj):
    try:
        return list(bytes([obj.function_code]) + obj.encode())
    except Exception as e:  # noqa
        return {'err': errkind(e)}


def impl_dec_req(bs):
    try:
        o = SD.decode(bytes(bs))
    except Exception as e:  # noqa
        return {'err': errkind(e)}
    if o is None:
        return {'err': 'modbusexc'}
    j = pdus.req_to_json(o)
    pdus.edit_in_place(o)         # whatever the caller does with the object afterwards must not reach into later decodes
    return j


def impl_dec_resp(bs):
    try:
        o = CD.decode(bytes(bs))
    except Exception as e:  # noqa
        return {'raised': errkind(e)}
    if o is None:
        return None
    j = pdus.resp_to_json(o)
    pdus.edit_in_place(o)
    return j


def model_enc(ans):
    out = ans['out']
    return [ans['fc']] + out if isinstance(out, list) else out


def mutate(rng, bs):
    bs = list(bs)
    r = rng.random()
    if r < 0.35 and len(bs) > 1:
        return bs[:rng.randrange(1, len(bs))]
    if r < 0.55:
        return bs + [rng.randrange(256) for _ in range(rng.choice([1, 2, 3, 7]))]
    if r < 0.9 and len(bs) > 1:
        i = rng.randrange(1, len(bs))
        bs[i] = rng.choice([0, 1, 2, 0xFF, bs[i] ^ (1 << rng.randrange(8))])
        return bs
    return [rng.randrange(256) for _ in range(rng.randrange(1, 12))]


def morph(old, fresh):
    """make the message object `old` (which has been encoded before) carry the field values of `fresh`: list fields of equal
    length are overwritten IN PLACE (the list object stays), everything else is assigned"""
    import copy
    for k, v in list(fresh.__dict__.items()):
        ov = old.__dict__.get(k)
        if isinstance(v, list) and isinstance(ov, list) and ov is not v and len(ov) == len(v):
            ov[:] = v
        else:
            old.__dict__[k] = copy.copy(v)


def edit_lists(obj):
    """flip the lowest bit of the first and last element of every flat list field, IN PLACE (values stay in range, lengths stay)"""
    done = False
    for k, v in obj.__dict__.items():
        if isinstance(v, list) and v and all(isinstance(x, (bool, int)) for x in v):
            for i in {0, len(v) - 1}:
                v[i] = (not v[i]) if isinstance(v[i], bool) else (v[i] ^ 1)
            done = True
    return done


_USED = {}


def check_batch(ctx, rep, direction, msgs, with_mutants=True):
    enc_dir, dec_dir = ('enc_req', 'dec_req') if direction == 'req' else ('enc_resp', 'dec_resp')
    mk = msggen.mk_req if direction == 'req' else msggen.mk_resp
    impl_dec = impl_dec_req if direction == 'req' else impl_dec_resp
    a1 = ctx.driver.query([{'op': 'codec', 'dir': enc_dir, 'msg': m} for m in msgs])
    streams = []
    for m, a in zip(msgs, a1):
        case = {'kind': 'pdu', 'dir': direction, 'msg': m}
        rep.case(case, nontrivial=nontrivial(m), tag=direction + ':' + m['t'])
        rep.sample(case, cap=4)
        fresh = mk(m)
        used = _USED.get((direction, type(fresh)))
        if used is not None:
            morph(used, fresh)
        ie = impl_encode(fresh)
        me = model_enc(a)
        rep.compare(case, ie, me, 'encode() vs Impl.enc')
        if used is not None:
            # the PDU is a function of the field values the message carries NOW: an object that was encoded before with other
            # values and has since been edited (lists in place) encodes like a new one
            iu = impl_encode(used)
            if iu != ie:
                rep.violation('a message object that was encoded before and then edited does not encode the PDU of its current field values',
                              case, finding=classify(direction, m, 'enc'), used_object=iu, fresh_object=ie)
        _USED[(direction, type(fresh))] = fresh
        # ... and the object just encoded, edited in place (same lists, same lengths), against a new object edited the same way
        if isinstance(ie, list):
            twin = mk(m)
            if edit_lists(twin) and edit_lists(fresh):
                ea, eb = impl_encode(fresh), impl_encode(twin)
                if ea != eb:
                    rep.violation('a message object that was encoded before and then edited does not encode the PDU of its current field values',
                                  case, finding=classify(direction, m, 'enc'), used_object=ea, fresh_object=eb, edit='lowest bit of the first and last list element')
        spec = [a['fc']] + a['spec']
        if ie != spec and devinfo_fits(m):
            rep.violation('encoded PDU differs from the specification', case, finding=classify(direction, m, 'enc'),
                          impl=ie, spec=spec)
        elif m['t'] == 'readDeviceInfo' and direction == 'resp' and isinstance(ie, list) and len(ie) > 253:
            # objects that do not fit: which ones are held back is C20's business, but no PDU may exceed the 253 bytes of
            # the specification
            rep.violation('a Read Device Identification response PDU is longer than 253 bytes', case,
                          finding=classify(direction, m, 'enc'), length=len(ie))
        streams.append(spec)
    # decode the SPEC encoding with the real decoder and with the model
    a2 = ctx.driver.query([{'op': 'codec', 'dir': dec_dir, 'bytes': s} for s in streams])
    for m, a, s, d in zip(msgs, a1, streams, a2):
        case = {'kind': 'pdu', 'dir': direction, 'msg': m, 'bytes': s}
        got = impl_dec(s)
        rep.compare(case, got, d['out'], 'decode(spec bytes) vs Impl.dec')
        if got != a['norm'] and devinfo_fits(m):
            rep.violation('spec-conformant PDU does not decode to the message it carries', case,
                          finding=classify(direction, m, 'dec'), impl=got, spec=a['norm'])
    if with_mutants:
        rng = ctx.rng
        muts = [mutate(rng, s) for s in streams for _ in range(2)]
        a3 = ctx.driver.query([{'op': 'codec', 'dir': dec_dir, 'bytes': s} for s in muts])
        for s, d in zip(muts, a3):
            case = {'kind': 'pdu-mutant', 'dir': direction, 'bytes': s}
            got = impl_dec(s)
            rep.case(case, nontrivial=isinstance(got, dict) and 't' in got, tag=direction + ':mutant')
            rep.compare(case, got, d['out'], 'decode(mutated bytes) vs Impl.dec')


def sweep_msgs():
    """every fixed-format field at its boundary values, other fields at 0 (both directions)"""
    reqs, resps = [], []
    for v in msggen.U16 + [2, 125, 126, 2000, 2001, 1968, 123]:
        for t in ('readCoils', 'readDiscrete', 'readHolding', 'readInput'):
            reqs += [{'t': t, 'address': v, 'count': 0}, {'t': t, 'address': 0, 'count': v}]
        reqs += [{'t': 'writeRegister', 'address': v, 'value': 0}, {'t': 'writeRegister', 'address': 0, 'value': v},
                 {'t': 'maskWrite', 'address': v, 'and_mask': 0, 'or_mask': 0}, {'t': 'maskWrite', 'address': 0, 'and_mask': v, 'or_mask': 0},
                 {'t': 'maskWrite', 'address': 0, 'and_mask': 0, 'or_mask': v}, {'t': 'readFifo', 'address': v},
                 {'t': 'writeCoil', 'address': v, 'word': 0xFF00}, {'t': 'writeCoil', 'address': v, 'word': 0}]
        resps += [{'t': 'writeRegister', 'address': v, 'value': 0}, {'t': 'writeRegister', 'address': 0, 'value': v},
                  {'t': 'writeCoils', 'address': v, 'count': 0}, {'t': 'writeCoils', 'address': 0, 'count': v},
                  {'t': 'writeRegisters', 'address': v, 'count': 0}, {'t': 'writeRegisters', 'address': 0, 'count': v},
                  {'t': 'maskWrite', 'address': v, 'and_mask': 0, 'or_mask': 0}, {'t': 'maskWrite', 'address': 0, 'and_mask': v, 'or_mask': 0},
                  {'t': 'maskWrite', 'address': 0, 'and_mask': 0, 'or_mask': v}, {'t': 'writeCoil', 'address': v, 'value': 1},
                  {'t': 'getCommEventCounter', 'status': True, 'count': v}]
    for sub in msggen.DIAG_SUBS + [5, 6, 7, 8, 9, 22, 255, 256]:
        reqs.append({'t': 'diag', 'sub': sub, 'message': {'k': 'int', 'n': 0xA537}})
        resps.append({'t': 'diag', 'sub': sub, 'message': {'k': 'list', 'ws': [0xA537]}})
    for code in range(256):
        resps.append({'t': 'exception', 'fc': 1 + code % 127, 'code': code})
    for n in (0, 1, 7, 8, 9, 15, 16, 17, 1999, 2000):
        resps.append({'t': 'readCoils', 'bits': [1] * n})
        resps.append({'t': 'readDiscrete', 'bits': [(i * 7) % 3 == 0 and 1 or 0 for i in range(n)]})
    return reqs, resps


def decoder_isolation(rep):
    """an application registers vendor classes (a function code, sub-functions under 0x08 and 0x2B) on ITS decoder: every
    other decoder of the process — the ones this harness decodes with, created earlier, and fresh ones — must go on decoding
    the standard PDUs to the standard messages"""
    from pymodbus.factory import ServerDecoder, ClientDecoder
    from pymodbus.pdu import ModbusRequest, ModbusResponse

    def vendor(base, fc, sub=None):
        ns = {'function_code': fc, 'encode': lambda self: b'', 'decode': lambda self, data: None,
              '__init__': lambda self, *a, **kw: base.__init__(self)}
        if sub is not None:
            ns['sub_function_code'] = sub
        return type('Vendor%s_%02x_%s' % (base.__name__, fc, sub), (base,), ns)
    keep = []
    for dec_cls, base in ((ServerDecoder, ModbusRequest), (ClientDecoder, ModbusResponse)):
        mine = dec_cls()
        for fc, sub in ((0x08, 0x0000), (0x08, 0x000E), (0x2B, 0x0E), (0x03, None), (0x41, None)):
            try:
                mine.register(vendor(base, fc, sub))
            except Exception as e:  # noqa
                rep.notes.append('decoder_isolation: register(%#x, %s) raised %s' % (fc, sub, errkind(e)))
        keep.append(mine)
    probes = [('req', [8, 0, 0, 0xA5, 0x37], 'ReturnQueryDataRequest'), ('req', [3, 0, 1, 0, 2], 'ReadHoldingRegistersRequest'),
              ('req', [0x2B, 0x0E, 1, 0], 'ReadDeviceInformationRequest'),
              ('resp', [8, 0, 0, 0xA5, 0x37], 'ReturnQueryDataResponse'), ('resp', [3, 2, 0, 5], 'ReadHoldingRegistersResponse'),
              ('resp', [8, 0, 0x0E, 0, 1], 'ReturnSlaveMessageCountResponse')]
    for which, decs in (('created before the registration', (SD, CD)), ('created after the registration', (ServerDecoder(), ClientDecoder()))):
        for d, pdu, want in probes:
            dec = decs[0] if d == 'req' else decs[1]
            try:
                got = type(dec.decode(bytes(pdu))).__name__
            except Exception as e:  # noqa
                got = 'raised ' + errkind(e)
            rep.case(('isolation', which, d, tuple(pdu)), nontrivial=True, tag='decoder-isolation')
            if got != want:
                rep.violation('registering vendor classes on one decoder changed what ANOTHER decoder (%s) makes of a standard PDU' % which,
                              {'kind': 'decoder-isolation', 'dir': d, 'bytes': pdu}, got=got, expected=want)
    return keep


def event_bytes(ctx, rep):
    """pymodbus/events.py against Model/Events.lean, EXHAUSTIVELY (every flag combination, every byte value).
    Correspondence only: the event classes are not message classes of the property.  RemoteReceiveEvent.encode as coded
    puts the flags one bit too low (Props.C01.event_recv_encode_as_coded); a repaired encode (the specification's byte)
    is accepted as well, so that repairing it raises no alarm."""
    import itertools
    from pymodbus import events as ev
    kinds = {'recv': (ev.RemoteReceiveEvent, ['overrun', 'listen', 'broadcast']),
             'send': (ev.RemoteSendEvent, ['read', 'slave_abort', 'slave_busy', 'slave_nak', 'write_timeout', 'listen']),
             'listen': (ev.EnteredListenModeEvent, []), 'restart': (ev.CommunicationRestartEvent, [])}
    qs, impl = [], []
    for kind, (cls, names) in kinds.items():
        for flags in itertools.product([0, 1], repeat=len(names)):
            qs.append({'op': 'event', 'dir': 'enc', 'kind': kind, 'flags': list(flags)})
            try:
                obj = cls(**dict(zip(names, map(bool, flags))))
                first = list(obj.encode())
                impl.append({'bytes': first} if list(obj.encode()) == first else {'err': 'encode-not-pure'})
            except Exception as e:  # noqa
                impl.append({'err': errkind(e)})
        for v in range(256):
            qs.append({'op': 'event', 'dir': 'dec', 'kind': kind, 'byte': v})
            try:
                obj = cls()
                obj.decode(bytes([v]))
                impl.append({'kind': kind, 'flags': [bool(getattr(obj, n)) for n in names]})
            except Exception as e:  # noqa
                impl.append({'err': errkind(e)})
    repaired = 0
    for q, a, m in zip(qs, impl, ctx.driver.query(qs)):
        case = {'kind': 'event', 'q': q}
        rep.case(case, nontrivial=True, tag='event-' + q['dir'])
        if q['dir'] == 'enc' and q['kind'] == 'recv' and a != m:
            o, l, b = q['flags']
            if a == {'bytes': [16 * o + 32 * l + 64 * b + 128]}:
                repaired += 1
                rep.traces_validated += 1
                continue
        rep.compare(case, a, m, 'event byte vs Model.Events')
    rep.notes.append('event bytes (events.py): %d encodes and decodes, exhaustive%s' % (
        len(qs), '; RemoteReceiveEvent.encode gives the specification\'s byte (repaired) for %d flag sets' % repaired if repaired else ''))


def event_log(ctx, rep, n):
    """ModbusControlBlock.addEvent / getEvents / clearEvents (the singleton the FC 12 reply reads) against Events.runLog:
    histories of 0..200 addEvent calls; the log is emptied again afterwards."""
    from pymodbus import events as ev
    from pymodbus.device import ModbusControlBlock
    rng = ctx.rng
    mcb = ModbusControlBlock()
    names = {'recv': (ev.RemoteReceiveEvent, ['overrun', 'listen', 'broadcast']),
             'send': (ev.RemoteSendEvent, ['read', 'slave_abort', 'slave_busy', 'slave_nak', 'write_timeout', 'listen']),
             'listen': (ev.EnteredListenModeEvent, []), 'restart': (ev.CommunicationRestartEvent, [])}
    hists = []
    for i in range(n):
        ln = rng.choice([0, 1, 2, 63, 64, 65, 66, 130, rng.randrange(0, 201)])
        h = []
        for _ in range(ln):
            k = rng.choice(['recv', 'send', 'send', 'listen', 'restart'])
            h.append({'kind': k, 'flags': [rng.randrange(2) for _ in names[k][1]]})
        hists.append(h)
    answers = ctx.driver.query([{'op': 'eventlog', 'events': h} for h in hists])
    for h, m in zip(hists, answers):
        case = {'kind': 'eventlog', 'events': h}
        rep.case(case, nontrivial=len(h) > 0, tag='eventlog')
        saved = mcb.Counter.Event
        try:
            mcb.clearEvents()
            for e in h:
                cls, fl = names[e['kind']]
                mcb.addEvent(cls(**dict(zip(fl, map(bool, e['flags'])))))
            got = list(mcb.getEvents())
            impl = {'bytes': got, 'n': len(got), 'counted': (mcb.Counter.Event - saved) % 65536 if isinstance(mcb.Counter.Event, int) else None}
        except Exception as e:  # noqa
            impl = {'err': errkind(e)}
        finally:
            mcb.clearEvents()
            mcb.Counter.Event = saved
        if 'err' in m or 'driver_error' in m:
            rep.compare(case, impl, m, 'event log vs Events.runLog')
            continue
        # RemoteReceiveEvent.encode: as coded or repaired (see event_bytes); compare modulo that one encoder
        want = dict(m, counted=len(h) % 65536)
        if impl != want and 'bytes' in impl and len(impl['bytes']) == len(want['bytes']):
            newest_first = list(reversed(h))[:64]
            patched = [(16 * e['flags'][0] + 32 * e['flags'][1] + 64 * e['flags'][2] + 128) if e['kind'] == 'recv' else b
                       for e, b in zip(newest_first, want['bytes'])]
            if impl['bytes'] == patched:
                rep.traces_validated += 1
                continue
        rep.compare(case, impl, want, 'event log vs Events.runLog')


def run(ctx):
    rep = Report(RULE)
    rng = ctx.rng
    event_bytes(ctx, rep)
    event_log(ctx, rep, ctx.scale(300, 6000))
    _vendor_decoders = decoder_isolation(rep)      # kept alive: everything decoded below must not be affected either
    for c in ctx.corpus():
        check_batch(ctx, rep, c['dir'], [c['msg']], with_mutants=False)
    reqs, resps = sweep_msgs()
    check_batch(ctx, rep, 'req', reqs)
    check_batch(ctx, rep, 'resp', resps)
    check_batch(ctx, rep, 'resp', msggen.devinfo_boundary(rng), with_mutants=False)
    total = ctx.scale(6000, 300000)
    done = 0
    while done < total and ctx.time_left() > 20:
        check_batch(ctx, rep, 'req', [msggen.gen_req(rng) for _ in range(500)])
        check_batch(ctx, rep, 'resp', [msggen.gen_resp(rng) for _ in range(500)])
        done += 1000
    return rep


def replay(ctx, payload):
    rep = Report(RULE)
    c = payload['case']
    if c['kind'] == 'decoder-isolation':
        decoder_isolation(rep)
    elif c['kind'] == 'pdu':
        check_batch(ctx, rep, c['dir'], [c['msg']], with_mutants=False)
    elif c['kind'] == 'event':
        event_bytes(ctx, rep)
    elif c['kind'] == 'eventlog':
        return 'replay of an event-log history: re-run the check with the recorded seed (the case lists the addEvent calls)'
    else:
        d = ctx.driver.query([{'op': 'codec', 'dir': 'dec_req' if c['dir'] == 'req' else 'dec_resp', 'bytes': c['bytes']}])[0]
        got = (impl_dec_req if c['dir'] == 'req' else impl_dec_resp)(c['bytes'])
        rep.compare(c, got, d['out'], 'replay')
    unknown = [v for v in rep.violations if v['finding'] is None]
    if unknown:
        return unknown[0]['what']
    if rep.disagreements:
        return 'model/implementation disagreement'
    return None
