"""Re-extract the introspectable tables/constants of the imported pymodbus (from /repo's working
tree) into lean/Pymodbus/Generated/Tables.lean.  The Props modules prove `Generated.X = model's X`
by `decide`, so a changed table breaks a proof obligation on the next run."""
import os

VERIF = os.path.dirname(os.path.dirname(os.path.abspath(__file__)))
OUT = os.path.join(VERIF, 'lean', 'Pymodbus', 'Generated', 'Tables.lean')


def lean_list(xs):
    return '[' + ', '.join(xs) + ']'


def lean_str(s):
    return '"' + s.replace('\\', '\\\\').replace('"', '\\"') + '"'


def collect():
    out = []

    def d(name, typ, val):
        out.append('def %s : %s := %s' % (name, typ, val))

    from pymodbus.interfaces import IModbusSlaveContext
    fx = IModbusSlaveContext._IModbusSlaveContext__fx_mapper
    d('fxMapper', 'List (Nat × String)', lean_list('(%d, %s)' % (k, lean_str(v)) for k, v in sorted(fx.items())))

    from pymodbus.constants import Defaults, ModbusStatus
    d('zeroModeDefault', 'Bool', 'true' if Defaults.ZeroMode else 'false')
    d('defaultUnitId', 'Nat', str(int(Defaults.UnitId)))
    d('statusOn', 'Nat', str(int(ModbusStatus.On)))
    d('statusOff', 'Nat', str(int(ModbusStatus.Off)))

    from pymodbus.constants import DeviceInformation, MoreData
    from pymodbus.mei_message import ReadDeviceInformationRequest
    d('devInfoCodes', 'List Nat', lean_list(str(int(x)) for x in (
        DeviceInformation.Basic, DeviceInformation.Regular, DeviceInformation.Extended, DeviceInformation.Specific)))
    d('moreDataNothing', 'Nat', str(int(MoreData.Nothing)))
    d('moreDataKeepReading', 'Nat', str(int(MoreData.KeepReading)))
    d('meiFunctionCode', 'Nat', str(int(ReadDeviceInformationRequest.function_code)))
    d('meiSubFunctionCode', 'Nat', str(int(ReadDeviceInformationRequest.sub_function_code)))

    # C19: the word-count table of the payload builder/decoder and the Endian format characters
    from pymodbus import payload as _payload
    from pymodbus.constants import Endian
    d('payloadWC', 'List (String × Nat)',
      lean_list('(%s, %d)' % (lean_str(str(k)), int(v)) for k, v in sorted(_payload.WC.items())))
    d('endianBig', 'String', lean_str(str(Endian.Big)))
    d('endianLittle', 'String', lean_str(str(Endian.Little)))

    from pymodbus.factory import ServerDecoder, ClientDecoder
    for nm, dec in (('server', ServerDecoder()), ('client', ClientDecoder())):
        cls = type(dec).__name__
        look = getattr(dec, '_%s__lookup' % cls)
        sub = getattr(dec, '_%s__sub_lookup' % cls)
        d(nm + 'Table', 'List (Nat × String)', lean_list('(%d, %s)' % (k, lean_str(v.__name__)) for k, v in sorted(look.items())))
        rows = []
        for fc in sorted(sub):
            for sc in sorted(sub[fc]):
                rows.append('(%d, %d, %s)' % (fc, sc, lean_str(sub[fc][sc].__name__)))
        d(nm + 'SubTable', 'List (Nat × Nat × String)', lean_list(rows))
        sizes = []
        for k, v in sorted(look.items()):
            if hasattr(v, '_rtu_frame_size'):
                sizes.append('(%d, 0, %d)' % (k, v._rtu_frame_size))
            elif hasattr(v, '_rtu_byte_count_pos'):
                sizes.append('(%d, 1, %d)' % (k, v._rtu_byte_count_pos))
            else:
                sizes.append('(%d, 2, 0)' % k)
        d(nm + 'RtuRule', 'List (Nat × Nat × Nat)', lean_list(sizes))
    from pymodbus.pdu import ExceptionResponse, ModbusExceptions
    d('exceptionRtuSize', 'Nat', str(ExceptionResponse._rtu_frame_size))
    d('exceptionOffset', 'Nat', str(ExceptionResponse.ExceptionOffset))
    d('excCodes', 'List (String × Nat)', lean_list('(%s, %d)' % (lean_str(k), v) for k, v in sorted(
        (k, v) for k, v in vars(ModbusExceptions).items() if isinstance(v, int) and not k.startswith('_'))))

    # C15: the lock discipline of the synchronous transaction manager, read off the source by ast
    li = lock_scope_info()
    d('lockScope', 'String', lean_str(li['scope']))
    d('lockCtor', 'String', lean_str(li['ctor']))
    d('lockAssignments', 'Nat', str(li['assignments']))
    d('lockAssignedIn', 'String', lean_str(li['where']))
    d('lockReferences', 'Nat', str(li['references']))
    ci = client_lock_info()
    d('clientExecuteViaManager', 'Bool', 'true' if ci['via_manager'] else 'false')
    d('clientLockScope', 'String', lean_str(ci['scope']))
    d('clientLockCtor', 'String', lean_str(ci['ctor']))
    d('clientLockAssignments', 'Nat', str(ci['assignments']))
    d('clientLockAssignedIn', 'String', lean_str(ci['where']))
    d('clientLockReferences', 'Nat', str(ci['references']))
    # C15: OBSERVED, not read off the syntax: a real retrying client whose first transmission gets no answer, with the
    # locks instrumented at birth — is a lock given up between the two transmissions (during the back-off)?
    bo = backoff_observation()
    d('backoffObserved', 'Bool', 'true' if bo['observed'] else 'false')
    d('backoffClientLockReleases', 'Nat', str(bo['client']))
    d('backoffManagerLockReleases', 'Nat', str(bo['manager']))

    # C09/C10/C12/C17: the structure of the seven server front-ends, read off the source by ast
    d('serverStructure', 'List (String × Bool × String × Bool × Bool × Bool × Bool)',
      lean_list('(%s, %s, %s, %s, %s, %s, %s)' % (lean_str(r[0]), 'true' if r[1] else 'false', lean_str(r[2]),
                                               *('true' if x else 'false' for x in r[3:])) for r in server_structure()))
    # C08/C13/C14: the per-framing constants of the sync transaction manager (introspected on stub clients; the
    # minimum header read sizes of `_recv` are literals inside the method body: read by ast)
    d('txnSizes', 'List (String × Nat × Nat × Nat)', lean_list('(%s, %d, %d, %d)' % (lean_str(n), b, e, m) for n, b, e, m in txn_sizes()))
    from pymodbus.constants import Defaults as _D
    d('defaultRetries', 'Nat', str(_D.Retries))
    d('defaultRetryOnEmpty', 'Bool', 'true' if _D.RetryOnEmpty else 'false')
    d('defaultRetryOnInvalid', 'Bool', 'true' if _D.RetryOnInvalid else 'false')
    d('defaultReadSize', 'Nat', str(_D.ReadSize))
    import pymodbus.server.sync as _ss
    # the receive buffer socketserver uses for one datagram of the sync UDP server
    d('syncUdpMaxPacket', 'Nat', str(_ss.ModbusUdpServer.max_packet_size))
    # C16: state that must be per connection - every async client protocol object gets its own framer (receive
    # buffer) and its own transaction manager when it is built the way the factories build it (no framer argument)
    d('asyncPerInstance', 'List (String × Bool × Bool × Bool)',
      lean_list('(%s, %s, %s, %s)' % (lean_str(n), *('true' if x else 'false' for x in r)) for n, r in async_per_instance()))
    d('asyncInitFramerReadsSelf', 'Bool', 'true' if async_init_reads_self_framer() else 'false')
    # C16: which transaction manager (matching by transaction id, or FIFO) each way of building a protocol object gives
    d('asyncManagerKinds', 'List (String × String)', lean_list('(%s, %s)' % (lean_str(a), lean_str(b)) for a, b in async_manager_kinds()))
    # C16: what ModbusClientProtocol.dataReceived passes as `unit=` to the framer: the literal 0 (accept the unit of the
    # buffered frame) or something computed (before 0a3302f: read off the chunk)
    d('asyncDataReceivedUnit', 'String', lean_str(async_data_received_unit()))
    # C16: OBSERVED transaction id allocation of the real managers: (manager, tid before, ids pending, ids issued by
    # three consecutive getNextTID calls with those ids staying pending)
    d('asyncTidAlloc', 'List (String × Nat × List Nat × List Nat)',
      lean_list('(%s, %d, %s, %s)' % (lean_str(k), t, lean_list(str(x) for x in pend), lean_list(str(x) for x in got))
                for k, t, pend, got in async_tid_alloc()))
    # C16: OBSERVED - an `execute` whose sending fails (request that cannot be encoded / transport.write raising)
    # leaves nothing in the transaction table and raises to the caller: (manager, where, entries afterwards, raised)
    d('asyncFailedSend', 'List (String × String × Nat × Bool)',
      lean_list('(%s, %s, %d, %s)' % (lean_str(k), lean_str(w), n, 'true' if r else 'false') for k, w, n, r in async_failed_send()))
    # events.py / ModbusControlBlock event log, OBSERVED: every flag combination encoded by the real classes, and the length of
    # the log after 100 addEvent calls (the log is emptied again)
    ev_rows, cap = event_observation()
    d('eventEncodeTable', 'List (String × List Nat × List Nat)',
      lean_list('(%s, %s, %s)' % (lean_str(k), lean_list(str(x) for x in fl), lean_list(str(x) for x in bs)) for k, fl, bs in ev_rows))
    d('eventLogCap', 'Nat', str(cap))
    return out


def event_observation():
    import itertools
    from pymodbus import events as ev
    from pymodbus.device import ModbusControlBlock
    kinds = [('recv', ev.RemoteReceiveEvent, ['overrun', 'listen', 'broadcast']),
             ('send', ev.RemoteSendEvent, ['read', 'slave_abort', 'slave_busy', 'slave_nak', 'write_timeout', 'listen']),
             ('listen', ev.EnteredListenModeEvent, []), ('restart', ev.CommunicationRestartEvent, [])]
    rows = []
    for k, cls, names in kinds:
        for flags in itertools.product([0, 1], repeat=len(names)):
            rows.append((k, list(flags), list(cls(**dict(zip(names, map(bool, flags)))).encode())))
    mcb = ModbusControlBlock()
    saved = mcb.Counter.Event
    try:
        mcb.clearEvents()
        for _ in range(100):
            mcb.addEvent(ev.CommunicationRestartEvent())
        cap = len(mcb.getEvents())
    finally:
        mcb.clearEvents()
        mcb.Counter.Event = saved
    return rows, cap


def async_failed_send():
    import warnings
    with warnings.catch_warnings():
        warnings.simplefilter('ignore')
        from pymodbus.client.asynchronous import twisted as T
    from pymodbus.register_write_message import WriteSingleRegisterRequest
    from pymodbus.register_read_message import ReadHoldingRegistersRequest

    class _Tr(object):
        def __init__(self, fail):
            self.fail = fail

        def write(self, data, addr=None):
            if self.fail:
                raise IOError('injected write failure')

    rows = []
    for kind, mk in (('dict', lambda: T.ModbusClientProtocol()), ('fifo', lambda: T.ModbusSerClientProtocol())):
        for where in ('encode', 'write'):
            p = mk()
            p.transport = _Tr(where == 'write')
            p.connectionMade()
            req = WriteSingleRegisterRequest(1, 70000, unit=1) if where == 'encode' else ReadHoldingRegistersRequest(1, 1, unit=1)
            raised = False
            try:
                p.execute(req)
            except Exception:  # noqa
                raised = True
            rows.append((kind, where, len(list(p.transaction)), raised))
    return rows


def async_tid_alloc():
    """run the real DictTransactionManager / FifoTransactionManager: set `tid`, register deferred stand-ins under the
    given ids, call getNextTID three times (registering each id issued, as execute does)"""
    from pymodbus.transaction import DictTransactionManager, FifoTransactionManager
    rows = []
    cases = [(0, []), (5, [6, 7]), (65534, [65535, 0]), (65535, [1]), (9, [10, 11, 12, 14])]
    for kind, cls in (('dict', DictTransactionManager), ('fifo', FifoTransactionManager)):
        for tid, pend in cases:
            m = cls(None)
            m.tid = tid
            for k in pend:
                m.addTransaction(object(), k)
            got = []
            for _ in range(3):
                t = m.getNextTID()
                got.append(int(t))
                m.addTransaction(object(), t)
            rows.append((kind, tid, pend, got))
    return rows


def async_data_received_unit():
    """observed, not read off the syntax: what ModbusClientProtocol.dataReceived hands the framer as `unit` — on a recording
    framer, for a whole reply from unit 1, for a first piece shorter than the header and for a later piece whose bytes
    would read as unit 3.  'const:0' when it is 0 every time (accept the unit of the buffered frame), otherwise
    'computed:<the units seen>' (before 0a3302f: read off the chunk)"""
    import warnings
    with warnings.catch_warnings():
        warnings.simplefilter('ignore')
        from pymodbus.client.asynchronous import twisted as T
    seen = []

    class Recorder(object):
        def __init__(self, inner):
            self.inner = inner

        def __getattr__(self, name):
            return getattr(self.inner, name)

        def processIncomingPacket(self, data, callback, unit=None, **kw):
            seen.append(unit[0] if isinstance(unit, (list, tuple)) and len(unit) == 1 else unit)

    reply = bytes([0, 1, 0, 0, 0, 5, 1, 3, 2, 0, 77])
    for chunks in ([reply], [reply[:1], reply[1:]]):
        p = T.ModbusClientProtocol()
        p.framer = Recorder(p.framer)
        for c in chunks:
            p.dataReceived(c)
    if seen and all(u == 0 for u in seen):
        return 'const:0'
    return 'computed:' + repr(seen)


def async_per_instance():
    """(how the object is built, distinct framer objects, distinct transaction managers, distinct buffers after one
    of them received a partial frame) for two objects built without a framer argument"""
    import warnings
    with warnings.catch_warnings():
        warnings.simplefilter('ignore')
        from pymodbus.client.asynchronous import twisted as T
    rows = []
    builders = [('ModbusClientProtocol', lambda: T.ModbusClientProtocol()),
                ('ModbusTcpClientProtocol', lambda: T.ModbusTcpClientProtocol()),
                ('ModbusSerClientProtocol', lambda: T.ModbusSerClientProtocol()),
                ('ModbusUdpClientProtocol', lambda: T.ModbusUdpClientProtocol()),
                ('ModbusClientFactory.buildProtocol', lambda: T.ModbusClientFactory().buildProtocol(None))]
    for name, mk in builders:
        a, b = mk(), mk()
        a.framer.addToFrame(b'\x00\x01\x00')
        rows.append((name, (a.framer is not b.framer, a.transaction is not b.transaction,
                            len(b.framer._buffer) == 0)))
        a.framer.resetFrame()
    return rows


def async_manager_kinds():
    """(how the protocol object is built, class of its transaction manager): the socket framer - given as an instance,
    as a class, or by default - must come with the dictionary-keyed manager, any other framer with the FIFO one"""
    import warnings
    with warnings.catch_warnings():
        warnings.simplefilter('ignore')
        from pymodbus.client.asynchronous import twisted as T
    from pymodbus.framer.socket_framer import ModbusSocketFramer
    from pymodbus.framer.rtu_framer import ModbusRtuFramer
    from pymodbus.framer.ascii_framer import ModbusAsciiFramer
    from pymodbus.factory import ClientDecoder
    builders = [('default', lambda: T.ModbusClientProtocol()),
                ('socket-instance', lambda: T.ModbusClientProtocol(ModbusSocketFramer(ClientDecoder()))),
                ('socket-class', lambda: T.ModbusClientProtocol(framer=ModbusSocketFramer)),
                ('tcp-default', lambda: T.ModbusTcpClientProtocol()),
                ('tcp-socket-class', lambda: T.ModbusTcpClientProtocol(framer=ModbusSocketFramer)),
                ('factory', lambda: T.ModbusClientFactory().buildProtocol(None)),
                ('rtu-instance', lambda: T.ModbusClientProtocol(ModbusRtuFramer(ClientDecoder()))),
                ('rtu-class', lambda: T.ModbusClientProtocol(framer=ModbusRtuFramer)),
                ('ascii-class', lambda: T.ModbusClientProtocol(framer=ModbusAsciiFramer)),
                ('serial-default', lambda: T.ModbusSerClientProtocol()),
                ('serial-rtu-class', lambda: T.ModbusSerClientProtocol(framer=ModbusRtuFramer))]
    return [(n, type(mk().transaction).__name__) for n, mk in builders]


def async_init_reads_self_framer():
    """ast: does the right-hand side of the first `self.framer = ...` in ModbusClientProtocol.__init__ mention
    `self.framer` (i.e. can a class-level framer object leak into the instance)?"""
    import ast
    import pymodbus.client.asynchronous.twisted as T
    tree = ast.parse(open(T.__file__).read())
    init = [f for c in tree.body if isinstance(c, ast.ClassDef) and c.name == 'ModbusClientProtocol'
            for f in c.body if isinstance(f, ast.FunctionDef) and f.name == '__init__'][0]
    for st in ast.walk(init):
        if isinstance(st, ast.Assign) and any(isinstance(t, ast.Attribute) and t.attr == 'framer' and
                                              getattr(t.value, 'id', '') == 'self' for t in st.targets):
            return any(isinstance(n, ast.Attribute) and n.attr == 'framer' and getattr(n.value, 'id', '') == 'self'
                       for n in ast.walk(st.value))
    raise RuntimeError('ModbusClientProtocol.__init__ does not assign self.framer')


def txn_sizes():
    """(framer, base_adu_size, exception ADU length, min_size of the first read) for the four stream framings"""
    import ast
    import pymodbus.transaction as T
    from pymodbus.framer.socket_framer import ModbusSocketFramer
    from pymodbus.framer.rtu_framer import ModbusRtuFramer
    from pymodbus.framer.ascii_framer import ModbusAsciiFramer
    from pymodbus.framer.binary_framer import ModbusBinaryFramer
    tree = ast.parse(open(T.__file__).read())
    recv = [f for c in tree.body if isinstance(c, ast.ClassDef) and c.name == 'ModbusTransactionManager'
            for f in c.body if isinstance(f, ast.FunctionDef) and f.name == '_recv'][0]
    mins = {}
    for n in ast.walk(recv):
        if isinstance(n, ast.If) and isinstance(n.test, ast.Call) and getattr(n.test.func, 'id', '') == 'isinstance' \
                and len(n.body) == 1 and isinstance(n.body[0], ast.Assign) \
                and getattr(n.body[0].targets[0], 'id', '') == 'min_size' and isinstance(n.body[0].value, ast.Constant):
            mins[ast.unparse(n.test.args[1])] = n.body[0].value.value
    rows = []
    for name, cls in (('tcp', ModbusSocketFramer), ('rtu', ModbusRtuFramer), ('ascii', ModbusAsciiFramer), ('binary', ModbusBinaryFramer)):
        class _C:
            pass
        c = _C()
        c.framer = cls(None, c)
        m = T.ModbusTransactionManager(c)
        rows.append((name, m.base_adu_size, m._calculate_exception_length(), mins.get(cls.__name__, 0)))
    return rows


def server_structure():
    """per front-end, read off the SOURCE (ast; nothing is executed): (name, does the receive method append unit 0 to the
    accepted units when broadcast is enabled, what its catch-all does with an exception out of the receive call
    ('close' = ends the connection/handler, 'reset' = resets the framer and goes on), does the send path count bus
    messages, is the receive call gated by listen-only mode, is sending gated by should_respond, does execute copy
    transaction id and unit id from the request to the response)"""
    import ast
    import pymodbus.server.sync as ss
    import pymodbus.server.async_io as sa
    import pymodbus.server.asynchronous as st
    trees = {}

    def klass(mod, name):
        if mod not in trees:
            trees[mod] = ast.parse(open(mod.__file__).read())
        for n in trees[mod].body:
            if isinstance(n, ast.ClassDef) and n.name == name:
                return n
        return None

    def method(mod, names, mname):
        """first definition of mname along the given class names (class, then its base in the same module)"""
        for cn in names:
            c = klass(mod, cn)
            if c is None:
                continue
            for f in c.body:
                if isinstance(f, (ast.FunctionDef, ast.AsyncFunctionDef)) and f.name == mname:
                    return f
        return None

    def has(node, pred):
        return node is not None and any(pred(x) for x in ast.walk(node))

    def appends_unit0(f):
        return has(f, lambda x: isinstance(x, ast.Call) and isinstance(x.func, ast.Attribute) and x.func.attr == 'append'
                   and len(x.args) == 1 and isinstance(x.args[0], ast.Constant) and x.args[0].value == 0)

    def catch_all(f, connected=None):
        """the handlers of `except Exception` / bare `except` in f (for the shared asyncio handle(): the branch taken by
        the connected / disconnected handler class)"""
        hs = []
        for x in ast.walk(f):
            if isinstance(x, ast.ExceptHandler) and (x.type is None or (isinstance(x.type, ast.Name) and x.type.id == 'Exception')):
                body = x.body
                if connected is not None:
                    for st_ in x.body:
                        if isinstance(st_, ast.If) and 'isinstance' in ast.unparse(st_.test):
                            body = st_.body if connected else st_.orelse
                hs.append(body)
        return hs

    def reaction(bodies):
        txt = '\n'.join(ast.unparse(s_) for b in bodies for s_ in b)
        if 'self.running = False' in txt or '.close()' in txt or 'loseConnection' in txt:
            return 'close'
        if 'resetFrame' in txt or 'reset_frame = True' in txt:
            return 'reset'
        return 'none'

    def counts(f):
        return has(f, lambda x: isinstance(x, ast.AugAssign) and isinstance(x.target, ast.Attribute) and x.target.attr == 'BusMessage')

    def listen_gate(f):
        return has(f, lambda x: isinstance(x, ast.If) and 'ListenOnly' in ast.unparse(x.test))

    def respond_gate(*fs):
        return any(has(f, lambda x: isinstance(x, ast.If) and 'should_respond' in ast.unparse(x.test)) for f in fs)

    def copies_ids(f):
        txt = ast.unparse(f) if f is not None else ''
        return 'response.transaction_id = request.transaction_id' in txt and 'response.unit_id = request.unit_id' in txt

    rows = []
    for name, cn in (('syncTcp', 'ModbusConnectedRequestHandler'), ('syncSerial', 'ModbusSingleRequestHandler'),
                     ('syncUdp', 'ModbusDisconnectedRequestHandler')):
        h = method(ss, [cn], 'handle')
        ex = method(ss, [cn, 'ModbusBaseRequestHandler'], 'execute')
        sd = method(ss, [cn], 'send')
        rows.append((name, appends_unit0(h), reaction(catch_all(h)), counts(sd), listen_gate(h), respond_gate(sd, ex), copies_ids(ex)))
    for name, cn, conn in (('aioTcp', 'ModbusConnectedRequestHandler', True), ('aioUdp', 'ModbusDisconnectedRequestHandler', False)):
        h = method(sa, [cn, 'ModbusBaseRequestHandler'], 'handle')
        ex = method(sa, [cn, 'ModbusBaseRequestHandler'], 'execute')
        sd = method(sa, [cn, 'ModbusBaseRequestHandler'], 'send')
        rows.append((name, appends_unit0(h), reaction(catch_all(h, conn)), counts(sd), listen_gate(h), respond_gate(sd, ex), copies_ids(ex)))
    for name, cn, recv in (('twistedTcp', 'ModbusTcpProtocol', 'dataReceived'), ('twistedUdp', 'ModbusUdpProtocol', 'datagramReceived')):
        h = method(st, [cn], recv)
        ex = method(st, [cn], '_execute')
        sd = method(st, [cn], '_send')
        rows.append((name, appends_unit0(h), reaction(catch_all(h)), counts(sd), listen_gate(h), respond_gate(sd, ex), copies_ids(ex)))
    return rows


def lock_scope_info(path=None):
    """C15: read the locking discipline of the synchronous transaction manager off the SOURCE (ast, nothing is
    executed): is the whole body of `ModbusTransactionManager.execute` one `with self._transaction_lock:` statement, is
    `_transaction_lock` assigned exactly once (in `__init__`) and to a plain `RLock()` - not a mapping of locks, not
    indexed by anything in the `with`; does `BaseModbusClient.execute` go through `self.transaction.execute`."""
    import ast
    if path is None:
        import pymodbus.transaction as _t
        path = _t.__file__
    tree = ast.parse(open(path).read())

    def is_lock_attr(n):
        return isinstance(n, ast.Attribute) and n.attr == '_transaction_lock'

    def mentions_lock(n):
        return any(is_lock_attr(x) for x in ast.walk(n))

    cls = [n for n in tree.body if isinstance(n, ast.ClassDef) and n.name == 'ModbusTransactionManager']
    if not cls:
        return dict(scope='no-class', ctor='?', assignments=0, where='?', references=0)
    cls = cls[0]
    # every assignment to an attribute called _transaction_lock anywhere in the module
    assigns = []
    for fn in ast.walk(tree):
        if isinstance(fn, (ast.FunctionDef,)):
            for n in ast.walk(fn):
                targets = []
                if isinstance(n, ast.Assign):
                    targets = n.targets
                elif isinstance(n, (ast.AugAssign, ast.AnnAssign)):
                    targets = [n.target]
                for t in targets:
                    for x in ast.walk(t):
                        if is_lock_attr(x):
                            assigns.append((fn.name, ast.unparse(n.value) if getattr(n, 'value', None) is not None else '?'))
    # every mention of the attribute in the module: the assignment and the `with` are the only legitimate ones
    refs = sum(1 for x in ast.walk(tree) if is_lock_attr(x))
    ctor = assigns[0][1] if len(assigns) == 1 else ';'.join(a[1] for a in assigns) or 'none'
    if ctor in ('threading.RLock()',):
        ctor = 'RLock()'
    where = assigns[0][0] if len(assigns) == 1 else ','.join(a[0] for a in assigns)
    ex = [n for n in cls.body if isinstance(n, ast.FunctionDef) and n.name == 'execute']
    if not ex:
        return dict(scope='no-execute', ctor=ctor, assignments=len(assigns), where=where, references=refs)
    body = list(ex[0].body)
    if body and isinstance(body[0], ast.Expr) and isinstance(getattr(body[0], 'value', None), ast.Constant) \
            and isinstance(body[0].value.value, str):
        body = body[1:]          # docstring
    scope = None
    if len(body) == 1 and isinstance(body[0], ast.With) and len(body[0].items) == 1:
        ce = body[0].items[0].context_expr
        if is_lock_attr(ce) and isinstance(ce.value, ast.Name) and ce.value.id == 'self':
            scope = 'whole'
        elif isinstance(ce, ast.Subscript) and is_lock_attr(ce.value):
            scope = 'perKey:' + ast.unparse(ce.slice)
        elif mentions_lock(ce):
            scope = 'other:' + ast.unparse(ce)
    if scope is None:
        withs = [n for n in ast.walk(ex[0]) if isinstance(n, ast.With) and any(mentions_lock(i.context_expr) for i in n.items)]
        calls = [n for n in ast.walk(ex[0]) if isinstance(n, ast.Call) and mentions_lock(n.func)]
        scope = 'partial' if (withs or calls) else 'none'
    return dict(scope=scope, ctor=ctor, assignments=len(assigns), where=where, references=refs)


def client_execute_info():
    """does `BaseModbusClient.execute` end in `return self.transaction.execute(request)` (one shared manager)"""
    return client_lock_info()['via_manager']


def client_lock_info(path=None):
    """C15: the client-side lock of `BaseModbusClient.execute`, read off the SOURCE (ast): is the whole body of
    `execute` one `with self._connect_lock:` that contains both the `self.connect()` call and the
    `return self.transaction.execute(request)`; is `_connect_lock` assigned exactly once (in `__init__`) to a plain
    `RLock()`; how often is the attribute mentioned in the module."""
    import ast
    if path is None:
        import pymodbus.client.sync as _s
        path = _s.__file__
    tree = ast.parse(open(path).read())

    def is_lock_attr(n):
        return isinstance(n, ast.Attribute) and n.attr == '_connect_lock'

    def mentions_lock(n):
        return any(is_lock_attr(x) for x in ast.walk(n))

    def calls(n, what):
        return any(isinstance(x, ast.Call) and ast.unparse(x.func).replace(' ', '') == what for x in ast.walk(n))

    assigns = []
    for fn in ast.walk(tree):
        if isinstance(fn, ast.FunctionDef):
            for n in ast.walk(fn):
                targets = []
                if isinstance(n, ast.Assign):
                    targets = n.targets
                elif isinstance(n, (ast.AugAssign, ast.AnnAssign)):
                    targets = [n.target]
                for t in targets:
                    if any(is_lock_attr(x) for x in ast.walk(t)):
                        assigns.append((fn.name, ast.unparse(n.value) if getattr(n, 'value', None) is not None else '?'))
    refs = sum(1 for x in ast.walk(tree) if is_lock_attr(x))
    ctor = assigns[0][1] if len(assigns) == 1 else ';'.join(a[1] for a in assigns) or 'none'
    if ctor == 'threading.RLock()':
        ctor = 'RLock()'
    where = assigns[0][0] if len(assigns) == 1 else (','.join(a[0] for a in assigns) or 'nowhere')
    out = dict(scope='no-execute', ctor=ctor, assignments=len(assigns), where=where, references=refs, via_manager=False)
    for c in tree.body:
        if isinstance(c, ast.ClassDef) and c.name == 'BaseModbusClient':
            for f in c.body:
                if isinstance(f, ast.FunctionDef) and f.name == 'execute':
                    # the request goes to the one shared manager (returned directly or through a local)
                    out['via_manager'] = any(
                        isinstance(x, ast.Call) and ast.unparse(x.func).replace(' ', '') == 'self.transaction.execute'
                        and [ast.unparse(a) for a in x.args] == ['request'] for x in ast.walk(f))
                    body = list(f.body)
                    if body and isinstance(body[0], ast.Expr) and isinstance(getattr(body[0], 'value', None), ast.Constant) \
                            and isinstance(body[0].value.value, str):
                        body = body[1:]
                    scope = None
                    if len(body) == 1 and isinstance(body[0], ast.With) and len(body[0].items) == 1:
                        w = body[0]
                        ce = w.items[0].context_expr
                        inner = ast.Module(body=w.body, type_ignores=[])
                        both = calls(inner, 'self.connect') and calls(inner, 'self.transaction.execute')
                        if is_lock_attr(ce) and isinstance(ce.value, ast.Name) and ce.value.id == 'self':
                            scope = 'whole' if both else 'other:with-body'
                        elif isinstance(ce, ast.Subscript) and is_lock_attr(ce.value):
                            scope = 'perKey:' + ast.unparse(ce.slice)
                        elif mentions_lock(ce):
                            scope = 'other:' + ast.unparse(ce)
                    if scope is None:
                        withs = [n for n in ast.walk(f) if isinstance(n, ast.With)
                                 and any(mentions_lock(i.context_expr) for i in n.items)]
                        if len(withs) == 1 and any(is_lock_attr(i.context_expr) for i in withs[0].items):
                            inner = ast.Module(body=withs[0].body, type_ignores=[])
                            if calls(inner, 'self.connect') and not calls(inner, 'self.transaction.execute'):
                                scope = 'connectOnly'
                                # is that `with` taken only when no socket is seen (`if not self.socket: with ...`)?
                                for n in ast.walk(f):
                                    if isinstance(n, ast.If) and withs[0] in list(ast.walk(n)) and 'socket' in ast.unparse(n.test):
                                        scope = 'connectOnlyWhenCold'
                            else:
                                scope = 'partial'
                                # the `with` covers connect + transaction.execute, but something is written after it
                                after = [x for x in f.body if x is not withs[0] and not isinstance(x, ast.Expr)]
                                if after and any(calls(x, 'self._broadcast') or calls(x, 'self.transaction._transact')
                                                 for x in after):
                                    scope = 'broadcastOutside'
                        elif withs or mentions_lock(f):
                            scope = 'partial'
                            # explicit acquire ... try/finally release: is the connect inside the try?
                            tries = [n for n in ast.walk(f) if isinstance(n, ast.Try)
                                     and any(mentions_lock(x) and calls(x, 'self._connect_lock.release')
                                             for x in n.finalbody)]
                            if calls(f, 'self._connect_lock.acquire') and len(tries) == 1:
                                tbody = ast.Module(body=tries[0].body, type_ignores=[])
                                scope = ('acquireTryFinally' if calls(tbody, 'self.connect')
                                         else 'acquireTryFinally:connectOutsideTry')
                        else:
                            scope = 'none'
                    out['scope'] = scope
    return out


def backoff_observation():
    """runs harness.c15.observe_backoff() (real client, in-memory transport) and puts the real modules back"""
    try:
        from harness import c15
        try:
            return c15.observe_backoff()
        finally:
            c15.uninstall_shims()
    except Exception as e:  # noqa: the observation could not be made: the obligation stays open
        return dict(observed=False, client=0, manager=0, error='%s: %s' % (type(e).__name__, e))


def render():
    body = '\n'.join(collect())
    return ('/- GENERATED by harness/gen_tables.py from the pymodbus modules imported from /repo.\n'
            '   Do not edit; rewritten on every check run. -/\n'
            'namespace Pymodbus.Generated\n' + body + '\nend Pymodbus.Generated\n')


def write():
    txt = render()
    old = open(OUT).read() if os.path.exists(OUT) else None
    if old == txt:
        return False
    os.makedirs(os.path.dirname(OUT), exist_ok=True)
    tmp = OUT + '.tmp'
    open(tmp, 'w').write(txt)
    os.replace(tmp, OUT)
    return True


if __name__ == '__main__':
    print(write())
