"""C19 — payload builder and decoder agree for every byte order and word order.

Real code: pymodbus.payload.BinaryPayloadBuilder / BinaryPayloadDecoder (+ utilities.pack_bitstring /
unpack_bitstring / make_byte_string).  Model: lean/Pymodbus/Model/Payload.lean.  Spec:
lean/Pymodbus/Spec/PayloadSpec.lean (conventional register image).  Theorems: Props/C19.lean.

A value travels between the two sides as a tagged bit pattern: ["u8", n] … ["f64", n] (n = the
big-endian `struct` image of the Python number as an integer), ["bits", [0/1…]], ["str", [bytes…]].
The Python number <-> pattern conversion is `struct`'s (trusted)."""
import struct

from harness.runner import Report
from harness.pyutil import errkind

from pymodbus.constants import Endian
from pymodbus.payload import BinaryPayloadBuilder, BinaryPayloadDecoder

ASSUMPTIONS = [
    'numeric values are exchanged as bit patterns; float <-> bits is struct.pack/unpack (">e", ">f", ">d")',
    'a NaN is represented by the pattern struct.pack produces for the Python float (signalling NaNs are quieted by the C float conversion before pymodbus sees them)',
    'strings are byte strings (a Python str argument is its UTF-8 encoding, as make_byte_string does)',
    'bit groups are in the property\'s domain when they fill whole bytes; other lengths come back zero-filled (known finding bits-zero-fill)',
]
TRUSTED = ['struct.pack/unpack for the float/int <-> bit pattern conversion done by harness/c19.py']

RULE = ('typed value sequences of length 0..40 over u8 i8 u16 i16 u32 i32 u64 i64 f16 f32 f64 (extremes, powers of two, '
        'all-distinct-word patterns, random full range; floats as bit patterns incl. +-0, subnormals, +-inf, NaN), bit '
        'groups (0..40 bits), strings (0..12 bytes), under all four byte-order x word-order combinations, transported '
        'as bytes, registers (repack off/on) and coils; plus raw decoder runs over arbitrary bytes/registers/coils with '
        'arbitrary decode-call lists; a case is non-trivial when it builds at least one value without an exception, '
        'distinct by canonical JSON')

WIDTH = {'u8': 8, 'i8': 8, 'u16': 16, 'i16': 16, 'u32': 32, 'i32': 32, 'u64': 64, 'i64': 64,
         'f16': 16, 'f32': 32, 'f64': 64}
METHOD = {'u8': '8bit_uint', 'i8': '8bit_int', 'u16': '16bit_uint', 'i16': '16bit_int', 'u32': '32bit_uint',
          'i32': '32bit_int', 'u64': '64bit_uint', 'i64': '64bit_int', 'f16': '16bit_float', 'f32': '32bit_float',
          'f64': '64bit_float'}
FFMT = {'f16': '>e', 'f32': '>f', 'f64': '>d'}
NUMS = list(WIDTH)
ORDERS = [(bo, wo) for bo in '><' for wo in '><']
EN = {'>': Endian.Big, '<': Endian.Little}


# ------------------------------------------------------------------ value <-> pattern (trusted: struct)
def float_of_bits(t, n):
    return struct.unpack(FFMT[t], n.to_bytes(WIDTH[t] // 8, 'big'))[0]


def bits_of_float(t, x):
    return int.from_bytes(struct.pack(FFMT[t], x), 'big')


def py_of(val):
    """the Python argument of add_* for a case value [tag, data(, extra)]"""
    tag, data = val[0], val[1]
    extra = val[2] if len(val) > 2 else None
    if tag == 'bits':
        return [bool(b) for b in data]
    if tag == 'str':
        if extra and 'text' in extra:
            return extra['text']
        return bytes(data)
    if extra and 'py' in extra:
        return extra['py']
    w = WIDTH[tag]
    if tag[0] == 'f':
        return float_of_bits(tag, data)
    if tag[0] == 'i' and data < (1 << w) and data >= (1 << (w - 1)):
        return data - (1 << w)
    return data


def canon_decoded(tag, v):
    """a decoded Python object as a case value; anything of the wrong Python type or range is kept
    recognisably different from every well-formed value"""
    if tag == 'bits':
        if isinstance(v, list) and all(isinstance(b, bool) for b in v):
            return ['bits', [int(b) for b in v]]
        return ['bits', {'bad': repr(v)}]
    if tag == 'str':
        if isinstance(v, (bytes, bytearray)):
            return ['str', list(v)]
        return ['str', {'bad': repr(v)}]
    w = WIDTH[tag]
    if tag[0] == 'f':
        if isinstance(v, float):
            return [tag, bits_of_float(tag, v)]
        return [tag, {'bad': repr(v)}]
    if isinstance(v, int) and not isinstance(v, bool):
        lo, hi = (-(1 << (w - 1)), (1 << (w - 1)) - 1) if tag[0] == 'i' else (0, (1 << w) - 1)
        if lo <= v <= hi:
            return [tag, v % (1 << w)]
    return [tag, {'bad': repr(v)}]


def norm_steps(outs):
    """model decode outputs with float patterns passed through struct (identity except that a NaN
    is represented by the pattern struct gives back for it, as on the real side)"""
    res = []
    for o in outs:
        if isinstance(o, list) and o[0] in FFMT and isinstance(o[1], int):
            o = [o[0], bits_of_float(o[0], float_of_bits(o[0], o[1]))]
        res.append(o)
    return res


def ty_of(val):
    if val[0] == 'bits':
        return ['bits', (len(val[1]) + 7) // 8]
    if val[0] == 'str':
        return ['str', len(val[1])]
    return [val[0]]


# ------------------------------------------------------------------ real code runners
def decode_steps(dec, tys):
    outs = []
    for ty in tys:
        try:
            if ty[0] == 'bits':
                bits = []
                for _ in range(ty[1]):
                    got = dec.decode_bits()
                    bits += got
                    # the caller owns what a decode call returns: it trims the padding off in place (the decoder, and every later
                    # decoder, must not see that)
                    if isinstance(got, list):
                        del got[5:]
                        got.reverse()
                outs.append(canon_decoded('bits', bits))
            elif ty[0] == 'str':
                outs.append(canon_decoded('str', dec.decode_string(ty[1])))
            else:
                outs.append(canon_decoded(ty[0], getattr(dec, 'decode_' + METHOD[ty[0]])()))
        except Exception as e:  # noqa
            outs.append({'err': errkind(e)})
            break
    return outs


_BUILDERS = {}


def run_build(case):
    """the real builder and the three transports; everything canonicalised"""
    bo, wo = EN[case['bo']], EN[case['wo']]
    vals = case['values']
    tys = [ty_of(v) for v in vals]
    # builders are REUSED (reset() between payloads), as an application that sends records in a loop does: nothing of the
    # previous payload may survive the reset
    key = (case['bo'], case['wo'], bool(case.get('repack')))
    b = _BUILDERS.get(key)
    if b is None or len(_BUILDERS) > 64:
        b = _BUILDERS[key] = BinaryPayloadBuilder(byteorder=bo, wordorder=wo, repack=bool(case.get('repack')))
    b.reset()
    peek = case.get('peek')
    try:
        for nv, v in enumerate(vals):
            if peek and peek[0] == nv:
                # the application looks at the payload built so far (and goes on adding): an observer changes nothing
                try:
                    getattr(b, peek[1])()
                except Exception:  # noqa
                    pass
            arg = py_of(v)
            if v[0] == 'bits':
                b.add_bits(arg)
            elif v[0] == 'str':
                b.add_string(arg)
            else:
                getattr(b, 'add_' + METHOD[v[0]])(arg)
        raw = b.to_string()
    except Exception as e:  # noqa
        return {'bytes': {'err': errkind(e)}}
    out = {'bytes': list(raw)}
    out['dec_bytes'] = decode_steps(BinaryPayloadDecoder(raw, byteorder=bo, wordorder=wo), tys)
    try:
        regs = b.to_registers()
        out['regs'] = [int(r) for r in regs]
        try:
            out['dec_regs'] = decode_steps(BinaryPayloadDecoder.fromRegisters(regs, byteorder=bo, wordorder=wo), tys)
        except Exception as e:  # noqa
            out['dec_regs'] = [{'err': errkind(e)}]
    except Exception as e:  # noqa
        out['regs'] = {'err': errkind(e)}
        out['dec_regs'] = [{'err': errkind(e)}]
    try:
        coils = b.to_coils()
        out['coils'] = [int(bool(c)) for c in coils]
        try:
            out['dec_coils'] = decode_steps(BinaryPayloadDecoder.fromCoils(coils, byteorder=bo, wordorder=wo), tys)
        except Exception as e:  # noqa
            out['dec_coils'] = [{'err': errkind(e)}]
    except Exception as e:  # noqa
        out['coils'] = {'err': errkind(e)}
        out['dec_coils'] = [{'err': errkind(e)}]
    try:
        b.build()
        after = list(b.to_string())
    except Exception as e:  # noqa
        after = {'err': errkind(e)}
    if after != out['bytes']:
        out['impure'] = after        # to_registers() / to_coils() / build() changed what the builder holds
    return out


def run_decode(case):
    bo, wo = EN[case['bo']], EN[case['wo']]
    try:
        if 'payload' in case:
            dec = BinaryPayloadDecoder(bytes(case['payload']), byteorder=bo, wordorder=wo)
        elif 'registers' in case:
            dec = BinaryPayloadDecoder.fromRegisters(list(case['registers']), byteorder=bo, wordorder=wo)
        else:
            dec = BinaryPayloadDecoder.fromCoils([bool(c) for c in case['coils']], byteorder=bo, wordorder=wo)
    except Exception as e:  # noqa
        return {'payload': {'err': errkind(e)}, 'out': [{'err': errkind(e)}]}
    return {'payload': list(dec._payload), 'out': decode_steps(dec, case['types'])}


# ------------------------------------------------------------------ generators
def gen_int_pattern(rng, w):
    r = rng.random()
    top = 1 << w
    if r < 0.22:
        return rng.choice([0, 1, 2, top - 1, top - 2, top >> 1, (top >> 1) - 1, (top >> 1) + 1, 0x7f, 0x80, 0xff])
    if r < 0.34:
        k = rng.randrange(w)
        return ((1 << k) + rng.choice([-1, 0, 1])) % top
    if r < 0.56:
        # every byte different (so any byte/word mix-up shows)
        bs = rng.sample(range(256), w // 8)
        return int.from_bytes(bytes(bs), 'big')
    if r < 0.64:
        return rng.randrange(0, min(top, 70000))
    if r < 0.70:
        return (-rng.randrange(1, min(top >> 1, 70000) + 1)) % top
    return rng.getrandbits(w)


def gen_float_pattern(rng, t):
    w = WIDTH[t]
    mant = {'f16': 10, 'f32': 23, 'f64': 52}[t]
    expo = w - 1 - mant
    sign = rng.getrandbits(1) << (w - 1)
    emax = (1 << expo) - 1
    r = rng.random()
    if r < 0.08:
        n = sign                                                   # +-0
    elif r < 0.20:
        n = sign | rng.choice([1, (1 << mant) - 1, rng.randrange(1, 1 << mant)])   # subnormals
    elif r < 0.28:
        n = sign | (emax << mant)                                  # +-inf
    elif r < 0.36:
        n = sign | (emax << mant) | (1 << (mant - 1)) | rng.choice([0, 1, rng.getrandbits(mant - 1)])  # quiet NaN
    elif r < 0.40:
        n = sign | (emax << mant) | rng.randrange(1, 1 << (mant - 1))              # signalling NaN
    elif r < 0.50:
        n = sign | rng.choice([((emax - 1) << mant) | ((1 << mant) - 1), 1 << mant, (emax >> 1) << mant])  # max, min normal, 1.0
    else:
        n = rng.getrandbits(w)
    # the pattern pymodbus will see for the Python float this denotes (struct, trusted)
    return bits_of_float(t, float_of_bits(t, n))


TEXTS = ['', 'a', 'ab', 'abc', 'pymodbus', 'hé', '€1', 'x' * 7]


def gen_value(rng, allow_bad):
    r = rng.random()
    if r < 0.78:
        t = rng.choice(NUMS)
        w = WIDTH[t]
        if t[0] == 'f':
            return [t, gen_float_pattern(rng, t)]
        if allow_bad and rng.random() < 0.5:
            # out of the format's range: struct.error expected
            if rng.random() < 0.5:
                n = (1 << w) + rng.choice([0, 1, rng.getrandbits(w)])
                return [t, n]
            if t[0] == 'u':
                return [t, (1 << w), {'py': -rng.choice([1, 2, 200, 1 << (w - 1)])}]
            return [t, (1 << w), {'py': -(1 << (w - 1)) - rng.choice([1, 2, 1000])}]
        return [t, gen_int_pattern(rng, w)]
    if r < 0.90:
        k = rng.random()
        if k < 0.88:
            n = 8 * rng.choice([0, 1, 1, 1, 2, 3, 5])
        else:
            n = rng.randrange(1, 41)
        return ['bits', [rng.getrandbits(1) for _ in range(n)]]
    if rng.random() < 0.15:
        txt = rng.choice(TEXTS)
        return ['str', list(txt.encode()), {'text': txt}]
    n = rng.choice([0, 1, 2, 3, 4, rng.randrange(0, 13)])
    return ['str', [rng.getrandbits(8) for _ in range(n)]]


def gen_build_case(rng, maxlen):
    bo, wo = rng.choice(ORDERS)
    r = rng.random()
    if r < 0.25:
        n = rng.choice([0, 1, 1, 2])
    elif r < 0.8:
        n = rng.randrange(1, 9)
    else:
        n = rng.randrange(1, maxlen + 1)
    bad = rng.random() < 0.04
    vals = [gen_value(rng, False) for _ in range(n)]
    if bad and vals:
        k = rng.randrange(len(vals))
        for _ in range(20):
            v = gen_value(rng, True)
            if v[0] in WIDTH and v[0][0] != 'f':
                vals[k] = v
                break
    if rng.random() < 0.12:
        # only whole-register values: the per-value register images are visible one after another
        vals = [v for v in vals if v[0] in WIDTH and WIDTH[v[0]] > 8] or [['u32', gen_int_pattern(rng, 32)]]
    case = {'kind': 'build', 'bo': bo, 'wo': wo, 'values': vals}
    if rng.random() < 0.1:
        case['repack'] = True
    if vals and rng.random() < 0.3:
        case['peek'] = [rng.randrange(len(vals)), rng.choice(['build', 'to_registers', 'to_coils', 'to_string'])]
    return case


def sweep_cases():
    """every numeric type x every order x a fixed set of telling patterns, alone and after one byte"""
    out = []
    for t in NUMS:
        w = WIDTH[t]
        top = 1 << w
        pats = [0, 1, top - 1, top >> 1, (top >> 1) - 1, int.from_bytes(bytes(range(1, w // 8 + 1)), 'big'),
                int.from_bytes(bytes(range(0xf1, 0xf1 + w // 8)), 'big'), 1 << (w // 2), (1 << 16) % top]
        if t[0] == 'f':
            pats = [bits_of_float(t, float_of_bits(t, p)) for p in pats]
        for bo, wo in ORDERS:
            for p in sorted(set(pats)):
                out.append({'kind': 'build', 'bo': bo, 'wo': wo, 'values': [[t, p]]})
            out.append({'kind': 'build', 'bo': bo, 'wo': wo, 'values': [['u8', 0xab], [t, pats[5]], ['bits', [1, 0, 1]], [t, pats[6]]]})
    return out


def gen_decode_case(rng):
    bo, wo = rng.choice(ORDERS)
    tys = []
    for _ in range(rng.randrange(0, 8)):
        r = rng.random()
        if r < 0.7:
            tys.append([rng.choice(NUMS)])
        elif r < 0.85:
            tys.append(['bits', rng.choice([0, 1, 1, 2, 3])])
        else:
            tys.append(['str', rng.choice([0, 1, 2, 3, 5, 9])])
    case = {'kind': 'decode', 'bo': bo, 'wo': wo, 'types': tys}
    r = rng.random()
    if r < 0.5:
        case['payload'] = [rng.getrandbits(8) for _ in range(rng.choice([0, 1, 2, 3, 4, 8, 9, 16, rng.randrange(0, 30)]))]
    elif r < 0.8:
        case['registers'] = [rng.choice([0, 1, 255, 256, 65535, rng.getrandbits(16)]) for _ in range(rng.randrange(0, 12))]
        if rng.random() < 0.05:
            case['registers'].append(rng.choice([65536, 70000, 1 << 20]))
    else:
        case['coils'] = [rng.getrandbits(1) for _ in range(rng.choice([0, 1, 3, 7, 8, 9, 15, 16, 17, rng.randrange(0, 70)]))]
    return case


# ------------------------------------------------------------------ checks
KEYS = ['bytes', 'regs', 'coils', 'dec_bytes', 'dec_regs', 'dec_coils']


def strip_extra(vals):
    return [[v[0], v[1]] for v in vals]


def check_build_cases(ctx, rep, cases):
    q = []
    for c in cases:
        o = {'op': 'payload', 'bo': c['bo'], 'wo': c['wo'], 'values': strip_extra(c['values'])}
        if c.get('repack'):
            o['repack'] = True
        q.append(o)
    answers = ctx.driver.query(q)
    for case, ans in zip(cases, answers):
        for k in ('dec_bytes', 'dec_regs', 'dec_coils', 'expect'):
            if k in ans:
                ans[k] = norm_steps(ans[k])
        real = run_build(case)
        built = isinstance(real['bytes'], list)
        rep.case(case, nontrivial=built and len(case['values']) > 0, tag='build %s%s' % (case['bo'], case['wo']))
        rep.sample(case, cap=4)
        # ---- correspondence: real code vs model, everything observable
        rep.compare(case, {k: real.get(k) for k in KEYS}, {k: ans.get(k) for k in KEYS}, 'payload build/transports vs Model.Payload')
        # ---- property oracle
        vals = strip_extra(case['values'])
        repack = bool(case.get('repack'))
        if not ans['wf']:
            # out-of-range number: the only acceptable outcome is struct.error, nothing to decode
            if built:
                rep.violation('a value outside the range of its type was packed without an exception', case, impl=real['bytes'][:40])
            continue
        if not built:
            rep.violation('the builder raised on in-range values', case, impl=real['bytes'])
            continue
        if 'impure' in real:
            rep.violation('reading the payload out (to_registers / to_coils / build) changed what the builder holds', case,
                          before=real['bytes'][:60], after=real['impure'][:60] if isinstance(real['impure'], list) else real['impure'])
        if real['bytes'] != ans['spec_bytes']:
            rep.violation('the built byte string is not the conventional image for this byte/word order', case,
                          impl=real['bytes'], spec=ans['spec_bytes'])
        if not repack and real['regs'] != ans['spec_regs']:
            rep.violation('to_registers() is not the conventional register image for this byte/word order', case,
                          impl=real['regs'], spec=ans['spec_regs'])
        transports = [('bytes', 'dec_bytes')]
        if not repack:
            transports += [('registers', 'dec_regs'), ('coils', 'dec_coils')]
        for name, key in transports:
            got = real[key]
            if got == vals:
                continue
            finding = None
            if not ans['aligned'] and got == ans['expect']:
                finding = 'bits-zero-fill'
            rep.violation('values decoded after transport as %s differ from the values packed' % name, case,
                          finding=finding, transport=name, impl=got, packed=vals)
        # ---- direct predicate on the Python objects (independent of the pattern conversion for ints)
        if ans['aligned'] and real['dec_bytes'] == vals:
            try:
                direct_int_roundtrip(rep, case)
            except Exception as e:  # noqa
                rep.violation('integer round trip through registers raised %s' % errkind(e), case)


def direct_int_roundtrip(rep, case):
    bo, wo = EN[case['bo']], EN[case['wo']]
    ints = [v for v in case['values'] if v[0] in WIDTH and v[0][0] != 'f']
    b = BinaryPayloadBuilder(byteorder=bo, wordorder=wo)
    for v in ints:
        getattr(b, 'add_' + METHOD[v[0]])(py_of(v))
    d = BinaryPayloadDecoder.fromRegisters(b.to_registers(), byteorder=bo, wordorder=wo)
    for v in ints:
        back = getattr(d, 'decode_' + METHOD[v[0]])()
        if back != py_of(v) or type(back) is not int:
            rep.violation('integer decoded from registers differs from the integer packed', case,
                          packed=py_of(v), impl=repr(back), type=v[0])
            break


def check_decode_cases(ctx, rep, cases):
    q = []
    for c in cases:
        o = {'op': 'pdecode', 'bo': c['bo'], 'wo': c['wo'], 'types': c['types']}
        for k in ('payload', 'registers', 'coils'):
            if k in c:
                o[k] = c[k]
        q.append(o)
    answers = ctx.driver.query(q)
    for case, ans in zip(cases, answers):
        real = run_decode(case)
        ok = any(isinstance(o, list) for o in real['out'])
        rep.case(case, nontrivial=ok, tag='decode')
        rep.sample(case, cap=6)
        rep.compare(case, real, {'payload': ans['payload'], 'out': norm_steps(ans['out'])}, 'raw decoder vs Model.Payload')


def run_cases(ctx, rep, cases):
    check_build_cases(ctx, rep, [c for c in cases if c['kind'] == 'build'])
    check_decode_cases(ctx, rep, [c for c in cases if c['kind'] == 'decode'])


# ------------------------------------------------------------------ entry points
def run(ctx):
    rep = Report(RULE)
    rep.exhaustive = False
    run_cases(ctx, rep, list(ctx.corpus()))
    sw = sweep_cases()
    run_cases(ctx, rep, sw)
    rep.notes.append('fixed sweep: %d cases (every numeric type x 4 orders x telling patterns, aligned and after a single byte)' % len(sw))
    rng = ctx.rng
    total = ctx.scale(10000, 400000)
    maxlen = 40
    batch = 1000
    done = 0
    reserve = ctx.scale(15, 60)
    while done < total and ctx.time_left() > reserve:
        run_cases(ctx, rep, [gen_build_case(rng, maxlen) for _ in range(batch)])
        done += batch
    ndec = ctx.scale(3000, 100000)
    done = 0
    while done < ndec and ctx.time_left() > reserve / 2:
        run_cases(ctx, rep, [gen_decode_case(rng) for _ in range(batch)])
        done += batch
    return rep


def replay(ctx, payload):
    rep = Report(RULE)
    c = payload.get('case') or (payload.get('first_disagreements') or [{}])[0].get('case')
    if not c:
        return 'nothing to replay in this file'
    if c.get('kind') == 'build' or 'values' in c:
        # the builder is reused across payloads in a run: put a different payload of the same shape through it first
        def alter(v):
            if v[0] == 'bits':
                return [v[0], [1 - int(bool(x)) for x in v[1]]]
            if v[0] == 'str':
                return [v[0], [(x + 1) % 128 for x in v[1]]]
            return [v[0], v[1] ^ 1 if isinstance(v[1], int) else v[1]]
        try:
            run_build(dict(c, values=[alter(v) for v in c['values']]))
        except Exception:  # noqa
            pass
    run_cases(ctx, rep, [c])
    from harness.runner import load_known
    known = {f['id'] for f in load_known() if f.get('property') == 'C19' and f.get('status') == 'known'}
    bad = [v for v in rep.violations if v.get('finding') not in known]
    if bad:
        return bad[0]['what']
    if rep.disagreements:
        return 'model/implementation disagreement'
    return None
