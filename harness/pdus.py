"""Canonical JSON views of real pymodbus message objects (same shape as the Lean driver's jReq/jResp),
constructors for real objects from those views, and an independent wire encoder for abstract
data-access requests (written from the Modbus spec, used to produce the bytes the server decodes)."""
import struct

from pymodbus import bit_read_message as brm, bit_write_message as bwm
from pymodbus import register_read_message as rrm, register_write_message as rwm
from pymodbus import diag_message as dm, other_message as om, file_message as fm, mei_message as mm
from pymodbus import pdu as pdu_mod
from pymodbus.constants import ModbusStatus


def b2i(x):
    return int(bool(x)) if isinstance(x, bool) else int(x)


def nats(xs):
    return [b2i(x) for x in xs]


# ------------------------------------------------------------------ diagnostic message attribute
def diag_msg(m):
    if m is None:
        return {'k': 'none'}
    if isinstance(m, bool):
        return {'k': 'int', 'n': int(m)}
    if isinstance(m, int):
        return {'k': 'int', 'n': m}
    if isinstance(m, list):
        return {'k': 'list', 'ws': nats(m)}
    if isinstance(m, tuple):
        return {'k': 'tuple', 'ws': nats(m)}
    if isinstance(m, (bytes, bytearray)):
        return {'k': 'bytes', 'bs': list(m)}
    if isinstance(m, str):
        return {'k': 'bytes', 'bs': list(m.encode())}
    raise TypeError('diag message %r' % (m,))


def file_rec(r):
    data = r.record_data
    if isinstance(data, str):
        data = data.encode()
    return {'rt': r.reference_type, 'fn': r.file_number, 'rn': r.record_number, 'data': list(data),
            'rl': r.record_length, 'resp_len': r.response_length}


def mk_file_rec(j):
    return fm.FileRecord(reference_type=j['rt'], file_number=j['fn'], record_number=j['rn'],
                         record_data=bytes(j['data']), record_length=j['rl'], response_length=j['resp_len'])


# ------------------------------------------------------------------ requests
def _req_to_json(o):
    """canonical view of a real request object (after construction or decode)"""
    c = type(o)
    if isinstance(o, brm.ReadCoilsRequest):
        return {'t': 'readCoils', 'address': o.address, 'count': o.count}
    if isinstance(o, brm.ReadDiscreteInputsRequest):
        return {'t': 'readDiscrete', 'address': o.address, 'count': o.count}
    if isinstance(o, rrm.ReadHoldingRegistersRequest):
        return {'t': 'readHolding', 'address': o.address, 'count': o.count}
    if isinstance(o, rrm.ReadInputRegistersRequest):
        return {'t': 'readInput', 'address': o.address, 'count': o.count}
    if isinstance(o, bwm.WriteSingleCoilRequest):
        raw = getattr(o, '_raw_value', None)
        word = raw if raw is not None else (ModbusStatus.On if o.value else ModbusStatus.Off)
        return {'t': 'writeCoil', 'address': o.address, 'word': word}
    if isinstance(o, rwm.WriteSingleRegisterRequest):
        return {'t': 'writeRegister', 'address': o.address, 'value': o.value}
    if isinstance(o, bwm.WriteMultipleCoilsRequest):
        q = getattr(o, '_quantity', None)
        return {'t': 'writeCoils', 'address': o.address, 'count': q if q is not None else len(o.values),
                'byte_count': o.byte_count, 'values': [bool(v) for v in o.values]}
    if isinstance(o, rwm.WriteMultipleRegistersRequest):
        return {'t': 'writeRegisters', 'address': o.address, 'count': o.count, 'byte_count': o.byte_count,
                'values': nats(o.values)}
    if isinstance(o, rwm.MaskWriteRegisterRequest):
        return {'t': 'maskWrite', 'address': o.address, 'and_mask': o.and_mask, 'or_mask': o.or_mask}
    if isinstance(o, rrm.ReadWriteMultipleRegistersRequest):
        return {'t': 'readWrite', 'read_address': o.read_address, 'read_count': o.read_count,
                'write_address': o.write_address, 'write_count': o.write_count,
                'write_byte_count': o.write_byte_count, 'write_registers': nats(o.write_registers)}
    if isinstance(o, dm.DiagnosticStatusRequest):
        return {'t': 'diag', 'sub': o.sub_function_code, 'message': diag_msg(o.message), 'cls': type(o).__name__}
    if isinstance(o, om.ReadExceptionStatusRequest):
        return {'t': 'readExceptionStatus'}
    if isinstance(o, om.GetCommEventCounterRequest):
        return {'t': 'getCommEventCounter'}
    if isinstance(o, om.GetCommEventLogRequest):
        return {'t': 'getCommEventLog'}
    if isinstance(o, om.ReportSlaveIdRequest):
        return {'t': 'reportSlaveId'}
    if isinstance(o, fm.ReadFileRecordRequest):
        return {'t': 'readFileRecord', 'records': [file_rec(r) for r in o.records]}
    if isinstance(o, fm.WriteFileRecordRequest):
        return {'t': 'writeFileRecord', 'records': [file_rec(r) for r in o.records]}
    if isinstance(o, fm.ReadFifoQueueRequest):
        return {'t': 'readFifo', 'address': o.address}
    if isinstance(o, mm.ReadDeviceInformationRequest):
        return {'t': 'readDeviceInfo', 'sub': o.sub_function_code, 'read_code': o.read_code, 'object_id': o.object_id}
    if isinstance(o, pdu_mod.IllegalFunctionRequest):
        return {'t': 'illegalFunction', 'fc': o.function_code}
    raise TypeError('unknown request class %s' % c.__name__)


def info_to_json(info):
    out = []
    for k, v in info.items():
        vs = v if isinstance(v, list) else [v]
        out.append([int(k), [list(x.encode() if isinstance(x, str) else bytes(x)) for x in vs]])
    return out


def _resp_to_json(o):
    if isinstance(o, pdu_mod.ExceptionResponse):
        return {'t': 'exception', 'fc': o.original_code, 'code': o.exception_code}
    if isinstance(o, brm.ReadCoilsResponse):
        return {'t': 'readCoils', 'bits': nats(o.bits)}
    if isinstance(o, brm.ReadDiscreteInputsResponse):
        return {'t': 'readDiscrete', 'bits': nats(o.bits)}
    if isinstance(o, rrm.ReadHoldingRegistersResponse):
        return {'t': 'readHolding', 'registers': nats(o.registers)}
    if isinstance(o, rrm.ReadInputRegistersResponse):
        return {'t': 'readInput', 'registers': nats(o.registers)}
    if isinstance(o, bwm.WriteSingleCoilResponse):
        return {'t': 'writeCoil', 'address': o.address, 'value': b2i(o.value)}
    if isinstance(o, rwm.WriteSingleRegisterResponse):
        return {'t': 'writeRegister', 'address': o.address, 'value': o.value}
    if isinstance(o, bwm.WriteMultipleCoilsResponse):
        return {'t': 'writeCoils', 'address': o.address, 'count': o.count}
    if isinstance(o, rwm.WriteMultipleRegistersResponse):
        return {'t': 'writeRegisters', 'address': o.address, 'count': o.count}
    if isinstance(o, rwm.MaskWriteRegisterResponse):
        return {'t': 'maskWrite', 'address': o.address, 'and_mask': o.and_mask, 'or_mask': o.or_mask}
    if isinstance(o, rrm.ReadWriteMultipleRegistersResponse):
        return {'t': 'readWrite', 'registers': nats(o.registers)}
    if isinstance(o, dm.DiagnosticStatusResponse):
        return {'t': 'diag', 'sub': o.sub_function_code, 'message': diag_msg(o.message), 'cls': type(o).__name__}
    if isinstance(o, om.ReadExceptionStatusResponse):
        return {'t': 'readExceptionStatus', 'status': o.status}
    if isinstance(o, om.GetCommEventCounterResponse):
        return {'t': 'getCommEventCounter', 'status': bool(o.status), 'count': o.count}
    if isinstance(o, om.GetCommEventLogResponse):
        return {'t': 'getCommEventLog', 'status': bool(o.status), 'event_count': o.event_count,
                'message_count': o.message_count, 'events': nats(o.events)}
    if isinstance(o, om.ReportSlaveIdResponse):
        ident = o.identifier
        if isinstance(ident, str):
            ident = ident.encode()
        return {'t': 'reportSlaveId', 'identifier': list(ident), 'status': bool(o.status)}
    if isinstance(o, fm.ReadFileRecordResponse):
        return {'t': 'readFileRecord', 'records': [file_rec(r) for r in o.records]}
    if isinstance(o, fm.WriteFileRecordResponse):
        return {'t': 'writeFileRecord', 'records': [file_rec(r) for r in o.records]}
    if isinstance(o, fm.ReadFifoQueueResponse):
        return {'t': 'readFifo', 'values': nats(o.values)}
    if isinstance(o, mm.ReadDeviceInformationResponse):
        return {'t': 'readDeviceInfo', 'read_code': o.read_code, 'conformity': o.conformity,
                'more_follows': o.more_follows, 'next_object_id': o.next_object_id,
                'number_of_objects': o.number_of_objects, 'information': info_to_json(o.information)}
    raise TypeError('unknown response class %s' % type(o).__name__)


# ------------------------------------------------------------------ spec-side wire encoder (data access)
def H(n):
    return struct.pack('>H', n)


def pack_bits(bits):
    out = bytearray((len(bits) + 7) // 8)
    for i, b in enumerate(bits):
        if b:
            out[i // 8] |= 1 << (i % 8)
    return bytes(out)


def enc_abstract_req(r, data_follows='values'):
    """PDU bytes (fc included) of an abstract data-access request per v1.1b3 §6.
    For the multiple-write requests the data bytes are those of `values` as given (the abstract
    request may carry a count / byte count that contradicts them)."""
    t = r['t']
    if t in ('readCoils', 'readDiscrete', 'readHolding', 'readInput'):
        fc = {'readCoils': 1, 'readDiscrete': 2, 'readHolding': 3, 'readInput': 4}[t]
        return bytes([fc]) + H(r['address']) + H(r['count'])
    if t == 'writeCoil':
        return bytes([5]) + H(r['address']) + H(r['word'])
    if t == 'writeRegister':
        return bytes([6]) + H(r['address']) + H(r['value'])
    if t == 'writeCoils':
        return bytes([15]) + H(r['address']) + H(r['count']) + bytes([r['byte_count']]) + pack_bits(r['values'])
    if t == 'writeRegisters':
        return bytes([16]) + H(r['address']) + H(r['count']) + bytes([r['byte_count']]) + b''.join(H(v) for v in r['values'])
    if t == 'maskWrite':
        return bytes([22]) + H(r['address']) + H(r['and_mask']) + H(r['or_mask'])
    if t == 'readWrite':
        return (bytes([23]) + H(r['read_address']) + H(r['read_count']) + H(r['write_address']) + H(r['write_count'])
                + bytes([r['write_byte_count']]) + b''.join(H(v) for v in r['write_registers']))
    if t == 'illegalFunction':
        return bytes([r['fc']]) + bytes(r.get('data', []))
    raise ValueError(t)



def _safe(f, o):
    """a message object whose attributes are not those of its class (e.g. an object re-classed by a decoder to a
    class it was not decoded as) is reported as such instead of crashing the harness: it then differs from every
    expected value"""
    try:
        return f(o)
    except (AttributeError, TypeError, KeyError, IndexError, ValueError) as e:
        return {'t': 'malformed-object', 'cls': type(o).__name__, 'error': type(e).__name__ + ': ' + str(e)[:120]}


def req_to_json(o):
    """canonical view of a real request object (after construction or decode)"""
    return _safe(_req_to_json, o)


def resp_to_json(o):
    return _safe(_resp_to_json, o)


def edit_in_place(o):
    """flip / bump the first element of every list attribute of a message object IN PLACE (what a caller may do with a
    decoded message); returns whether anything was touched"""
    touched = False
    for attr in ('bits', 'registers', 'values', 'events', 'message', 'write_registers', 'records'):
        v = getattr(o, attr, None)
        if isinstance(v, list) and v:
            try:
                v[0] = (not v[0]) if isinstance(v[0], bool) else (v[0] + 1 if isinstance(v[0], int) else v[0])
                touched = True
            except Exception:  # noqa
                pass
    return touched
