"""C09 — the server sends exactly one matching response per accepted request.

Request histories (1..30 data-access requests, pipelined k per read or one per read / datagram; all transaction ids and
unit ids; single and multi-unit contexts; ignore_missing_slaves and broadcast_enable on/off) are sent as framed bytes to
the REAL handler / protocol classes of every front-end (sync TCP / serial / UDP, asyncio TCP / UDP, Twisted TCP / UDP)
in-process.  Checked: (a) the bytes written per received chunk and the final stores equal the model's (`server` op);
(b) the property itself on the real output: parsed with a client-side receiver, there is exactly one response per
request to a hosted unit, in request order, carrying the request's transaction id (TCP), unit id and function code
(or code | 0x80); nothing for broadcast / ignored requests; no other bytes."""
from harness.runner import Report
from harness import execlib, serverlib, frontends, framelib
from harness.c04 import gen_history

ASSUMPTIONS = ['event loops and sockets are replaced by in-process fakes that hand each chunk to the real handler in order',
               'requests of every class; the reply BYTES of the classes outside the modelled execute methods (diagnostics, identification, file '
               'records, FIFO) are not compared with the model, their count / ids / function code are checked like all others',
               'listen-only mode is not entered (Force Listen Only Mode is the one request excluded)']
RULE = ('front-end x framer x {single, multi-unit hosted sets} x ignore_missing x broadcast x histories of 1..30 requests with '
        'random tids / unit ids (hosted, unhosted, 0, 255) x pipelining k in {1,2,3,all}; non-trivial = at least one response '
        'was produced; distinct by (configuration, byte history)')


def gen_case(rng, frontend=None):
    fe = frontend or rng.choice(frontends.FRONTENDS)
    framer = rng.choice(serverlib.FRAMERS_FOR[fe])
    single, units = serverlib.gen_units(rng, single=True if framer == 'tls' else None, broken_p=rng.choice([0.0, 0.0, 0.3]))
    ignore = rng.random() < 0.5
    bcast = rng.random() < 0.4 and framer != 'tls'
    hosted = [u for u, _ in units]
    n = rng.choice([1, 2, 5, 12, 30])
    reqs, frames, meta = [], [], []
    for i in range(n):
        uid = rng.choice(hosted + hosted + [0, 1, 3, 255, rng.randrange(256)])
        layout = dict(units)[uid] if uid in dict(units) else units[0][1]
        r = execlib.gen_req(rng, layout, [], 0.15)
        if rng.random() < 0.05:
            r = {'t': 'illegalFunction', 'fc': rng.choice(execlib.UNASSIGNED_FC[1:] + [0x81, 0x83, 0x90, 0xFF]),
                 'data': rng.choice([[0, 1, 0, 1], [2], [1], [0x0B], []])}
        if rng.random() < 0.12:
            r = {'t': 'raw', 'pdu': rng.choice(serverlib.OTHER_PDUS)}
        tid = rng.choice([0, 1, 0xFFFF, rng.randrange(65536)])
        if framer == 'tcp' and frames and rng.random() < 0.25:
            # ids that look like something else: the CRC-16 (either byte order) or the LRC of the frame in front — a transaction
            # id is 16 free bits, nothing in a pipelined stream may take it for a trailer of the previous frame
            tid = serverlib.lookalike_tid(rng, frames[-1])
        if framer == 'tls':
            uid, tid = 0, 0       # a TLS record carries the bare PDU: the ids are the request object's defaults
        if framer == 'rtu' and r['t'] == 'illegalFunction':
            continue   # an unknown function code has no RTU frame length (C05 scope note)
        if framer == 'rtu' and 'raw' in r and len(r['raw']) != r.get('byte_count', r.get('write_byte_count')):
            continue   # on RTU the byte count field delimits the frame: a mismatch is a framing error, not a request
        pdu = r['pdu'] if r['t'] == 'raw' else list(execlib.enc_req(r))
        f = serverlib.frame_pdu(framer, pdu, uid, tid)
        if framer == 'binary' and framelib.has_delim(f):
            continue
        reqs.append(execlib.strip(r))
        frames.append(f)
        meta.append({'uid': uid, 'tid': tid, 'fc': pdu[0]})
        if rng.random() < 0.1:
            # the master repeats the request, byte for byte
            reqs.append(execlib.strip(r))
            frames.append(list(f))
            meta.append({'uid': uid, 'tid': tid, 'fc': pdu[0]})
    if framer == 'tls':
        chunks = frames           # one PDU per TLS record, one record per read
        per_chunk = [[m] for m in meta]
    elif fe in frontends.STREAM_FRONTENDS:
        k = rng.choice([1, 1, 2, 3, max(1, len(frames))])
        chunks = [[b for f in frames[i:i + k] for b in f] for i in range(0, len(frames), k)]
        per_chunk = [meta[i:i + k] for i in range(0, len(meta), k)]
    else:
        chunks = frames
        per_chunk = [[m] for m in meta]
    if fe in frontends.STREAM_FRONTENDS and framer != 'tls' and rng.random() < 0.3:
        # one request cut across two reads
        cand = [j for j, ms in enumerate(per_chunk) if len(ms) == 1 and len(chunks[j]) > 1]
        if cand:
            j = rng.choice(cand)
            k = rng.randrange(1, len(chunks[j]))
            chunks = chunks[:j] + [chunks[j][:k], chunks[j][k:]] + chunks[j + 1:]
            per_chunk = per_chunk[:j] + [[], per_chunk[j]] + per_chunk[j + 1:]
            glued = j          # no idle timeout between the two halves
        else:
            glued = None
    else:
        glued = None
    if fe == 'syncTcp' and rng.random() < 0.4:
        # the connection sits idle past the socket's receive timeout now and then (chunk None)
        for _ in range(rng.choice([1, 1, 2])):
            pos = rng.randrange(0, len(chunks) + 1)
            if glued is not None and pos == glued + 1:
                continue
            chunks = chunks[:pos] + [None] + chunks[pos:]
            per_chunk = per_chunk[:pos] + [[]] + per_chunk[pos:]
            if glued is not None and pos <= glued:
                glued += 1
    if (not single and len(units) >= 2 and all(0 <= u <= 247 for u in hosted) and 0 not in hosted and glued is None
            and framer != 'tls' and len(chunks) >= 2 and rng.random() < 0.25):
        # the application swaps a hosted unit for a new one while the server runs (`del context[u]; context[v] = slave`: the
        # number of units stays what it was), one read for a remaining unit goes by, then requests for the new unit arrive:
        # they are accepted requests like any other
        u = rng.choice(hosted)
        v = rng.choice([x for x in range(1, 248) if x not in hosted])
        lay = execlib.gen_layout(rng)
        w = rng.choice([x for x in hosted if x != u])
        extra, metas = [], []
        for uid, r in [(w, {'t': 'readHolding', 'address': 0, 'count': 1})] + [(v, execlib.gen_req(rng, lay, [], 0.1)) for _ in range(rng.choice([1, 2, 3]))]:
            if framer == 'rtu' and 'raw' in r and len(r['raw']) != r.get('byte_count', r.get('write_byte_count')):
                continue
            pdu = list(execlib.enc_req(r))
            tid = rng.randrange(65536)
            f = serverlib.frame_pdu(framer, pdu, uid, tid)
            if framer == 'binary' and framelib.has_delim(f):
                continue
            extra.append(f)
            metas.append([{'uid': uid, 'tid': tid, 'fc': pdu[0]}])
            reqs.append(execlib.strip(r))
        if extra and metas[0][0]['uid'] == w:
            pos = rng.randrange(1, len(chunks) + 1)
            if not any(c is None for c in chunks[pos - 1:pos + 1]):
                chunks = chunks[:pos] + [{'del': u}, {'add': v, 'layout': lay}] + extra + chunks[pos:]
                per_chunk = per_chunk[:pos] + [[], []] + metas + per_chunk[pos:]
    return dict(frontend=fe, framer=framer, single=single, units=units, ignore_missing=ignore, broadcast=bcast,
                chunks=chunks, reqs=reqs, per_chunk=per_chunk)


def expect_answer(c, m, hosted=None):
    """does the property require a response to this request? (True / False / 'either' for gateway exceptions)"""
    hosted = [u for u, _ in c['units']] if hosted is None else hosted
    has_bcast = c['frontend'] not in ('twistedTcp', 'twistedUdp')
    if c['broadcast'] and has_bcast and m['uid'] == 0:
        return False
    if c['single']:
        return True
    if m['uid'] in hosted:
        return True
    return 'gateway' if not c['ignore_missing'] else False


def accepted_by_framer(c, m, hosted=None):
    """the unit filter of the receive path (frames for units the server does not host are not requests it accepted)"""
    hosted = [u for u, _ in c['units']] if hosted is None else hosted
    if c['single'] or 0 in hosted or 255 in hosted:
        return True
    adds0 = c['broadcast'] and c['frontend'] not in ('twistedTcp', 'twistedUdp')
    return m['uid'] in hosted or (adds0 and m['uid'] == 0) or (adds0)  # 0 in units opens the filter for every unit


def check(ctx, rep, cases, where='server history'):
    res = serverlib.run_both(ctx, cases)
    for c, (real, a) in zip(cases, res):
        outs, escs, dumps, alive, control = real
        case = {k: c[k] for k in ('frontend', 'framer', 'single', 'units', 'ignore_missing', 'broadcast', 'chunks', 'reqs', 'per_chunk')}
        case['kind'] = 'server'
        produced = sum(len(o) for o in outs)
        rep.case((c['frontend'], c['framer'], str(c['chunks']), c['ignore_missing'], c['broadcast'], c['single']), nontrivial=produced > 0,
                 tag='%s:%s' % (c['frontend'], c['framer']))
        rep.sample({'frontend': c['frontend'], 'framer': c['framer'], 'requests': c['reqs'][:3], 'responses_per_chunk': [len(o) for o in outs][:6]}, cap=5)
        serverlib.compare(rep, case, real, a, where + ' vs Server.connStep')
        if any(e for e, ch in zip(escs, c['chunks']) if not isinstance(ch, dict)):
            rep.violation('an exception escaped the front-end while serving well-formed requests', case, escaped=escs)
            continue
        # the property on the real output
        hosted_now = [u for u, _ in c['units']]
        for chunk_out, metas, chunk in zip(outs, c['per_chunk'], c['chunks']):
            if isinstance(chunk, dict):
                if 'add' in chunk:
                    hosted_now = hosted_now + [chunk['add']]
                else:
                    hosted_now = [u for u in hosted_now if u != chunk['del']]
                continue
            frames = chunk_out
            parsed = serverlib.parse_responses(c['framer'], frames)
            expected = []
            for m in metas:
                if not accepted_by_framer(c, m, hosted_now):
                    continue
                e = expect_answer(c, m, hosted_now)
                if e is True or e == 'gateway':
                    expected.append((m, e))
            ok = len(parsed) == len(expected)
            if ok:
                for p, (m, e) in zip(parsed, expected):
                    if 'msg' not in p:
                        ok = False
                        break
                    same_fc = p['fc'] in (m['fc'], m['fc'] | 0x80)
                    if c['framer'] != 'tls' and p['uid'] != m['uid']:
                        ok = False
                    if c['framer'] == 'tcp' and p['tid'] != m['tid']:
                        ok = False
                    if not same_fc:
                        ok = False
                    if e == 'gateway' and not (p['msg']['t'] == 'exception' and p['msg']['code'] in (10, 11)):
                        ok = False
            if not ok and c['framer'] == 'binary' and any(framelib.has_delim(f) for f in frames):
                rep.violation('a binary response frame contains a delimiter byte', case, finding='binary-framer-escaping')
                break
            if not ok:
                rep.violation('responses written for a chunk are not exactly one matching response per accepted request', case,
                              requests=metas, parsed=[{k: v for k, v in p.items() if k != 'msg'} for p in parsed], expected=len(expected))
                break


def run(ctx):
    rep = Report(RULE)
    rng = ctx.rng
    total = ctx.scale(2500, 40000)
    done = 0
    while done < total and ctx.time_left() > 20:
        cases = [gen_case(rng) for _ in range(100)]
        cases = [c for c in cases if c['chunks']]
        check(ctx, rep, cases)
        done += len(cases)
    return rep


def replay(ctx, payload):
    rep = Report(RULE)
    c = dict(payload['case'])
    c.setdefault('reqs', [])
    if 'per_chunk' not in c:
        res = serverlib.run_both(ctx, [c])
        (real, a) = res[0]
        if not serverlib.compare(rep, c, real, a, 'replay'):
            return 'model/implementation disagreement'
        return None
    check(ctx, rep, [c])
    if rep.violations:
        return rep.violations[0]['what']
    if rep.disagreements:
        return 'model/implementation disagreement'
    return None
