"""C20 — device identification is returned completely, in pages that fit.

Real code: the Read Device Identification chain a client performs,
    ReadDeviceInformationRequest(rc, oid).encode() -> ServerDecoder().decode -> execute -> encode
    -> ClientDecoder().decode -> next request with next_object_id while more_follows == 0xFF
over the process-wide identity (ModbusControlBlock().Identity / ModbusDeviceIdentification.__data,
saved and restored around every case).
Model: lean/Pymodbus/Model/DevId.lean (`chain`), Spec: Spec/DevIdSpec.lean (`expected`, `StartOK`,
`chainOK`), theorems: Props/C20.lean."""
from harness.runner import Report
from harness.pyutil import errkind

from pymodbus.device import ModbusDeviceIdentification, ModbusControlBlock
from pymodbus.mei_message import ReadDeviceInformationRequest, ReadDeviceInformationResponse
from pymodbus.pdu import ExceptionResponse
from pymodbus.factory import ServerDecoder, ClientDecoder

ASSUMPTIONS = ['identity values are bytes or ASCII str (len(str) == len(encoded)); list-valued objects are not modelled',
               'object ids of the identity lie in 0..255; value lengths 0..245 (the property\'s range)',
               'the client continues with the same read code and object_id = the decoded next_object_id while the '
               'decoded more_follows byte is 0xFF (the protocol\'s continuation rule)']
TRUSTED = ['harness/c20.py save/restore of the class-level identity dict and canonicalisation of str/bytes values']

RULE = ('identities over random subsets of object ids 0..6 and 0x80..0xFF (values of length in '
        '{0,1,2,100,122,123,243,244,245} or random 0..245, or lengths tuned so that a page total lands on 245/246/247), '
        'built through the constructor, __setitem__ or update() in random key order; read codes 1..4 (rarely 0, 5..7); '
        'start ids: 0, every kind of populated/unpopulated id in and out of the category; the whole '
        'request/response chain through ServerDecoder/execute/encode/ClientDecoder with a step cap; '
        'non-trivial = at least one object delivered or more than one page; distinct by canonical JSON of the case')

KF_245 = 'devid-245-livelock'
KF_NONASCII = 'devid-nonascii-str-length'
_DATA = ModbusDeviceIdentification._ModbusDeviceIdentification__data
LENS = [0, 1, 2, 100, 122, 123, 243, 244, 245]


# ------------------------------------------------------------------ values
def mkval(desc):
    """desc = [kind, length, a, m]: kind 'b' -> bytes((a+m*i)%256), kind 's' -> printable ASCII str"""
    kind, n, a, m = desc
    if kind == 'b':
        return bytes((a + m * i) % 256 for i in range(n))
    return ''.join(chr(32 + (a + m * i) % 95) for i in range(n))


def as_bytes(v):
    if isinstance(v, bytes):
        return list(v)
    if isinstance(v, str):
        return list(v.encode())
    raise TypeError('unsupported identity value %r' % (v,))


def ident_items():
    return [[int(k), as_bytes(v)] for k, v in _DATA.items()]


# ------------------------------------------------------------------ real code
class identity_state(object):
    """save the process-wide identity dict, reset it to the class default, restore on exit"""

    def __enter__(self):
        self.saved = list(_DATA.items())
        _DATA.clear()
        _DATA.update(dict((i, '') for i in range(9)))
        return ModbusControlBlock().Identity

    def __exit__(self, *a):
        _DATA.clear()
        _DATA.update(self.saved)
        return False


def setup_identity(identity, case):
    items = [(k, mkval(d)) for k, d in case['items']]
    how = case['how']
    if how == 'ctor':
        ModbusDeviceIdentification(dict(items))
    elif how == 'update':
        identity.update(dict(items))
    else:
        for k, v in items:
            identity[k] = v


def canon_info(info):
    out = []
    for k, v in info.items():
        if isinstance(v, list):
            out.append([int(k), [as_bytes(x) for x in v]])
        else:
            out.append([int(k), [as_bytes(v)]])
    return out


def canon_client(r):
    if r is None:
        return None
    if isinstance(r, ExceptionResponse):
        return {'t': 'exception', 'fc': int(r.original_code), 'code': int(r.exception_code)}
    if isinstance(r, ReadDeviceInformationResponse):
        return {'t': 'info', 'sub': int(r.sub_function_code), 'read_code': int(r.read_code),
                'conformity': int(r.conformity), 'more_follows': int(r.more_follows),
                'next_object_id': int(r.next_object_id), 'number_of_objects': int(r.number_of_objects),
                'information': canon_info(r.information)}
    return {'t': 'other:' + type(r).__name__}


def real_chain(rc, oid, cap):
    """the client loop against the real server path; returns the list of page records"""
    pages = []
    for _ in range(cap):
        req = ReadDeviceInformationRequest(read_code=rc, object_id=oid)
        req_pdu = bytes([req.function_code]) + req.encode()
        sreq = ServerDecoder().decode(req_pdu)
        resp = sreq.execute(None)
        pdu = bytes([resp.function_code]) + resp.encode()
        cresp = ClientDecoder().decode(pdu)
        if isinstance(resp, ExceptionResponse):
            page = {'exc': int(resp.exception_code), 'more_follows': 0, 'next_object_id': 0, 'number_of_objects': 0}
        else:
            page = {'exc': None, 'more_follows': int(resp.more_follows), 'next_object_id': int(resp.next_object_id),
                    'number_of_objects': int(resp.number_of_objects)}
        page['pdu'] = list(pdu)
        page['client'] = canon_client(cresp)
        pages.append(page)
        if isinstance(cresp, ReadDeviceInformationResponse) and cresp.more_follows == 0xFF:
            oid = cresp.next_object_id
        else:
            break
    return pages


def run_real(case):
    with identity_state() as identity:
        setup_identity(identity, case)
        ident = ident_items()
        try:
            pages = real_chain(case['rc'], case['oid'], case['cap'])
            out = {'pages': pages, 'ident_after': ident_items()}
        except Exception as e:  # noqa
            out = {'err': errkind(e)}
    return ident, out


def page_objects(page):
    c = page['client']
    if not c or c.get('t') != 'info':
        return []
    return [[k, v] for k, vs in c['information'] for v in vs]


def page_more(page):
    c = page['client']
    return bool(c and c.get('t') == 'info' and c['more_follows'] == 0xFF)


# ------------------------------------------------------------------ generators
def gen_value(rng, n):
    kind = 'b' if rng.random() < 0.6 else 's'
    return [kind, n, rng.randrange(256), rng.choice([0, 1, 1, 3, 7])]


def category_ids(rc):
    if rc == 1:
        return list(range(0, 3))
    if rc == 2:
        return list(range(0, 7))
    return list(range(0, 7)) + list(range(0x80, 0x100))


def gen_case(rng, allow245=True):
    mode = rng.random()
    basic = list(range(0, 7))
    ext = list(range(0x80, 0x100))
    ids = [k for k in basic if rng.random() < rng.choice([0.3, 0.7, 1.0])]
    if rng.random() < 0.6:
        ids += rng.sample(ext, rng.choice([1, 2, 3, 5, 8, 20]))
    ids = sorted(set(ids))
    lens = {}
    crowded = rng.random() < 0.08
    if crowded:
        # a crowded identity: most of the 135 object ids populated with tiny values (a page holds up to 82 objects of one byte)
        ids = sorted(set(basic + rng.sample(ext, rng.choice([70, 76, 77, 82, 83, 100, 128]))))
        tiny = rng.choice([[1], [1, 1, 1, 2], [0, 1, 1, 1], [1, 2, 3]])
        for k in ids:
            lens[k] = rng.choice(tiny)
    elif mode < 0.45:
        pool = LENS if allow245 else LENS[:-1]
        for k in ids:
            lens[k] = rng.choice(pool)
    elif mode < 0.75:
        hi = 245 if allow245 else 244
        for k in ids:
            lens[k] = rng.choice([rng.randrange(0, hi + 1), rng.randrange(0, 40), rng.randrange(60, 130)])
    else:
        # tune the running page total: objects whose sizes (2+len) sum to 246 + delta
        for k in ids:
            lens[k] = rng.randrange(0, 120)
        if ids:
            n = rng.randrange(1, min(len(ids), 4) + 1)
            start = rng.randrange(0, len(ids) - n + 1)
            grp = ids[start:start + n]
            target = 246 + rng.choice([-1, 0, 1])
            rest = target - 2 * n
            for g in grp[:-1]:
                lens[g] = rng.randrange(0, max(1, rest // n) + 1)
                rest -= lens[g]
            lens[grp[-1]] = max(0, min(rest, 245 if allow245 else 244))
    items = [[k, gen_value(rng, lens[k])] for k in ids]
    if rng.random() < 0.5:
        rng.shuffle(items)
    how = rng.choice(['ctor', 'setitem', 'update'])
    r = rng.random()
    rc = rng.choice([1, 2, 3, 3, 4]) if r < 0.96 else rng.choice([0, 5, 6, 7])
    populated = [k for k in ids if lens[k] > 0]
    empty = [k for k in ids if lens[k] == 0]
    s = rng.random()
    if s < 0.35 or not ids:
        oid = 0
    elif s < 0.75 and populated:
        oid = rng.choice(populated)
    elif s < 0.85 and empty:
        oid = rng.choice(empty)
    else:
        oid = rng.choice([1, 2, 3, 6, 7, 8, 50, 127, 128, 129, 200, 254, 255, rng.randrange(256)])
    nobj = len(ids) + 1
    return {'kind': 'devid', 'items': items, 'how': how, 'rc': rc, 'oid': oid, 'cap': nobj + 3}


def sweep_cases():
    """deterministic: every read code x every start id class on a fixed five-page identity"""
    items = [[0, ['s', 100, 1, 1]], [1, ['b', 122, 2, 3]], [2, ['b', 123, 3, 1]], [3, ['s', 244, 4, 1]], [4, ['b', 0, 0, 0]],
             [6, ['s', 2, 5, 1]], [0x80, ['b', 243, 6, 7]], [0x81, ['b', 1, 7, 0]], [0xFF, ['s', 120, 8, 1]]]
    out = []
    for how in ('ctor', 'setitem'):
        for rc in (1, 2, 3, 4):
            for oid in (0, 1, 2, 3, 4, 5, 6, 7, 8, 0x7F, 0x80, 0x81, 0x82, 0xFE, 0xFF):
                out.append({'kind': 'devid', 'items': items, 'how': how, 'rc': rc, 'oid': oid, 'cap': 14})
    # crowded identities: every object id populated with one byte (82 objects fill a page exactly), and 83 objects
    for n in (135, 83, 82):
        ids = (list(range(0, 7)) + list(range(0x80, 0x100)))[:n]
        for oid in (0, 3):
            out.append({'kind': 'devid', 'items': [[k, ['b', 1, k, 0]] for k in ids], 'how': 'ctor', 'rc': 3, 'oid': oid, 'cap': 8})
    # an empty identity, and single objects at the size limit
    for rc in (1, 2, 3, 4):
        out.append({'kind': 'devid', 'items': [], 'how': 'ctor', 'rc': rc, 'oid': 0, 'cap': 4})
        for n in (243, 244):
            out.append({'kind': 'devid', 'items': [[0, ['b', n, 9, 1]]], 'how': 'ctor', 'rc': rc, 'oid': 0, 'cap': 4})
    return out


# ------------------------------------------------------------------ checks
def has_245(ident):
    return any(len(v) >= 245 for _, v in ident)


def check_cases(ctx, rep, cases):
    prepared = []
    for case in cases:
        ident, out = run_real(case)
        prepared.append((case, ident, out))
    answers = ctx.driver.query([{'op': 'devid', 'ident': ident, 'rc': c['rc'], 'oid': c['oid'], 'cap': c['cap']}
                                for c, ident, _ in prepared])
    for (case, ident, out), ans in zip(prepared, answers):
        if 'err' in ans:
            model = {'err': ans['err']}
        else:
            model = {'pages': ans['pages'], 'ident_after': ans['ident_after']}
        agree = rep.compare(case, out, model, 'device-identification chain vs Model.DevId.chain')
        pages = out.get('pages') or []
        delivered = [o for p in pages for o in page_objects(p)]
        rep.case(case, nontrivial=bool(delivered) or len(pages) > 1,
                 tag='rc%d-%s' % (case['rc'], 'err' if 'err' in out else 'p%d' % min(len(pages), 4)))
        rep.sample({'case': case, 'pages': [(len(p['pdu']), p['more_follows'], p['next_object_id'], p['number_of_objects'])
                                            for p in pages]}, cap=4)
        spec = ans.get('spec')
        if spec is None:
            continue  # read code outside 1..4: not in the property's scope (correspondence only)
        # a 245-byte value can never be sent (known finding) — only when the real code behaves as modelled
        finding = KF_245 if (has_245(ident) and agree) else None
        if 'err' in out:
            rep.violation('the device-identification exchange raised %s' % out['err'], case, finding=finding)
            continue
        rc = case['rc']
        # (1) size bound: for every identity, every start id
        for i, p in enumerate(pages):
            if len(p['pdu']) > 253:
                rep.violation('response PDU longer than 253 bytes', case, finding=None, page=i, length=len(p['pdu']))
                break
        if any(p['exc'] is not None for p in pages):
            rep.violation('exception response to a valid Read Device Identification request', case, finding=finding,
                          codes=[p['exc'] for p in pages])
            continue
        # (2) termination: the chain ends by itself, within max(1, #objects) requests
        if page_more(pages[-1]):
            rep.violation('the chain does not terminate: the last page within the step cap still says more-follows',
                          case, finding=finding, pages=len(pages),
                          tail=[(p['more_follows'], p['next_object_id'], p['number_of_objects']) for p in pages[-3:]])
            continue
        if not spec['in_scope']:
            continue  # other start ids: only the size bound and termination are demanded
        exp = spec['expected']
        # (3) completeness / exactness
        if delivered != exp:
            rep.violation('objects delivered over the chain differ from the configured non-empty objects of the category '
                          'from the start id on' if rc != 4 else 'individual access did not return exactly the requested object',
                          case, finding=finding, delivered=[(k, len(v)) for k, v in delivered],
                          expected=[(k, len(v)) for k, v in exp])
            continue
        if len(pages) > max(1, len(exp)):
            rep.violation('more requests than objects were needed', case, finding=finding, pages=len(pages), objects=len(exp))
        # (4) progress: a non-final page carries >= 1 object and next id > last id sent
        for i, p in enumerate(pages[:-1]):
            objs = page_objects(p)
            if not objs or p['client']['next_object_id'] <= objs[-1][0]:
                rep.violation('a more-follows page makes no progress', case, finding=finding, page=i)
                break
        if rc == 4 and len(pages) != 1:
            rep.violation('individual access answered in more than one page', case, finding=finding)


def reencode_cases(ctx, rep, n):
    """correspondence only: `encode()` called three times on the same response object (the paging
    attributes are object state: number_of_objects is reset, more_follows/next_object_id are sticky)"""
    rng = ctx.rng
    cases = []
    for _ in range(n):
        ids = sorted(rng.sample(range(256), rng.randrange(0, 6)))
        if rng.random() < 0.3:
            rng.shuffle(ids)
        items = [[k, gen_value(rng, rng.choice(LENS + [rng.randrange(0, 256), 255, 246, 250]))] for k in ids]
        cases.append({'kind': 'devid_enc', 'items': items, 'rc': rng.choice([0, 1, 2, 3, 4, 200, 255, 256]), 'times': 3})
    check_reencode(ctx, rep, cases)


def check_reencode(ctx, rep, cases):
    q = [{'op': 'devid_enc', 'info': [[k, as_bytes(mkval(d))] for k, d in c['items']], 'rc': c['rc'], 'times': c['times']}
         for c in cases]
    for case, ans in zip(cases, ctx.driver.query(q)):
        resp = ReadDeviceInformationResponse(case['rc'], dict((k, mkval(d)) for k, d in case['items']))
        outs = []
        for _ in range(case['times']):
            try:
                b = resp.encode()
                outs.append({'bytes': list(b), 'more_follows': int(resp.more_follows),
                             'next_object_id': int(resp.next_object_id), 'number_of_objects': int(resp.number_of_objects)})
            except Exception as e:  # noqa
                outs.append({'err': errkind(e)})
                break
        rep.case(case, nontrivial=any('bytes' in o and len(o['bytes']) > 6 for o in outs), tag='reencode')
        rep.compare(case, outs, ans, 'ReadDeviceInformationResponse.encode x3 vs Model.DevId.Resp.encode')
        for o in outs:
            if 'bytes' in o and len(o['bytes']) + 1 > 253:
                rep.violation('response PDU longer than 253 bytes', case, length=len(o['bytes']) + 1)
                break


def check_nonascii_case(rep, case):
    """outside the model (its values are byte strings): a `str` value with non-ASCII characters is
    accounted and announced with len(str) but sent UTF-8 encoded.  Direct predicates on the real code."""
    items, rc = case['items'], case['rc']
    rep.case(case, nontrivial=True, tag='nonascii')
    with identity_state() as identity:
        for k, v in items:
            identity[k] = v
        try:
            pages = real_chain(rc, case['oid'], case['cap'])
        except Exception as e:  # noqa
            rep.violation('the device-identification exchange raised %s' % errkind(e), case, finding=KF_NONASCII)
            return
    exp = [[k, list(v.encode())] for k, v in sorted(items) if k in category_ids(rc) and k >= case['oid']]
    delivered = [o for p in pages for o in page_objects(p)]
    if any(len(p['pdu']) > 253 for p in pages):
        rep.violation('response PDU longer than 253 bytes', case, finding=KF_NONASCII,
                      lengths=[len(p['pdu']) for p in pages])
    elif delivered != exp or page_more(pages[-1]):
        rep.violation('objects delivered over the chain differ from the configured objects', case, finding=KF_NONASCII,
                      delivered=[(k, len(v)) for k, v in delivered], expected=[(k, len(v)) for k, v in exp])


def nonascii_cases(ctx, rep, n):
    rng = ctx.rng
    for _ in range(n):
        ids = sorted(rng.sample(range(0, 7), rng.randrange(1, 4)))
        items = [[k, rng.choice(['\u00e9', '\u20ac', 'a\u00e9']) * rng.choice([1, 5, 60, 100, 122, 200, 244])] for k in ids]
        check_nonascii_case(rep, {'kind': 'devid_nonascii', 'items': items, 'rc': rng.choice([1, 2, 3]), 'oid': 0, 'cap': 12})


def run(ctx):
    rep = Report(RULE)
    rng = ctx.rng
    corpus = ctx.corpus()
    check_cases(ctx, rep, [c for c in corpus if c.get('kind') == 'devid'])
    for c in corpus:
        if c.get('kind') == 'devid_nonascii':
            check_nonascii_case(rep, c)
    sw = sweep_cases()
    check_cases(ctx, rep, sw)
    rep.notes.append('deterministic sweep: %d cases (4 read codes x 15 start ids x 2 construction paths on a five-page identity, '
                     'empty identity, single 243/244-byte objects)' % len(sw))
    total = ctx.scale(3000, 100000)
    batch = 300
    done = 0
    while done < total and ctx.time_left() > ctx.scale(25, 120):
        check_cases(ctx, rep, [gen_case(rng, allow245=(rng.random() < 0.3)) for _ in range(batch)])
        done += batch
    rep.notes.append('random chains: %d' % done)
    reencode_cases(ctx, rep, ctx.scale(400, 5000))
    nonascii_cases(ctx, rep, ctx.scale(40, 400))
    rep.exhaustive = False
    return rep


def replay(ctx, payload):
    rep = Report(RULE)
    if payload.get('kind') == 'no-failing-input-found':
        cs = [d['case'] for d in payload.get('first_disagreements', [])]
    else:
        cs = [payload['case']]
    for c in cs:
        k = c.get('kind')
        if k == 'devid':
            check_cases(ctx, rep, [c])
        elif k == 'devid_enc':
            check_reencode(ctx, rep, [c])
        elif k == 'devid_nonascii':
            check_nonascii_case(rep, c)
        else:
            return 'unknown case kind %r' % k
    bad = [v for v in rep.violations if v.get('finding') not in (KF_245, KF_NONASCII)]
    if bad:
        return bad[0]['what']
    if rep.disagreements:
        return 'model/implementation disagreement at ' + rep.disagreements[0]['where']
    if rep.violations:
        return rep.violations[0]['what'] + ' (known finding %s)' % rep.violations[0]['finding']
    return None
