"""C18 — datastore blocks and contexts address exactly their cells.

Real code: ModbusSequentialDataBlock / ModbusSparseDataBlock / ModbusSlaveContext /
ModbusServerContext.  Model: lean/Pymodbus/Model/Store.lean.  Spec: Spec/StoreSpec.lean
(partial map address -> value), theorems in Props/C18.lean."""
import itertools

from harness.runner import Report
from harness.pyutil import errkind, as_nat_list

from pymodbus.datastore import (ModbusSequentialDataBlock, ModbusSparseDataBlock,
                                ModbusSlaveContext, ModbusServerContext)

ASSUMPTIONS = ['cell values are non-negative ints or bools (bools compared as 0/1)',
               'Python list slicing / dict insertion order as modelled']

RULE = ('block op sequences (validate/get/set/reset/dump) over sequential blocks (start in '
        '{0,1,5,65530}, length 1..10) and sparse blocks (key sets with gaps), addresses/counts around every '
        'boundary (exhaustive window for small blocks), slave-context sequences over shared/separate tables '
        'with zero-mode on/off, server-context set/get/del/contains sequences; a case is non-trivial when at '
        'least one op is accepted (validate true / value returned) and distinct by its canonical JSON')


# ------------------------------------------------------------------ real code runners
_SHARED_INIT = {}     # an application's "factory defaults": ONE list object per distinct initial content, reused for every block


def shared_init(values, pybool=False):
    """the list object handed to every sequential block that starts from these values.  A block must own its cells: whatever
    is written into one block must never show up in this list (or in another block built from it).  pybool: the initial
    values are Python bools (False / True) instead of ints."""
    key = (bool(pybool), tuple(int(v) for v in values))
    if key not in _SHARED_INIT:
        if len(_SHARED_INIT) > 4000:
            _SHARED_INIT.clear()
        _SHARED_INIT[key] = [bool(v) for v in values] if pybool else list(values)
    return _SHARED_INIT[key]


def shared_init_intact():
    """[] or the initial contents whose shared list no longer holds them (a block wrote through to it)"""
    return [list(k[1]) for k, v in _SHARED_INIT.items() if list(k[1]) != [int(x) for x in v]]


def mk_block(desc):
    if desc['kind'] == 'default':
        return ModbusSequentialDataBlock.create()
    if desc['kind'] == 'seq':
        pyb = bool(desc.get('pybool')) and all(v in (0, 1) for v in desc['values'])
        return ModbusSequentialDataBlock(desc['address'], shared_init(desc['values'], pyb))
    return ModbusSparseDataBlock(dict((k, v) for k, v in desc['items']))


def dump_block(b):
    return [[int(k), int(v)] for k, v in b]


def run_block_ops(desc, ops):
    b = mk_block(desc)
    outs = []
    run_block_ops.validate_mismatch = None
    for op in ops:
        try:
            if op[0] == 'validate':
                outs.append(bool(b.validate(op[1], op[2])))
                if op[2] >= 1 and run_block_ops.validate_mismatch is None and desc['kind'] != 'default':
                    # the first sentence of the property, on the block's OWN current contents (whatever the history was)
                    populated = set(k for k, _ in dump_block(b))
                    want = all(op[1] + i in populated for i in range(op[2]))
                    if outs[-1] != want:
                        run_block_ops.validate_mismatch = (len(outs) - 1, outs[-1], want)
            elif op[0] == 'get':
                outs.append(as_nat_list(b.getValues(op[1], op[2])))
            elif op[0] == 'set':
                vals = list(op[2])
                if len(op) > 4 and op[3] == 'dict':
                    # the dict form of a sparse block's setValues: {address: value}; the first argument is not part of the addresses
                    b.setValues(op[4], {op[1]: vals[0]})
                else:
                    b.setValues(op[1], vals[0] if len(op) > 3 and op[3] == 'scalar' else vals)
                # the block must hold its own cells: changing the caller's list afterwards must not reach into it
                d0 = dump_block(b)
                for i in range(len(vals)):
                    vals[i] = 1 - vals[i] if vals[i] in (0, 1) else (vals[i] + 1) % 65536
                outs.append(None if dump_block(b) == d0 else 'aliases-the-callers-list')
            elif op[0] == 'reset':
                b.reset()
                outs.append(None)
            elif op[0] == 'dump':
                outs.append(dump_block(b))
        except Exception as e:  # noqa
            outs.append({'err': errkind(e)})
    try:
        d = dump_block(b)
    except Exception as e:  # noqa
        d = {'err': errkind(e)}
    return outs, d, b


def cells_of(dump, lo, hi):
    if isinstance(dump, dict):
        return dump
    return sorted([k, v] for k, v in dump if lo <= k <= hi)


# ------------------------------------------------------------------ write algebra on the real blocks
def _accepted_ranges(desc):
    """every (address, count>=1) whose cells are all populated, from the description (not from the block)"""
    if desc['kind'] == 'seq':
        ks = set(range(desc['address'], desc['address'] + len(desc['values'])))
    else:
        ks = set(k for k, _ in desc['items'])
    out = []
    for a in sorted(ks):
        n = 1
        while a + n - 1 in ks:
            out.append((a, n))
            n += 1
    return out


def algebra_probe(ctx, rep, n):
    """The statements of Props.C18.set_commute_disjoint / set_overwrite / set_idempotent / validate_after_set /
    get_unaffected_by_disjoint_set, run on the real block classes (two fresh blocks per law, different orders)."""
    rng = ctx.rng
    done = 0
    for _ in range(n):
        d = gen_block(rng)
        rs = _accepted_ranges(d)
        (a1, n1) = rng.choice(rs)
        disjoint = [(a, k) for a, k in rs if a1 + n1 <= a or a + k <= a1]
        vs = [rng.randrange(0, 65536) for _ in range(n1)]
        case = {'kind': 'algebra', 'block': d, 'first': [a1, vs]}
        try:
            b = mk_block(d)
            before = set(k for k, _ in dump_block(b))
            acc0 = [(a, k, bool(b.validate(a, k))) for a in range(min(before) - 2, max(before) + 3) for k in (1, 2, 3)]
            b.setValues(a1, list(vs))
            once = dump_block(b)
            acc1 = [(a, k, bool(b.validate(a, k))) for a in range(min(before) - 2, max(before) + 3) for k in (1, 2, 3)]
            b.setValues(a1, list(vs))
            if dump_block(b) != once:
                rep.violation('writing the same values to the same range twice changed the block', case)
                continue
            if acc0 != acc1:
                rep.violation('a write changed which ranges the block accepts', case)
                continue
            ws = [rng.randrange(0, 65536) for _ in range(n1)]
            b.setValues(a1, list(ws))
            c = mk_block(d)
            c.setValues(a1, list(ws))
            if dump_block(b) != dump_block(c):
                rep.violation('an earlier write to a range survives a later write to the same range', dict(case, second=[a1, ws]))
                continue
            if disjoint:
                (a2, n2) = rng.choice(disjoint)
                us = [rng.randrange(0, 65536) for _ in range(n2)]
                case = dict(case, second=[a2, us])
                x, y = mk_block(d), mk_block(d)
                r0 = as_nat_list(x.getValues(a2, n2))
                x.setValues(a1, list(vs))
                if as_nat_list(x.getValues(a2, n2)) != r0:
                    rep.violation('a write changed what a read of a disjoint range returns', case)
                    continue
                x.setValues(a2, list(us))
                y.setValues(a2, list(us))
                y.setValues(a1, list(vs))
                if dump_block(x) != dump_block(y):
                    rep.violation('writes to two disjoint accepted ranges give different cells in the two orders', case)
                    continue
            done += 1
        except Exception as e:  # noqa
            rep.violation('a write or read of an accepted range raised %s' % errkind(e), case)
        finally:
            if shared_init_intact():
                _SHARED_INIT.clear()
    rep.notes.append('write algebra (commute/overwrite/idempotent/no-bleed/validate stable) on the real blocks: %d probes' % done)


# ------------------------------------------------------------------ generators
def gen_block(rng):
    if rng.random() < 0.55:
        start = rng.choice([0, 1, 5, 65530, rng.randrange(0, 200)])
        n = rng.choice([1, 2, 3, 10, rng.randrange(1, 12)])
        return {'kind': 'seq', 'address': start, 'values': [rng.randrange(0, 70000) if rng.random() < 0.2 else rng.randrange(0, 4) for _ in range(n)]}
    base = rng.choice([0, 1, 7, 100, 65530])
    keys = sorted(set(base + rng.randrange(0, 14) for _ in range(rng.randrange(1, 10))))
    if rng.random() < 0.3:
        rng.shuffle(keys)
    return {'kind': 'sparse', 'items': [[k, rng.randrange(0, 5)] for k in keys]}


def extent(desc):
    if desc['kind'] == 'default':
        return 0, 65535
    if desc['kind'] == 'seq':
        return desc['address'], desc['address'] + len(desc['values']) - 1
    ks = [k for k, _ in desc['items']]
    return min(ks), max(ks)


def gen_ops(rng, desc, n, raw):
    lo, hi = extent(desc)
    ops = []
    for _ in range(n):
        a = rng.choice([lo - 1, lo, lo + 1, hi - 1, hi, hi + 1, rng.randrange(max(0, lo - 2), hi + 3)])
        cnt = rng.choice([1, 1, 2, 3, hi - lo + 1, hi - lo + 2, rng.randrange(1, 6)])
        if raw and rng.random() < 0.15:
            cnt = rng.choice([0, -1, cnt])
        r = rng.random()
        if r < 0.3:
            ops.append(['validate', a, cnt])
        elif r < 0.6:
            ops.append(['get', a, cnt])
        elif r < 0.8:
            ops.append(['set', a, [rng.randrange(0, 65536) for _ in range(max(cnt, 0) if raw else max(cnt, 1))]])
            if desc['kind'] == 'sparse' and desc.get('items') and rng.random() < 0.3:
                # the same write of ONE populated cell in the dict form, given with an unrelated first argument
                k = rng.choice(desc['items'])[0]
                ops[-1] = ['set', k, [rng.randrange(0, 65536)], 'dict', rng.choice([0, 1, a, 7, 1000])]
        elif r < 0.9:
            # a bare scalar instead of a list (the blocks wrap it): zero is the interesting one
            ops.append(['set', a, [rng.choice([0, 0, 1, rng.randrange(0, 65536)])], 'scalar'])
        elif r < 0.95:
            ops.append(['reset'])
        else:
            ops.append(['dump'])
    return ops


# ------------------------------------------------------------------ checks
def check_block_cases(ctx, rep, cases):
    """cases: list of (desc, ops, window).  Correspondence (all ops) + property oracle (in-scope prefix)."""
    q = [{'op': 'store', 'block': d, 'ops': [o[:3] if len(o) > 4 and o[3] == 'dict' else o for o in ops], 'window': list(w)} for d, ops, w in cases]
    answers = ctx.driver.query(q)
    for (desc, ops, w), ans in zip(cases, answers):
        outs, dump, _ = run_block_ops(desc, ops)
        case = {'kind': 'block', 'block': desc, 'ops': ops, 'window': list(w)}
        accepted = any(o is True or (isinstance(o, list) and o) for o in outs)
        rep.case(case, nontrivial=accepted, tag='block-' + desc['kind'])
        rep.sample(case, cap=3)
        vm = run_block_ops.validate_mismatch
        broken_init = shared_init_intact()
        if broken_init:
            rep.violation('a sequential block shares storage with the list it was built from: writing to the block changed the '
                          'caller\'s list (and every other block built from it)', case, initial_values=broken_init[0][:20])
            _SHARED_INIT.clear()
            continue
        rep.compare(case, {'outs': outs, 'dump': dump}, {'outs': ans['outs'], 'dump': ans['dump']}, 'block ops vs Model.Store')
        if vm is not None:
            rep.violation('validate(address, count) does not accept exactly the ranges whose cells are all populated (the block\'s own '
                          'contents at that point of the history)', case, op_index=vm[0], impl=vm[1], populated_says=vm[2])
            continue
        # property oracle: on the in-scope prefix the real block must behave like the partial map
        so = ans['spec_outs']
        for i, s in enumerate(so):
            if ops[i][0] == 'dump':
                continue
            if outs[i] == 'aliases-the-callers-list':
                rep.violation('after setValues the block shares storage with the list the caller passed: a later change of '
                              'that list changes cells of the block', case, op_index=i)
                break
            if outs[i] != s:
                rep.violation('block operation result differs from the partial-map spec', case,
                              finding=kf_block(desc, ops[:i + 1], outs[i]), op_index=i, impl=outs[i], spec=s)
                break
        else:
            if ans['in_scope']:
                ic = cells_of(dump, w[0], w[1])
                if ic != ans['spec_cells']:
                    rep.violation('block cells after the sequence differ from the partial-map spec', case,
                                  finding=kf_block(desc, ops, ic), impl=ic, spec=ans['spec_cells'])


def kf_block(desc, ops, observed):
    return None


def block_sweep(ctx, rep):
    """exhaustive boundary window for small blocks: every a in start-2..end+2, n in 0..len+2"""
    cases = []
    descs = [{'kind': 'seq', 'address': s, 'values': list(range(10, 10 + n))} for s in (0, 1, 5, 65530) for n in (1, 2, 3)]
    descs += [{'kind': 'sparse', 'items': [[k, k % 7 + 1] for k in ks]} for ks in ([0], [3, 4, 5], [3, 5], [1, 2, 9, 10], [65534, 65535])]
    for d in descs:
        lo, hi = extent(d)
        w = (max(0, lo - 4), hi + 4)
        for a in range(lo - 2, hi + 3):
            for n in range(0, hi - lo + 4):
                ops = [['validate', a, n]]
                cases.append((d, ops, w))
                if n >= 1:
                    cases.append((d, [['validate', a, n], ['get', a, n]], w))
                    cases.append((d, [['validate', a, n], ['set', a, [100 + i for i in range(n)]], ['get', a, n], ['dump']], w))
    # keep only get/set that the real validate accepts in the guarded family (others are raw behaviour,
    # still compared with the model but outside the property's scope)
    check_block_cases(ctx, rep, cases)
    return len(cases)


# ------------------------------------------------------------------ slave context
FX = [1, 2, 3, 4, 5, 6, 15, 16, 22, 23]
LETTER = {2: 'd', 4: 'i', 3: 'h', 6: 'h', 16: 'h', 22: 'h', 23: 'h', 1: 'c', 5: 'c', 15: 'c'}


def gen_slave(rng):
    nblocks = rng.choice([1, 2, 4, 4])
    blocks = [gen_block(rng) for _ in range(nblocks)]
    idx = {t: rng.randrange(nblocks) for t in 'dcih'} if nblocks < 4 else dict(zip('dcih', rng.sample(range(4), 4)))
    return {'blocks': blocks, 'd': idx['d'], 'c': idx['c'], 'i': idx['i'], 'h': idx['h'], 'zero': rng.random() < 0.5,
            'zconf': rng.choice(['explicit', 'explicit', 'explicit-under-other-default', 'from-default'])}


def build_slave_context(desc, **blocks):
    """ModbusSlaveContext for desc['zero'], configured in one of the ways an application can: the keyword given explicitly;
    given explicitly while the library-wide default (constants.Defaults.ZeroMode) says the opposite — the explicit
    argument wins; or left out, with the library-wide default set to the wanted mode"""
    from pymodbus.constants import Defaults
    how = desc.get('zconf', 'explicit')
    saved = Defaults.ZeroMode
    try:
        if how == 'explicit-under-other-default':
            Defaults.ZeroMode = not desc['zero']
            return ModbusSlaveContext(zero_mode=desc['zero'], **blocks)
        if how == 'from-default':
            Defaults.ZeroMode = bool(desc['zero'])
            return ModbusSlaveContext(**blocks)
        return ModbusSlaveContext(zero_mode=desc['zero'], **blocks)
    finally:
        Defaults.ZeroMode = saved


def mk_slave(desc):
    blocks = [mk_block(b) for b in desc['blocks']]
    return build_slave_context(desc, di=blocks[desc['d']], co=blocks[desc['c']], ir=blocks[desc['i']],
                               hr=blocks[desc['h']]), blocks


def run_slave_ops(desc, ops):
    s, blocks = mk_slave(desc)
    outs = []
    for op in ops:
        try:
            if op[0] == 'validate':
                outs.append(bool(s.validate(op[1], op[2], op[3])))
            elif op[0] == 'get':
                outs.append(as_nat_list(s.getValues(op[1], op[2], op[3])))
            elif op[0] == 'set':
                # the property's write clause, checked on the real context: a range it accepts is written, visible to the next
                # read, and no exception comes out of the write
                try:
                    accepted = op[1] in LETTER and bool(s.validate(op[1], op[2], len(op[3]))) and len(op[3]) >= 1
                except Exception:  # noqa
                    accepted = False
                try:
                    s.setValues(op[1], op[2], list(op[3]))
                except Exception as e:  # noqa
                    if accepted and run_slave_ops.write_fault is None:
                        run_slave_ops.write_fault = (len(outs), 'raised ' + errkind(e))
                    raise
                outs.append(None)
                if accepted and run_slave_ops.write_fault is None:
                    back = as_nat_list(s.getValues(op[1], op[2], len(op[3])))
                    if back != [int(v) for v in op[3]]:
                        run_slave_ops.write_fault = (len(outs) - 1, 'read back %r' % (back[:6],))
            elif op[0] == 'reset':
                s.reset()
                outs.append(None)
        except Exception as e:  # noqa
            outs.append({'err': errkind(e)})
    return outs, [dump_block(b) for b in blocks]


run_slave_ops.write_fault = None


def slave_cases(ctx, rep, n):
    rng = ctx.rng
    cases = []
    for _ in range(n):
        d = gen_slave(rng)
        ops = []
        for _ in range(rng.randrange(1, 12)):
            fx = rng.choice(FX + [rng.choice([0, 7, 99])] if rng.random() < 0.05 else FX)
            blk = d['blocks'][d[LETTER.get(fx, 'h')]]
            lo, hi = extent(blk)
            off = 0 if d['zero'] else 1
            a = rng.choice([lo - off - 1, lo - off, lo - off + 1, hi - off, hi - off + 1, rng.randrange(max(0, lo - 2), hi + 3)])
            a = max(a, 0)
            cnt = rng.choice([1, 2, 3, hi - lo + 1])
            r = rng.random()
            if r < 0.35:
                ops.append(['validate', fx, a, cnt])
            elif r < 0.65:
                ops.append(['get', fx, a, cnt])
            elif r < 0.97:
                ops.append(['set', fx, a, [rng.randrange(0, 65536) for _ in range(cnt)]])
            else:
                ops.append(['reset'])
        cases.append((d, ops))
    answers = ctx.driver.query([{'op': 'slave', 'ctx': d, 'ops': ops} for d, ops in cases])
    for (d, ops), ans in zip(cases, answers):
        run_slave_ops.write_fault = None
        outs, dumps = run_slave_ops(d, ops)
        case = {'kind': 'slave', 'ctx': d, 'ops': ops}
        if run_slave_ops.write_fault is not None:
            rep.violation('a write to a range the slave context accepts was not applied (or raised)', case,
                          op_index=run_slave_ops.write_fault[0], observed=run_slave_ops.write_fault[1])
        rep.case(case, nontrivial=any(o is True or (isinstance(o, list) and o) for o in outs), tag='slave')
        rep.sample(case, cap=4)
        rep.compare(case, {'outs': outs, 'dump': dumps}, {'outs': ans['outs'], 'dump': ans['dump']}, 'slave ctx ops vs Model.Store')
        # property oracle (offset rule), checked directly on the real objects for the first op
        s, blocks = mk_slave(d)
        off = 0 if d['zero'] else 1
        for op in ops:
            if op[0] != 'validate' or op[1] not in LETTER:
                continue
            blk = blocks[d[LETTER[op[1]]]]
            try:
                exp = bool(blk.validate(op[2] + off, op[3]))
                got = bool(s.validate(op[1], op[2], op[3]))
            except Exception as e:  # noqa
                continue
            if exp != got:
                rep.violation('slave context does not apply the documented address offset / table map', case,
                              op=op, impl=got, spec=exp)
            break


def slave_default_tables(rep):
    """a slave context built with ANY subset of its four tables left out (the constructor supplies a default block for each
    missing one), both zero modes: the four tables are four tables - a write through one function code changes exactly the
    addressed cells of that table and is seen by no other table, given or defaulted.  Checked on the real context against four
    independent maps."""
    import itertools
    names = {'d': 'di', 'c': 'co', 'i': 'ir', 'h': 'hr'}
    fx_of = {'d': 2, 'c': 1, 'i': 4, 'h': 3}
    for zero in (False, True):
        for r in range(0, 5):
            for given in itertools.combinations('dcih', r):
                desc = {'zero': zero, 'zconf': 'explicit'}
                kw = {names[t]: ModbusSequentialDataBlock(0, [0] * 40) for t in given}
                s = build_slave_context(desc, **kw)
                case = {'kind': 'slave-defaults', 'zero': zero, 'given': [names[t] for t in given]}
                rep.case(('slave-defaults', zero, given), nontrivial=True, tag='slave-defaults')
                spec = {t: {} for t in 'dcih'}
                bad = None
                try:
                    for k, t in enumerate('dcih'):
                        vals = [1, 0, 1] if t in 'dc' else [1000 * (k + 1) + 1, 1000 * (k + 1) + 2, 1000 * (k + 1) + 3]
                        a = 5 + k
                        if not s.validate(fx_of[t], a, 3):
                            bad = 'table %s rejects the in-range write (%d, 3)' % (names[t], a)
                            break
                        s.setValues(fx_of[t], a, list(vals))
                        for j, v in enumerate(vals):
                            spec[t][a + j] = v
                        for u in 'dcih':
                            got = [int(x) for x in s.getValues(fx_of[u], 0, 20)]
                            exp = [spec[u].get(x, 0) for x in range(20)]
                            if got != exp:
                                bad = 'after the write to %s, table %s reads %r, expected %r' % (names[t], names[u], got, exp)
                                break
                        if bad:
                            break
                except Exception as e:  # noqa
                    bad = 'raised ' + errkind(e)
                if bad:
                    rep.violation('a write through one table of a slave context (some tables defaulted) is not confined to the addressed cells '
                                  'of that table', case, observed=bad)


# ------------------------------------------------------------------ server context
def server_ctx_cases(ctx, rep, n):
    rng = ctx.rng
    cases = []
    for _ in range(n):
        single = rng.random() < 0.35
        ids = sorted(set(rng.choice([0, 1, 2, 17, 247, 248, 255]) for _ in range(rng.randrange(0, 4))))
        if single:
            init = [[0, 100]]
        else:
            init = [[u, 100 + i] for i, u in enumerate(ids)]
        ops = []
        for k in range(rng.randrange(1, 14)):
            u = rng.choice([0, 1, 2, 17, 246, 247, 248, 255, 256, -1, rng.randrange(0, 260)])
            r = rng.random()
            if r < 0.4:
                ops.append(['get', u])
            elif r < 0.6:
                ops.append(['contains', u])
            elif r < 0.85:
                ops.append(['set', u, 200 + k])
            else:
                ops.append(['del', u])
        cases.append((single, init, ops))
    answers = ctx.driver.query([{'op': 'sctx', 'single': s, 'slaves': i, 'ops': o} for s, i, o in cases])
    for (single, init, ops), ans in zip(cases, answers):
        if single:
            sc = ModbusServerContext(slaves=100, single=True)
        elif init:
            sc = ModbusServerContext(slaves=dict((u, c) for u, c in init), single=False)
        else:
            # an empty collection, built each of the ways a caller may build it (several contexts live in one process)
            how = len(ops) % 3
            sc = (ModbusServerContext(single=False) if how == 0 else ModbusServerContext(slaves=None, single=False) if how == 1
                  else ModbusServerContext(slaves={}, single=False))
            born = [[int(k), v] for k, v in sc]
            if born:
                rep.violation('a freshly built, empty server context already routes unit ids (registry shared with another context)',
                              {'kind': 'sctx', 'single': single, 'slaves': init, 'ops': ops, 'ctor': how}, routed=born)
        outs = []
        registered = {} if not single else None
        if not single:
            registered = dict((u, c) for u, c in init)
        cur_single = 100
        case = {'kind': 'sctx', 'single': single, 'slaves': init, 'ops': ops}
        for op in ops:
            try:
                if op[0] == 'get':
                    r = sc[op[1]]
                    outs.append(r)
                    exp = cur_single if single else registered.get(op[1], 'noslave')
                    if r != exp:
                        rep.violation('server context routed a unit id to the wrong context', case, op=op, impl=r, spec=exp)
                elif op[0] == 'contains':
                    outs.append(op[1] in sc)
                elif op[0] == 'set':
                    sc[op[1]] = op[2]
                    outs.append(None)
                    if single:
                        cur_single = op[2]
                    else:
                        if not (0 <= op[1] <= 247):
                            rep.violation('registration of a unit id outside 0..247 was accepted', case, op=op)
                        registered[op[1]] = op[2]
                elif op[0] == 'del':
                    del sc[op[1]]
                    outs.append(None)
                    if not single:
                        registered.pop(op[1], None)
            except Exception as e:  # noqa
                k = errkind(e)
                outs.append({'err': k})
                if op[0] == 'get':
                    exp_missing = (not single) and op[1] not in registered
                    if not (k == 'noslave' and exp_missing):
                        rep.violation('server context lookup raised %s for a unit it should route' % k, case, op=op)
                if op[0] == 'set' and not single and 0 <= op[1] <= 247:
                    rep.violation('registration of a unit id inside 0..247 was refused', case, op=op, err=k)
        slaves = [[int(k), v] for k, v in sc]
        rep.case(case, nontrivial=any(isinstance(o, int) and not isinstance(o, bool) for o in outs), tag='sctx')
        rep.sample(case, cap=5)
        rep.compare(case, {'outs': outs, 'slaves': slaves}, {'outs': ans['outs'], 'slaves': ans['slaves']}, 'server ctx ops vs Model.Store')


# ------------------------------------------------------------------ entry points
def run(ctx):
    rep = Report(RULE)
    check_block_cases(ctx, rep, [(c['block'], c['ops'], tuple(c['window'])) for c in ctx.corpus() if c['kind'] == 'block'])
    nsweep = block_sweep(ctx, rep)
    rep.notes.append('boundary sweep: %d cases, every (address,count) in the window of 17 small blocks' % nsweep)
    rep.exhaustive = False
    rng = ctx.rng
    total = ctx.scale(3000, 120000)
    batch = 1000
    maxlen = ctx.scale(30, 300)
    done = 0
    while done < total and ctx.time_left() > 20:
        cases = []
        for _ in range(batch):
            d = gen_block(rng)
            lo, hi = extent(d)
            raw = rng.random() < 0.3
            n = rng.choice([1, 2, 5, 10, rng.randrange(1, maxlen + 1)])
            cases.append((d, gen_ops(rng, d, n, raw), (max(0, lo - 6), hi + 8)))
        check_block_cases(ctx, rep, cases)
        done += batch
    algebra_probe(ctx, rep, ctx.scale(1500, 40000))
    slave_cases(ctx, rep, ctx.scale(2000, 60000))
    slave_default_tables(rep)
    server_ctx_cases(ctx, rep, ctx.scale(2000, 60000))
    return rep


def replay(ctx, payload):
    rep = Report(RULE)
    c = payload['case']
    if c['kind'] == 'block':
        check_block_cases(ctx, rep, [(c['block'], c['ops'], tuple(c['window']))])
    elif c['kind'] == 'algebra':
        return 'replay of the write-algebra probe: re-run the check with the recorded seed (the case names block and ranges)'
    elif c['kind'] == 'slave-defaults':
        slave_default_tables(rep)
    elif c['kind'] == 'sctx' and 'ctor' in c:
        # registry isolation between contexts of one process: register on one default-built context, build another
        first = ModbusServerContext(single=False)
        first[5] = 500
        second = (ModbusServerContext(single=False) if c['ctor'] == 0 else ModbusServerContext(slaves=None, single=False) if c['ctor'] == 1
                  else ModbusServerContext(slaves={}, single=False))
        if [k for k, _ in second]:
            return 'a freshly built, empty server context already routes unit ids (registry shared with another context)'
        return None
    else:
        return 'replay of %s cases: re-run the check with the recorded seed' % c['kind']
    if rep.violations:
        return rep.violations[0]['what']
    if rep.disagreements:
        return 'model/implementation disagreement'
    return None
