"""Shared by C03/C06/C07/C11 (and the server/client checks): driving the REAL framers."""
from pymodbus.factory import ServerDecoder, ClientDecoder
from pymodbus.framer.socket_framer import ModbusSocketFramer
from pymodbus.framer.rtu_framer import ModbusRtuFramer
from pymodbus.framer.ascii_framer import ModbusAsciiFramer
from pymodbus.framer.binary_framer import ModbusBinaryFramer
from pymodbus.framer.tls_framer import ModbusTlsFramer

from harness import pdus, msggen
from harness.pyutil import errkind, debug_logging

FRAMERS = {'tcp': ModbusSocketFramer, 'rtu': ModbusRtuFramer, 'ascii': ModbusAsciiFramer,
           'binary': ModbusBinaryFramer, 'tls': ModbusTlsFramer}
STREAM_FRAMERS = ['tcp', 'rtu', 'ascii', 'binary']


def mk_framer(name, direction):
    dec = ServerDecoder() if direction == 'server' else ClientDecoder()
    return FRAMERS[name](dec, None)


def to_json(direction):
    return pdus.req_to_json if direction == 'server' else pdus.resp_to_json


def real_feed(name, direction, units, single, chunks, framer=None):
    """feed the chunks to one framer object; per call: the deliveries / the escaped exception, and len(_buffer)"""
    f = framer or mk_framer(name, direction)
    tj = to_json(direction)
    calls = []
    # one history in five runs with DEBUG logging switched on (decided by the history itself, so that a replay does the same)
    debug = sum(len(c) for c in chunks) % 5 == 0
    with debug_logging(debug):
        for c in chunks:
            evs = []

            def cb(m):
                evs.append({'msg': tj(m), 'uid': m.unit_id, 'tid': m.transaction_id, 'pid': m.protocol_id})
            try:
                f.processIncomingPacket(bytes(c), cb, list(units), single=single)
            except Exception as e:  # noqa
                evs.append({'raised': errkind(e)})
            calls.append({'events': evs, 'buffered': len(f._buffer)})
    return calls


def real_build(name, direction, m, uid, tid, pid, warm=()):
    """framer.buildPacket of the real message object described by m (direction 'req' | 'resp'); `warm`: framings the SAME object
    is built for first (a message sent over several links, logged and then sent, sent again)"""
    obj = (msggen.mk_req if direction == 'req' else msggen.mk_resp)(m)
    obj.unit_id, obj.transaction_id, obj.protocol_id = uid, tid, pid
    for w in warm:
        try:
            FRAMERS[w](None, None).buildPacket(obj)
        except Exception:  # noqa
            pass
        obj.unit_id, obj.transaction_id, obj.protocol_id = uid, tid, pid
    f = FRAMERS[name](None, None)
    try:
        return list(f.buildPacket(obj))
    except Exception as e:  # noqa
        return {'err': errkind(e)}


def has_delim(frame):
    """is this binary frame inside the scope of the known finding binary-framer-escaping: a delimiter byte in the function code
    or data (the sender doubles it, the receiver never un-doubles), an END delimiter 0x7D in the CRC (sent raw, the receiver
    stops there), or a unit id of 0x7D.  Outside it (measured on the unchanged code: built, received whole, at every cut and
    byte by byte like any other frame): a unit id of 0x7B, and a START delimiter 0x7B in the CRC bytes."""
    return (any(b in (0x7B, 0x7D) for b in frame[2:-3]) or any(b == 0x7D for b in frame[-3:-1])
            or (len(frame) > 2 and frame[1] == 0x7D))


def deliveries(calls):
    return [e for c in calls for e in c['events'] if 'msg' in e]


def raised(calls):
    return [e for c in calls for e in c['events'] if 'raised' in e]
