"""C04 — the server executes data-access requests as a Modbus register file.
Real path: PDU bytes → ServerDecoder.decode → ModbusBaseRequestHandler.execute → response object,
ModbusSlaveContext over sequential/sparse/shared blocks.  Model: Impl.serverExecute; spec:
RegisterFile.step; theorem Props.C04.exec_refines / run_refines."""
from harness.runner import Report
from harness import execlib

ASSUMPTIONS = ['datastore cells hold non-negative ints/bools', 'requests reach execute through ServerDecoder.decode '
               '(the decoded-request path); framers are covered by C03/C06/C09']
RULE = ('request histories (FC 1-6, 15, 16, 22, 23, mostly valid, biased to overlap earlier writes) of length 1..40 '
        '(quick) / 1..400 (thorough) over random layouts: sequential blocks (start 0/1/5/65530, size 1..30), sparse '
        'blocks, zero-mode on/off, tables shared or separate; every response and the final contents of every block are '
        'compared with the model and with the register-file spec; non-trivial = at least one normal response')


def classify(desc, req, impl, spec):
    return None


def gen_history(rng, desc, n, invalid_p):
    recent, reqs = [], []
    for _ in range(n):
        r = execlib.gen_req(rng, desc, recent, invalid_p)
        a = r.get('address', r.get('write_address'))
        if r['t'].startswith('write') or r['t'] in ('maskWrite', 'readWrite'):
            recent.append(a)
            recent[:] = recent[-4:]
        reqs.append(r)
    return reqs


def run(ctx):
    rep = Report(RULE)
    rng = ctx.rng
    execlib.check_histories(ctx, rep, [(c['ctx'], c['reqs']) for c in ctx.corpus() if c['kind'] == 'exec'], 'corpus', classify=classify)
    total = ctx.scale(1500, 40000)
    maxlen = ctx.scale(40, 400)
    done = 0
    while done < total and ctx.time_left() > 25:
        cases = []
        for _ in range(250):
            desc = execlib.gen_layout(rng)
            n = rng.choice([1, 3, 10, rng.randrange(1, maxlen + 1)])
            if rng.random() < 0.1 and not desc.get('omit'):
                desc = execlib.with_prelude(rng, desc, gen_history)
            cases.append((desc, execlib.with_resets(rng, gen_history(rng, desc, n, 0.08))))
        execlib.check_histories(ctx, rep, cases, 'history', classify=classify)
        done += len(cases)
    # contexts in which the caller leaves tables out: ModbusSlaveContext supplies a default block for each — they must be
    # four separate tables like any others
    cases = []
    for _ in range(ctx.scale(4, 40)):
        omit = rng.sample(['d', 'c', 'i', 'h'], rng.choice([2, 3, 4]))
        blocks = [{'kind': 'default'} if t in omit else {'kind': 'seq', 'address': rng.choice([0, 1, 5]), 'values': [0] * rng.choice([4, 10, 30])}
                  for t in ('d', 'c', 'i', 'h')]
        desc = {'blocks': blocks, 'd': 0, 'c': 1, 'i': 2, 'h': 3, 'zero': rng.random() < 0.5, 'omit': omit}
        cases.append((desc, gen_history(rng, desc, rng.choice([3, 8, 15]), 0.05)))
    if ctx.time_left() > 20:
        execlib.check_histories(ctx, rep, cases, 'omitted-tables', classify=classify)
    return rep


def replay(ctx, payload):
    rep = Report(RULE)
    c = payload['case']
    execlib.check_histories(ctx, rep, [(c['ctx'], c['reqs'])], 'replay', classify=classify)
    if rep.violations:
        return rep.violations[0]['what']
    if rep.disagreements:
        return 'model/implementation disagreement'
    return None
