"""C03 — each transport framing builds the spec ADU and round-trips messages.

(a) framer.buildPacket(message) vs the model's build vs the specification's ADU (MBAP / RTU with CRC low byte first /
    ASCII upper-case hex + LRC + CRLF / bare PDU / '{' CRC '}');
(b) the whole packet handed to a fresh receiver of the same framing: exactly one delivery, equal to the message (up to
    bit padding), with unit id and, on TCP, transaction and protocol id preserved; compared with the model receiver;
(c) computeCRC / computeLRC on arbitrary byte strings vs the model and the bit-serial specification."""
from pymodbus.utilities import computeCRC, computeLRC, checkCRC, checkLRC

from harness.runner import Report
from harness.pyutil import errkind
from harness import msggen, framelib
from harness.c01 import nontrivial, devinfo_fits
from harness.c02 import in_range

ASSUMPTIONS = ['messages in range for their class (they fit a 253-byte PDU)',
               'binary framing: frames containing a 0x7B/0x7D byte between the delimiters are a recorded known finding']
RULE = ('every message class x 5 framers x both directions x unit ids {0,1,2,0x7B,0x7D,0xF7,0xFF,random} x transaction ids '
        '{0,1,0x7B7D,0xFFFF,random}; payloads seeded with delimiter bytes; CRC/LRC over random and structured strings up to '
        '300 bytes (all strings of length <= 2 in thorough); non-trivial = message with a non-zero field; distinct by '
        '(framer, direction, message, ids)')

UIDS = [0, 1, 2, 0x7B, 0x7D, 0xF7, 0xFF]
TIDS = [0, 1, 0x7B7D, 0xFFFF]


def classify(name, direction, m, frame, what):
    t = m['t']
    if name == 'binary' and isinstance(frame, list) and framelib.has_delim(frame):
        return 'binary-framer-escaping'
    if direction == 'resp' and t == 'readFifo':
        return 'fifo-response-count'
    if direction == 'resp' and t == 'readFileRecord':
        return 'read-file-record-response-layout'
    if direction == 'req' and t == 'diag' and m['message']['k'] != 'int' and \
            not (m['message']['k'] == 'list' and len(m['message']['ws']) == 1):
        return 'diag-request-multiword'       # only a request whose data is not exactly one word
    if name == 'rtu' and direction == 'resp' and t == 'diag' and what == 'recv':
        words = 1 if m['message']['k'] == 'int' else len(m['message'].get('ws', []))
        if words != 1:
            return 'rtu-diag-response-size'
    if name == 'rtu' and direction == 'resp' and t == 'readDeviceInfo' and what == 'recv':
        return None
    return None


def check_batch(ctx, rep, direction, cases):
    """cases: list of (framer name, message, uid, tid, pid)"""
    req = direction == 'req'
    q = [{'op': 'build', 'framer': n, 'dir': direction, 'msg': m, 'uid': u, 'tid': t, 'pid': p} for n, m, u, t, p in cases]
    q2 = [{'op': 'codec', 'dir': 'enc_req' if req else 'enc_resp', 'msg': m} for n, m, u, t, p in cases]
    ans = ctx.driver.query(q)
    norms = ctx.driver.query(q2)
    feeds = []
    meta = []
    for (n, m, u, t, p), a, nm in zip(cases, ans, norms):
        case = {'kind': 'frame', 'framer': n, 'dir': direction, 'msg': m, 'uid': u, 'tid': t, 'pid': p}
        rep.case(case, nontrivial=nontrivial(m), tag='%s:%s' % (n, direction))
        rep.sample(case, cap=4)
        frame = framelib.real_build(n, direction, m, u, t, p)
        rep.compare(case, frame, a['out'], 'buildPacket vs model build')
        if isinstance(frame, dict):
            continue
        if frame != a['spec']:
            # (the known binary finding is about frames whose SPECIFIED bytes hold a delimiter, not about what was built)
            rep.violation('built packet differs from the specified ADU', case,
                          finding=classify(n, direction, m, a['spec'] if isinstance(a['spec'], list) else frame, 'build'), impl=frame, spec=a['spec'])
            continue
        # the same message OBJECT built for two other framings first: the packet is that of the message, whatever was built before
        warm = [w for w in ('tcp', 'ascii', 'rtu') if w != n][:2]
        again = framelib.real_build(n, direction, m, u, t, p, warm=warm)
        if again != frame:
            rep.violation('a message object that was already built into packets gives a different packet', case,
                          finding=classify(n, direction, m, again, 'build'), first=frame, later=again, built_before_for=warm)
            continue
        rdir = 'server' if req else 'client'
        feeds.append({'op': 'feed', 'framer': n, 'dir': rdir, 'units': [u], 'single': n == 'tls', 'chunks': [frame]})
        meta.append((case, frame, nm['norm'], rdir))
    fans = ctx.driver.query(feeds)
    for (case, frame, norm, rdir), fa in zip(meta, fans):
        n, u = case['framer'], case['uid']
        calls = framelib.real_feed(n, rdir, [u], n == 'tls', [frame])
        rep.compare(case, calls, fa['calls'], 'processIncomingPacket(whole packet) vs model receiver')
        exp_uid = u if n != 'tls' else 0
        exp_tid = case['tid'] if n == 'tcp' else (u if n == 'rtu' else 0)
        exp_pid = case['pid'] if n == 'tcp' else 0
        exp = [{'msg': norm, 'uid': exp_uid, 'tid': exp_tid, 'pid': exp_pid}]
        got = calls[0]['events']
        if got != exp or calls[0]['buffered'] != 0:
            rep.violation('the packet handed whole to a fresh receiver does not deliver exactly the message', case,
                          finding=classify(n, case['dir'], case['msg'], frame, 'recv'), got=got, expected=exp,
                          buffered=calls[0]['buffered'])


def checksum_cases(ctx, rep, strings):
    ans = ctx.driver.query([{'op': 'crc', 'data': s} for s in strings] + [{'op': 'lrc', 'data': s} for s in strings])
    for i, s in enumerate(strings):
        a, b = ans[i], ans[len(strings) + i]
        case = {'kind': 'checksum', 'data': s}
        rep.case(case, nontrivial=len(s) > 0, tag='checksum')
        crc, lrc = computeCRC(bytes(s)), computeLRC(bytes(s))
        rep.compare(case, [crc, lrc], [a['model'], b['model']], 'computeCRC/computeLRC vs model')
        if crc != a['spec'] or lrc != b['spec']:
            rep.violation('checksum differs from the specification', case, crc=crc, spec_crc=a['spec'], lrc=lrc, spec_lrc=b['spec'])
        if not checkCRC(bytes(s), crc) or not checkLRC(bytes(s), lrc):
            rep.violation('a checksum does not check against itself', case)


def gen_cases(rng, direction, n):
    out = []
    gen = msggen.gen_req if direction == 'req' else msggen.gen_resp
    while len(out) < n:
        m = gen(rng)
        if not in_range(direction, m) or not devinfo_fits(m):
            continue
        name = rng.choice(list(framelib.FRAMERS))
        u = rng.choice(UIDS) if rng.random() < 0.6 else rng.randrange(256)
        t = rng.choice(TIDS) if rng.random() < 0.6 else rng.randrange(65536)
        p = 0 if rng.random() < 0.8 else rng.randrange(65536)
        out.append((name, m, u, t, p))
    return out


def register_isolation(rep):
    """`decoder.register(custom_class)` (also reachable as client.register) customises ONE decoder: a fresh receiver built
    afterwards must still deliver the standard message classes"""
    from pymodbus.factory import ClientDecoder, ServerDecoder
    from pymodbus.pdu import ModbusResponse, ModbusRequest
    from pymodbus.other_message import ReportSlaveIdResponse, ReportSlaveIdRequest

    class VendorResponse(ModbusResponse):
        function_code = 0x11

        def encode(self):
            return b''

        def decode(self, data):
            self.raw = data

    class VendorRequest(ModbusRequest):
        function_code = 0x11

        def encode(self):
            return b''

        def decode(self, data):
            self.raw = data

    for name, cls, custom, std, pdu in (('client', ClientDecoder, VendorResponse, ReportSlaveIdResponse, bytes([0x11, 3, 65, 66, 0xFF])),
                                        ('server', ServerDecoder, VendorRequest, ReportSlaveIdRequest, bytes([0x11]))):
        case = {'kind': 'register', 'decoder': name}
        rep.case(('register', name), nontrivial=True, tag='register-isolation')
        first = cls()
        first.register(custom)
        fresh = cls()
        try:
            got = type(fresh.decode(pdu)).__name__
        except Exception as e:  # noqa
            got = 'raised ' + errkind(e)
        own = type(first.decode(pdu)).__name__
        if got != std.__name__ or own != custom.__name__:
            rep.violation('registering a custom class on one decoder changes what another (fresh) decoder delivers', case,
                          fresh_decoder_delivers=got, expected=std.__name__, customised_decoder_delivers=own)


def run(ctx):
    rep = Report(RULE)
    rng = ctx.rng
    register_isolation(rep)
    for c in ctx.corpus():
        if c.get('kind') == 'frame':
            check_batch(ctx, rep, c['dir'], [(c['framer'], c['msg'], c['uid'], c['tid'], c['pid'])])
    # every unit id with a fixed message, every framer
    sweep = []
    for name in framelib.FRAMERS:
        for u in range(256):
            sweep.append((name, {'t': 'writeRegister', 'address': 1, 'value': u * 257 % 65536}, u, (u * 259) % 65536, 0))
    check_batch(ctx, rep, 'req', sweep)
    check_batch(ctx, rep, 'resp', sweep)
    # the largest legal frames (PDU 249..253 bytes) on every framing
    for direction in ('req', 'resp'):
        big = []
        for m in msggen.max_size_msgs(rng, direction):
            if not in_range(direction, m):
                continue
            for name in framelib.FRAMERS:
                big.append((name, m, rng.choice([1, 17, 247]), rng.randrange(65536), 0))
        check_batch(ctx, rep, direction, big)
        rep.hist['max-size-messages:' + direction] += len(big)
    # messages whose PDU looks like the envelope of ANOTHER framing (an MBAP header: 00 00 at offset 2, a length field that
    # fits at offset 4; ':' / '{' / CR LF bytes in the data): the payload must never be taken for framing
    look = []
    for n in range(2, 12):
        regs = [0, 2 * n - 4] + [rng.randrange(65536) for _ in range(n - 2)]
        look.append(('resp', {'t': 'readHolding', 'registers': regs}))
        look.append(('resp', {'t': 'readInput', 'registers': regs}))
    for n in (2, 3, 5):
        vals = [0x3A30, 0x310D, 0x0A7B][:n] + [0x7B7B, 0x0D0A][:max(0, n - 3)]
        raw = [b for v in vals for b in (v >> 8, v & 255)]
        look.append(('req', {'t': 'writeRegisters', 'address': 0, 'count': len(vals), 'byte_count': 2 * len(vals), 'values': vals, 'raw': raw}))
        look.append(('resp', {'t': 'readHolding', 'registers': vals}))
    for direction in ('req', 'resp'):
        cases = [(name, m, u, rng.randrange(65536), 0) for d, m in look if d == direction for name in framelib.FRAMERS for u in (1, 17)
                 if in_range(direction, m)]
        check_batch(ctx, rep, direction, cases)
        rep.hist['look-alike-messages:' + direction] += len(cases)
    strings = [[], [0], [255], [0x7B], [0, 0], [255, 255]] + [[rng.randrange(256) for _ in range(rng.choice([1, 2, 3, 8, 64, 255, 300]))] for _ in range(ctx.scale(300, 3000))]
    if not ctx.quick:
        strings += [[a] for a in range(256)] + [[a, b] for a in range(256) for b in range(256)]
        rep.notes.append('checksums: all strings of length <= 2 (exhaustive)')
    for i in range(0, len(strings), 5000):
        checksum_cases(ctx, rep, strings[i:i + 5000])
    total = ctx.scale(4000, 150000)
    done = 0
    while done < total and ctx.time_left() > 20:
        check_batch(ctx, rep, 'req', gen_cases(rng, 'req', 400))
        check_batch(ctx, rep, 'resp', gen_cases(rng, 'resp', 400))
        done += 800
    return rep


def replay(ctx, payload):
    rep = Report(RULE)
    c = payload['case']
    if c['kind'] == 'register':
        register_isolation(rep)
    elif c['kind'] == 'frame':
        check_batch(ctx, rep, c['dir'], [(c['framer'], c['msg'], c['uid'], c['tid'], c['pid'])])
    else:
        checksum_cases(ctx, rep, [c['data']])
    unknown = [v for v in rep.violations if v['finding'] is None]
    if unknown:
        return unknown[0]['what']
    if rep.disagreements:
        return 'model/implementation disagreement'
    return None
