"""C16 — the asynchronous (Twisted) client matches pipelined replies by transaction id.

Real code: ModbusClientProtocol (ModbusSocketFramer -> DictTransactionManager) and ModbusSerClientProtocol
(ModbusRtuFramer -> FifoTransactionManager) of pymodbus.client.asynchronous.twisted, driven in-process over a
twisted StringTransport (no reactor): connectionMade / execute / dataReceived / connectionLost, with real Deferreds
whose callbacks and errbacks re-enter `execute` on the same protocol ("on success issue ...", "on failure retry").
Reply frames are built with the real framers.

Model: lean/Pymodbus/Model/AsyncClient.lean, Spec: Spec/AsyncClientSpec.lean (decidable predicates on the observed
history, evaluated by the driver on the REAL trace), theorems: Props/C16.lean.

Observation points (all from outside, no source hook): the bytes handed to transport.write (request id = the
address field the harness put into the request, transaction id = MBAP header / manager.tid for RTU), the
callbacks/errbacks the harness attaches, an instance-level wrapper around `_handleResponse` that only marks where
the events of one reply start when several reply frames arrive in one `dataReceived`, and the transaction table
after the history."""
import itertools
import struct
import warnings

from harness.runner import Report
from harness.pyutil import errkind

with warnings.catch_warnings():
    warnings.simplefilter('ignore')
    from twisted.test.proto_helpers import StringTransport
from twisted.python.failure import Failure

from pymodbus.client.asynchronous.twisted import (ModbusClientProtocol, ModbusSerClientProtocol,
                                                  ModbusUdpClientProtocol, ModbusClientFactory,
                                                  ModbusTcpClientProtocol)
from pymodbus.exceptions import ConnectionException
from pymodbus.factory import ClientDecoder, ServerDecoder
from pymodbus.framer.socket_framer import ModbusSocketFramer
from pymodbus.framer.rtu_framer import ModbusRtuFramer
from pymodbus.register_read_message import ReadHoldingRegistersRequest, ReadHoldingRegistersResponse
from pymodbus.register_write_message import WriteSingleRegisterRequest
from pymodbus.transaction import DictTransactionManager, FifoTransactionManager

ASSUMPTIONS = [
    'the framer is abstracted in the theorem: an operation `reply t` is a complete, decodable reply frame with '
    'transaction id t reaching _handleResponse (chunking is C06; here whole frames, one or several per dataReceived)',
    'the application only re-enters `execute` (not dataReceived/connectionLost/close) from its callbacks and errbacks',
    'close() is an operation of the history; the transport\'s connectionLost that follows it is issued by the harness as '
    'a separate operation (a real reactor calls it later); ModbusUdpClientProtocol.close() is the inherited no-op and is '
    'not exercised',
    'Twisted runs callbacks synchronously in Deferred.callback/errback and at addCallbacks on an already fired '
    'deferred (checked on every run: the event order is compared with the model)',
    'ModbusUdpClientProtocol has no connection state (its _buildResponse never fails): it is compared with the dict '
    'model in the always-connected state (execute / reply histories only); ModbusClientFactory.buildProtocol is '
    'exercised as another way to obtain the TCP protocol object (reconnection policy itself is Twisted\'s)',
]
TRUSTED = ['harness/c16.py: fake transport (twisted StringTransport subclass), event recording callbacks, trace predicates']

RULE = ('operation histories on one protocol instance x {tcp/dict, serial/fifo}: connectionMade, execute (requests '
        'with continuation trees up to depth 3: callback and/or errback re-enter execute), reply frames (to a pending '
        'tid, duplicate of an answered tid, unsolicited tid; several frames per dataReceived), connectionLost (also '
        'twice, also followed by a new connectionMade), execute calls whose sending fails (un-encodable request, '
        'transport.write raising), close() (transport with/without a close attribute; at every '
        'point of base histories, followed by late replies, further requests and the transport\'s connectionLost); all reply permutations for <= 5 outstanding, random histories '
        'with up to 12 (quick) / 300 (thorough) outstanding, connection loss inserted at every point of base histories, '
        'a wrap-around history of 65540 requests; non-trivial = at least one deferred fired; distinct by canonical JSON')

# clauses that need a free transaction id (side condition of Props.C16.C16_dict: fewer than 65536 outstanding)
ROOM_CLAUSES = ('distinct', 'delivered', 'lost_fails', 'complete')


# ------------------------------------------------------------------ real code driver
class Transport(StringTransport):
    """records every write as a `sent` event at the moment it happens"""

    def __init__(self, real):
        StringTransport.__init__(self)
        self.real = real

    fail_next = False

    def write(self, data, addr=None):
        if self.fail_next:
            self.fail_next = False
            raise IOError('injected write failure')      # nothing reaches the peer, nothing is recorded as sent
        self.real.on_write(bytes(data))


class Real(object):
    def __init__(self, variant, unit, proto=None, preset=False, multi=False):
        self.variant = variant
        self.unit = unit
        # multi: the requests of one connection go to TWO unit ids in turn (a gateway with several devices behind it); a reply
        # carries the unit id of its request.  TCP variant only (on the serial variant the framer reports the unit as the id).
        self.multi = bool(multi) and variant == 'dict'
        self.unit_of = {}
        # preset: every request object handed to execute() already carries a transaction id - the id of a request that is still
        # outstanding (what re-executing an earlier request object, or building one with transaction=..., gives); execute() has
        # to allocate a fresh id all the same
        self.preset = bool(preset)
        self.kind = proto or ('tcp' if variant == 'dict' else 'serial')
        if self.kind == 'udp':
            # datagram client: no connection state (its _buildResponse never fails); same matching code
            self.proto = ModbusUdpClientProtocol(host='127.0.0.1', port=502)
            self.builder = ModbusSocketFramer(ServerDecoder())
        elif self.kind == 'factory':
            self.proto = ModbusClientFactory().buildProtocol(None)
            self.builder = ModbusSocketFramer(ServerDecoder())
        elif self.kind == 'tcpcls':
            # what pymodbus.client.asynchronous.factory.tcp.reactor_factory builds: no framer argument
            self.proto = ModbusTcpClientProtocol()
            self.builder = ModbusSocketFramer(ServerDecoder())
        elif self.kind == 'bare':
            self.proto = ModbusClientProtocol()
            self.builder = ModbusSocketFramer(ServerDecoder())
        elif self.kind == 'framercls':
            # the framer given as a CLASS (the constructor instantiates it)
            if variant == 'dict':
                self.proto = ModbusClientProtocol(framer=ModbusSocketFramer)
                self.builder = ModbusSocketFramer(ServerDecoder())
            else:
                self.proto = ModbusClientProtocol(framer=ModbusRtuFramer)
                self.builder = ModbusRtuFramer(ServerDecoder())
        elif self.kind == 'tcpframercls':
            if variant == 'dict':
                self.proto = ModbusTcpClientProtocol(framer=ModbusSocketFramer)
                self.builder = ModbusSocketFramer(ServerDecoder())
            else:
                self.proto = ModbusSerClientProtocol(framer=ModbusRtuFramer)
                self.builder = ModbusRtuFramer(ServerDecoder())
        elif variant == 'dict':
            self.proto = ModbusClientProtocol(ModbusSocketFramer(ClientDecoder()))
            self.builder = ModbusSocketFramer(ServerDecoder())
        else:
            self.proto = ModbusSerClientProtocol()
            self.builder = ModbusRtuFramer(ServerDecoder())
        self.transport = Transport(self)
        self.proto.transport = self.transport
        self.events = []
        self.marks = []
        self.next_id = 0
        self.by_deferred = {}
        inner = self.proto._handleResponse

        def marked(reply, **kw):
            self.marks.append(len(self.events))
            return inner(reply, **kw)
        self.proto._handleResponse = marked

    # --- observation
    def on_write(self, data):
        if self.variant == 'dict':
            tid, _pid, _len, _uid, fc, addr, _cnt = struct.unpack('>HHHBBHH', data[:12])
            self.unit_of[tid] = _uid
        else:
            _uid, fc, addr, _cnt = struct.unpack('>BBHH', data[:6])
            tid = int(self.proto.transaction.tid)
        rid = self.pending_write
        if fc != 3 or addr != rid & 0xFFFF:
            self.events.append(['exc', 'other:unexpected-frame'])
        self.events.append(['sent', rid, int(tid)])

    def do_execute(self, req):
        rid = self.next_id
        self.next_id += 1
        self.pending_write = rid
        request = ReadHoldingRegistersRequest(rid & 0xFFFF, 1, unit=(self.unit % 246 + 1) if (self.multi and rid % 2) else self.unit)
        if self.preset:
            table = getattr(self.proto.transaction, 'transactions', None)
            pending = [k for k in table.keys() if k] if isinstance(table, dict) else []
            request.transaction_id = pending[0] if pending else 7
        d = self.proto.execute(request)
        self.by_deferred[id(d)] = (rid, d)

        def on_ok(reply):
            try:
                tag = int(reply.registers[0]) if getattr(reply, 'registers', None) else -1
                self.events.append(['cb', rid, int(reply.transaction_id), tag])
                k = (req or {}).get('ok')
                if k is not None:
                    self.do_execute(k)
            except Exception as e:  # noqa
                self.events.append(['exc', errkind(e)])

        def on_err(failure):
            try:
                v = failure.value
                if isinstance(v, ConnectionException) and 'Connection lost during request' in str(v):
                    why = 'lost'
                elif isinstance(v, ConnectionException) and 'Client is not connected' in str(v):
                    why = 'notconn'
                else:
                    why = 'other:' + type(v).__name__
                self.events.append(['eb', rid, why])
                k = (req or {}).get('err')
                if k is not None:
                    self.do_execute(k)
            except Exception as e:  # noqa
                self.events.append(['exc', errkind(e)])

        d.addCallbacks(on_ok, on_err)

    def do_execfail(self, where):
        """an execute whose sending fails: the request cannot be encoded (register value 70000: struct.error in
        buildPacket) or the transport's write raises (one-shot).  The call gets no request number: it must raise and
        return no deferred."""
        if where == 'encode':
            request = WriteSingleRegisterRequest(1, 70000, unit=self.unit)
        else:
            request = ReadHoldingRegistersRequest(0xFFFF, 1, unit=self.unit)
            self.transport.fail_next = True
        try:
            d = self.proto.execute(request)
        except Exception as e:  # noqa
            k = errkind(e)
            if (where == 'encode' and k == 'struct') or (where == 'write' and isinstance(e, IOError) and 'injected' in str(e)):
                self.events.append(['sendfail', where])
            else:
                self.events.append(['exc', k])
        else:
            self.transport.fail_next = False
            self.events.append(['exc', 'other:execute-returned-%s-although-the-send-failed' % type(d).__name__])

    def frame(self, t, tag):
        resp = ReadHoldingRegistersResponse([tag & 0xFFFF])
        resp.transaction_id = t
        resp.unit_id = self.unit_of.get(t, self.unit) if self.multi else self.unit
        return self.builder.buildPacket(resp)

    # --- operations
    def take(self):
        es, self.events = self.events, []
        return es

    def apply(self, op):
        """one operation of the history; returns its events"""
        try:
            if op[0] == 'made':
                if self.kind == 'udp':
                    self.udp_up = True      # the model's `connected` flag stands for "always connected"
                else:
                    self.proto.connectionMade()
            elif op[0] == 'lost':
                self.proto.connectionLost('simulated')
            elif op[0] == 'close':
                # the application closes the client; op[1] = does the transport object have a `close` attribute
                # (Twisted's own TCP/serial transports do not: they have loseConnection).  The transport's
                # connectionLost is a separate, later operation of the history, as with a real reactor.
                if op[1]:
                    self.transport.close = lambda: self.events.append(['tclose'])
                elif 'close' in self.transport.__dict__:
                    del self.transport.close
                self.proto.close()
            elif op[0] == 'exec':
                self.do_execute(op[1])
            elif op[0] == 'execfail':
                self.do_execfail(op[1])
            elif op[0] == 'reply':
                return self.apply_replies([op])[0]
            else:
                raise ValueError(op)
        except Exception as e:  # noqa
            self.events.append(['exc', errkind(e)])
        return self.take()

    def apply_data(self, chunk):
        """raw bytes arriving on this connection (any chunking); returns (events, marks): marks = positions in the
        event list where a call of _handleResponse starts"""
        self.marks = []
        try:
            self.proto.dataReceived(bytes(bytearray(chunk)))
        except Exception as e:  # noqa
            self.events.append(['exc', errkind(e)])
        return self.take(), list(self.marks)

    def apply_replies(self, ops):
        """several reply frames in ONE dataReceived call; returns one event list per frame"""
        data = b''.join(self.frame(o[1], o[2]) for o in ops)
        self.marks = []
        try:
            if self.kind == 'udp':
                self.proto.datagramReceived(data, ('127.0.0.1', 502))
            else:
                self.proto.dataReceived(data)
        except Exception as e:  # noqa
            self.events.append(['exc', errkind(e)])
        es = self.take()
        marks = self.marks
        if len(marks) != len(ops):
            # a frame did not reach _handleResponse (or one reached it twice): attribute everything to the first
            return [es + [['exc', 'other:%d-of-%d-frames-handled' % (len(marks), len(ops))]]] + [[] for _ in ops[1:]]
        cuts = marks[1:] + [len(es)]
        out, a = [], 0
        for c in cuts:
            out.append(es[a:c])
            a = c
        return out

    def table(self):
        tr = self.proto.transaction.transactions
        if isinstance(tr, dict):
            return [[int(k), self.by_deferred.get(id(d), (-1, None))[0]] for k, d in tr.items()]
        return [self.by_deferred.get(id(d), (-1, None))[0] for d in tr]

    def state(self):
        conn = getattr(self, 'udp_up', False) if self.kind == 'udp' else self.proto._connected
        return {'pending': self.table(), 'tid': int(self.proto.transaction.tid),
                'connected': 1 if conn else 0, 'next_id': self.next_id}


def run_real(case):
    """returns (segs, final state).  `join` = indices of reply ops delivered in the same dataReceived as the
    reply op just before them"""
    r = Real(case['variant'], case.get('unit', 1), case.get('proto'), preset=case.get('preset'), multi=case.get('multi'))
    ops = case['ops']
    join = set(case.get('join', []))
    segs = []
    i = 0
    while i < len(ops):
        op = ops[i]
        if op[0] == 'reply':
            j = i + 1
            while j < len(ops) and ops[j][0] == 'reply' and j in join:
                j += 1
            segs.extend(r.apply_replies(ops[i:j]))
            i = j
        else:
            segs.append(r.apply(op))
            i += 1
    assert isinstance(r.proto.transaction, DictTransactionManager if case['variant'] == 'dict' else FifoTransactionManager)
    return segs, r.state()


# ------------------------------------------------------------------ the property, checked directly on a trace
def check_trace(variant, ops, segs, table_ids, stats):
    """Direct predicates on the observed history.  Returns (problems, noroom): problems = list of (clause, text);
    noroom = at some point 65536 or more requests were outstanding (no free 16-bit id: outside the side condition
    `Spec.RoomAll` of Props.C16.C16_dict; never generated)."""
    problems = []

    def bad(clause, text):
        if len(problems) < 8:
            problems.append((clause, text))

    sent = {}
    fired = set()
    outstanding = {}            # id -> tid, insertion ordered = issue order
    by_tid = {}                 # tid -> set of outstanding ids
    dup_tids = 0
    conn = False
    noroom = False
    last_served = -1
    stats['histories'] = stats.get('histories', 0) + 1
    for idx, (op, es) in enumerate(zip(ops, segs)):
        if len(outstanding) > stats.get('max_outstanding', 0):
            stats['max_outstanding'] = len(outstanding)
        if len(outstanding) >= 65536:
            noroom = True
        if dup_tids:
            bad('distinct', 'two outstanding requests carry the same transaction id before op %d' % idx)
        kind = op[0]
        down = kind == 'lost' or (kind in ('exec', 'reply') and not conn)
        if kind == 'execfail' and es != [['sendfail', op[1]]]:
            bad('send_fail', 'execute with a failing %s at op %d caused %r (expected only the exception)' % (op[1], idx, es[:4]))
        if kind == 'close':
            if [e for e in es if e[0] != 'tclose'] or len(es) != (1 if op[1] else 0):
                bad('close_quiet', 'close() at op %d caused %r (expected only transport.close())' % (idx, es[:4]))
        pre_out = list(outstanding) if kind == 'lost' else None
        if kind == 'reply':
            t, tag = op[1], op[2]
            if variant == 'dict':
                want = sorted(by_tid.get(t, ()))
            else:
                want = [next(iter(outstanding))] if outstanding else []
            if not want and es:
                bad('unsolicited', 'unsolicited reply (tid %d) at op %d caused events %r' % (t, idx, es[:4]))
        ncb = 0
        sent_here, eb_here, cb_here = [], set(), set()
        for e in es:
            if e[0] == 'sent':
                rid, t_ = e[1], e[2]
                if rid in sent:
                    bad('sent_once', 'request %d written twice' % rid)
                sent[rid] = t_
                outstanding[rid] = t_
                s = by_tid.setdefault(t_, set())
                if s:
                    dup_tids += 1
                s.add(rid)
                sent_here.append(rid)
            elif e[0] in ('cb', 'eb'):
                rid = e[1]
                if rid in fired:
                    bad('at_most_once', 'deferred %d fired twice (op %d)' % (rid, idx))
                if rid not in sent:
                    bad('tid_match', 'deferred %d fired but its request was never written' % rid)
                fired.add(rid)
                if rid in outstanding:
                    t_ = outstanding.pop(rid)
                    s = by_tid[t_]
                    s.discard(rid)
                    if s:
                        dup_tids -= 1
                if e[0] == 'cb':
                    ncb += 1
                    cb_here.add(rid)
                    if kind != 'reply' or e[2] != op[1] or e[3] != op[2]:
                        bad('arrived', 'deferred %d got reply (%r, %r) during op %r' % (rid, e[2], e[3], op[:3]))
                    if variant == 'dict' and sent.get(rid) != e[2]:
                        bad('tid_match', 'deferred %d (sent tid %r) got the reply with tid %r' % (rid, sent.get(rid), e[2]))
                    if variant == 'fifo':
                        if rid <= last_served:
                            bad('fifo_order', 'deferred %d served after %d' % (rid, last_served))
                        last_served = rid
                else:
                    if e[2] == 'lost':
                        if kind != 'lost':
                            bad('fails_when_down', 'deferred %d failed with "connection lost" outside connectionLost' % rid)
                        if variant == 'fifo':
                            if rid <= last_served:
                                bad('fifo_order', 'deferred %d served after %d' % (rid, last_served))
                            last_served = rid
                        eb_here.add((rid, 'lost'))
                    elif e[2] == 'notconn':
                        eb_here.add((rid, 'notconn'))
                    else:
                        bad('no_exc', 'deferred %d failed with %s' % (rid, e[2]))
            elif e[0] == 'sendfail':
                if kind != 'execfail':
                    bad('send_fail', 'a send failure was reported during op %d %r' % (idx, op[:3]))
            elif e[0] == 'tclose':
                if kind != 'close':
                    bad('close_quiet', 'transport.close() called during op %d %r' % (idx, op[:3]))
            elif e[0] == 'exc':
                bad('no_exc', 'exception %s escaped from op %d %r' % (e[1], idx, op[:3]))
        if kind == 'reply':
            if ncb > 1:
                bad('arrived', 'one reply fired %d deferreds' % ncb)
            for rid in want:
                if rid not in cb_here:
                    bad('delivered', 'reply tid %d at op %d not delivered to outstanding request %d' % (op[1], idx, rid))
        if kind == 'lost':
            for rid in pre_out:
                if (rid, 'lost') not in eb_here:
                    bad('lost_fails', 'request %d outstanding at connection loss (op %d) was not failed' % (rid, idx))
        if down:
            for rid in sent_here:
                if (rid, 'notconn') not in eb_here:
                    bad('fails_when_down', 'request %d issued while the connection is down (op %d) did not fail' % (rid, idx))
        if kind == 'made':
            conn = True
        elif kind in ('lost', 'close'):
            conn = False            # after a local close() the client counts as disconnected
    if sorted(outstanding) != sorted(table_ids):
        lostd = sorted(set(outstanding) - set(table_ids))
        stale = sorted(set(table_ids) - set(outstanding) - {-1})
        if -1 in table_ids:
            bad('complete', 'the transaction table holds a deferred that no execute call returned (an orphan: it can only '
                            'swallow a reply meant for a real request)')
        if lostd:
            bad('complete', 'requests %r are neither answered/failed nor in the transaction table' % (lostd[:5],))
        if stale:
            bad('complete', 'the transaction table still holds the deferreds of requests %r, which have fired' % (stale[:5],))
        if not lostd and not stale and -1 not in table_ids:
            bad('complete', 'the transaction table holds a deferred twice: %r' % (sorted(table_ids)[:8],))
    return problems, noroom


SPEC_KEYS = {'dict': ['at_most_once', 'sent_once', 'tid_match', 'arrived', 'unsolicited', 'fails_when_down', 'no_exc',
                      'distinct', 'delivered', 'lost_fails'],
             'fifo': ['at_most_once', 'sent_once', 'fifo_order', 'arrived', 'unsolicited', 'fails_when_down', 'no_exc',
                      'delivered', 'lost_fails']}


def model_state(variant, ans):
    pend = ans['pending'] if variant == 'dict' else [p[1] for p in ans['pending']]
    return {'pending': pend, 'tid': ans['tid'], 'connected': 1 if ans['connected'] else 0, 'next_id': ans['next_id']}


def expand(case):
    """the operation list of a case (the wrap-around history is stored in closed form)"""
    if case.get('kind') == 'wrap':
        n = case.get('n', 65536)
        ops = [['made'], ['exec', case.get('first')]]
        for i in range(n):
            ops.append(['exec', None])
            if i < n - 1 or not case.get('leave_last'):
                ops.append(['reply', (i + 2) & 0xFFFF, i & 0xFFFF])
        ops += [list(o) for o in case.get('tail', [])]
        if case['variant'] == 'fifo':
            ops = [[o[0], case.get('unit', 1), o[2]] if o[0] == 'reply' else o for o in ops]
        return dict(kind='hist', variant=case['variant'], unit=case.get('unit', 1), ops=ops, join=[])
    if case.get('kind') == 'wrap-hold':
        # n requests, all answered at once except those whose index is in `hold`, which stay pending across the 16-bit
        # wrap (n > 65536): the ids of the held requests must be skipped when the counter comes round.  The reply tids
        # are AIMED with a generator-side count of the ids that should be free (a mis-aimed reply is just unsolicited).
        n, hold = case.get('n', 65600), set(case.get('hold', [0]))
        ops, tid, held = [['made']], 0, set()
        fe = case.get('failevery', 0)
        for i in range(n):
            if fe and i % fe == fe - 1:
                tid = (tid + 1) & 0xFFFF            # a failed send consumes an id too
                while tid in held:
                    tid = (tid + 1) & 0xFFFF
                ops.append(['execfail', 'encode' if (i // fe) % 2 else 'write'])
            tid = (tid + 1) & 0xFFFF
            while tid in held:
                tid = (tid + 1) & 0xFFFF
            ops.append(['exec', {'err': {}} if i in hold else None])
            if i in hold:
                held.add(tid)
            else:
                ops.append(['reply', tid, i & 0xFFFF])
        ops += [list(o) for o in case.get('tail', [])]
        if case['variant'] == 'fifo':
            ops = [[o[0], case.get('unit', 1), o[2]] if o[0] == 'reply' else o for o in ops]
        return dict(kind='hist', variant=case['variant'], unit=case.get('unit', 1), ops=ops, join=[])
    if case.get('kind') == 'wrap-pipeline':
        # n answered requests (one outstanding at a time), then k requests pipelined ACROSS the 16-bit wrap, answered in
        # reverse order: nobody is outstanding for 65536 executes, so every clause of the property applies in full
        n, k = case.get('n', 65533), case.get('k', 5)
        ops = [['made']]
        for i in range(n):
            ops.append(['exec', None])
            ops.append(['reply', (i + 1) & 0xFFFF, i & 0xFFFF])
        for _ in range(k):
            ops.append(['exec', None])
        # replies nobody waits for, delivered while the requests around the wrap (id 0 among them) are outstanding
        ops += [list(o) for o in case.get('pre', [])]
        for j in reversed(range(k)):
            ops.append(['reply', (n + j + 1) & 0xFFFF, 7000 + j])
        ops += [list(o) for o in case.get('tail', [])]
        if case['variant'] == 'fifo':
            ops = [[o[0], case.get('unit', 1), o[2]] if o[0] == 'reply' else o for o in ops]
        return dict(kind='hist', variant=case['variant'], unit=case.get('unit', 1), ops=ops, join=[])
    if case.get('proto') == 'udp' and (case['ops'][:1] != [['made']] or any(o[0] in ('made', 'lost', 'close') for o in case['ops'][1:])):
        raise ValueError('a udp history is ["made"] followed by exec/reply operations only')
    return case


def check_cases(ctx, rep, cases, spec_limit=160):
    """correspondence (events per operation, final table) + the property on the real trace"""
    full = [expand(c) for c in cases]
    reals = [run_real(c) for c in full]
    q = []
    for c, (segs, _st) in zip(full, reals):
        o = {'op': 'async', 'variant': c['variant'], 'ops': c['ops']}
        if sum(len(s) for s in segs) <= spec_limit and len(c['ops']) <= spec_limit:
            o['spec'] = True
            o['impl_segs'] = [[e if e[0] != 'exc' else ['exc', 'x'] for e in s] for s in segs]
        q.append(o)
    answers = ctx.driver.query(q)
    for case, c, (segs, st), ans in zip(cases, full, reals, answers):
        variant = c['variant']
        nfired = sum(1 for s in segs for e in s if e[0] in ('cb', 'eb'))
        rep.case(case, nontrivial=nfired > 0, tag=variant + '-' + case.get('tag', case.get('kind', 'hist')))
        rep.sample({k: v for k, v in case.items() if k != 'tag'} if len(str(case)) < 600 else {'kind': case.get('kind'), 'ops': len(c['ops'])}, cap=4)
        ok = rep.compare(case, {'segs': segs, 'state': st}, {'segs': ans['segs'], 'state': model_state(variant, ans)},
                         'event trace / final table vs Model.AsyncClient')
        table_ids = [p[1] if isinstance(p, list) else p for p in st['pending']]   # whichever manager the object really has
        problems, noroom = check_trace(variant, c['ops'], segs, table_ids, rep.extra.setdefault('c16_stats', {}))
        for clause, text in problems:
            if noroom and clause in ROOM_CLAUSES:
                continue
            rep.violation('C16 clause `%s` fails on the real client: %s' % (clause, text), case, clause=clause)
        if 'spec_impl' in ans:
            sv = ans['spec_impl']
            failed = [k for k in SPEC_KEYS[variant] if not sv[k]]
            pyfailed = set(cl for cl, _ in problems)
            for k in failed:
                if k not in pyfailed:
                    if not sv['room'] and k in ROOM_CLAUSES:
                        continue
                    rep.violation('Spec.AsyncClientSpec clause `%s` is false on the real client\'s history' % k, case,
                                  clause=k)
            if ok and 'spec_model' in ans:
                mfailed = [k for k in SPEC_KEYS[variant] if not ans['spec_model'][k] and (ans['spec_model']['room'] or k not in ROOM_CLAUSES)]
                if mfailed:
                    rep.disagree(case, 'spec holds', mfailed, 'Spec verdict on the model trace contradicts the theorems')


# ------------------------------------------------------------------ generators
def gen_req(rng, depth=3):
    r = rng.random()
    if depth == 0 or r < 0.5:
        return None
    if r < 0.72:
        return {'err': gen_req(rng, depth - 1) or {}}
    if r < 0.88:
        return {'ok': gen_req(rng, depth - 1) or {}}
    return {'ok': gen_req(rng, depth - 1) or {}, 'err': gen_req(rng, depth - 1) or {}}


class Sim(object):
    """generator-side bookkeeping: runs the history on the real client while it is generated, so that replies can
    be aimed at tids that are outstanding (by the trace), answered already, or never issued"""

    def __init__(self, variant, unit, proto=None, preset=False, multi=False):
        self.real = Real(variant, unit, proto, preset=preset, multi=multi)
        self.ops, self.join = [], []
        self.out = {}        # id -> tid (written, not fired)
        self.answered = []

    def push(self, op, joined=False):
        if joined:
            self.join.append(len(self.ops))
        self.ops.append(op)
        for e in self.real.apply(op):
            if e[0] == 'sent':
                self.out[e[1]] = e[2]
            elif e[0] in ('cb', 'eb'):
                t = self.out.pop(e[1], None)
                if e[0] == 'cb' and t is not None:
                    self.answered.append(t)

    def case(self, tag):
        c = dict(kind='hist', variant=self.real.variant, unit=self.real.unit, ops=self.ops, join=self.join, tag=tag)
        if self.real.preset:
            c['preset'] = True
        if self.real.multi:
            c['multi'] = True
        if self.real.kind in ('udp', 'factory'):
            c['proto'] = self.real.kind
        return c


def gen_deep_queue(rng, variant, depth):
    """`depth` requests outstanding at once on one connection (far more than any ordinary master keeps in flight), then all
    their replies in order (dict variant: in a shuffled order), then the connection is lost with a few still pending"""
    s = Sim(variant, 1)
    s.push(['made'])
    for _ in range(depth):
        s.push(['exec', None])
    tids = list(s.out.values())
    if variant == 'dict':
        rng.shuffle(tids)
    keep = rng.choice([0, 3])
    for t in tids[:len(tids) - keep]:
        s.push(['reply', t if variant == 'dict' else s.real.unit, rng.randrange(65536)])
    s.push(['lost'])
    return s.case('deep-queue')


def pick_unit(rng):
    return rng.choice([1, 1, 2, 17, 247, 0, 255])


def gen_random(rng, variant, max_out, length, tag='random', proto=None):
    s = Sim(variant, pick_unit(rng), proto, preset=rng.random() < 0.3, multi=rng.random() < 0.3)
    if proto == 'udp' or rng.random() < 0.93:
        s.push(['made'])
    burst = 0
    prev_reply = False
    for _ in range(length):
        r = rng.random()
        nout = len(s.out)
        p_exec = 0.75 if (burst > 0 and nout < max_out) else (0.45 if nout < max_out else 0.05)
        if burst > 0:
            burst -= 1
        elif rng.random() < 0.05:
            burst = rng.randrange(2, max(3, max_out))
        if r < p_exec:
            s.push(['exec', gen_req(rng)])
            prev_reply = False
        elif r < 0.95 or proto == 'udp':
            x = rng.random()
            if x < 0.7 and s.out:
                t = rng.choice(list(s.out.values()))
            elif x < 0.85 and s.answered:
                t = rng.choice(s.answered[-8:])
            else:
                t = rng.choice([0, 1, 65535, rng.randrange(65536), (s.real.proto.transaction.tid + 1) & 0xFFFF])
            if variant == 'fifo':
                t = s.real.unit     # an RTU reply carries no transaction id: the framer reports the unit id
            s.push(['reply', t, rng.randrange(65536)], joined=prev_reply and rng.random() < 0.4)
            prev_reply = True
        elif r < 0.955:
            s.push(['execfail', rng.choice(['encode', 'write'])])
            prev_reply = False
        elif r < 0.968:
            s.push(['close', rng.randrange(2)])
            prev_reply = False
            if rng.random() < 0.5:
                s.push(['lost'])
        elif r < 0.985:
            s.push(['lost'])
            prev_reply = False
            if rng.random() < 0.5:
                s.push(['made'])
        else:
            s.push(['made'])
            prev_reply = False
    if proto != 'udp' and rng.random() < 0.6:
        s.push(['lost'])
        for _ in range(rng.randrange(0, 3)):
            s.push(['exec', gen_req(rng)])
    return s.case(tag)


def gen_permutations(rng, variant, n, with_k):
    """n outstanding requests, then their replies in every order (and a connection loss at the end)"""
    reqs = [gen_req(rng, 2) if with_k else None for _ in range(n)]
    cases = []
    for perm in itertools.permutations(range(n)):
        ops = [['made']] + [['exec', r] for r in reqs]
        join = []
        for k, i in enumerate(perm):
            if k and rng.random() < 0.3:
                join.append(len(ops))
            ops.append(['reply', i + 1 if variant == 'dict' else 1, 100 + i])
        ops.append(['lost'])
        cases.append(dict(kind='hist', variant=variant, unit=1, ops=ops, join=join, tag='perm%d' % n))
    return cases


def gen_pipeline(rng, variant, n):
    """n requests outstanding at once, then their replies in a random order with duplicates and unsolicited
    replies mixed in, a few left unanswered, then the connection is lost"""
    unit = pick_unit(rng)
    ops = [['made']] + [['exec', gen_req(rng, 2)] for _ in range(n)]
    order = list(range(1, n + 1))
    rng.shuffle(order)
    left = rng.randrange(0, 3)
    join, answered = [], []
    for k, t in enumerate(order[:n - left]):
        for _ in range(1 + (rng.random() < 0.15)):
            if k and rng.random() < 0.35:
                join.append(len(ops))
            ops.append(['reply', t if variant == 'dict' else unit, rng.randrange(65536)])
        answered.append(t)
        if rng.random() < 0.1:
            ops.append(['reply', rng.choice(answered + [0, n + 50, 65535]) if variant == 'dict' else unit, 3])
    ops.append(['lost'])
    ops.append(['exec', {'err': {}}])
    return dict(kind='hist', variant=variant, unit=unit, ops=ops, join=join, tag='pipeline%d' % n)


def loss_everywhere(base, rng):
    """the base history with a connection loss inserted at every point (the rest of the history then happens
    after the loss)"""
    out = []
    ops = base['ops']
    for cut in range(len(ops) + 1):
        new = [list(o) for o in ops[:cut]] + [['lost']] + [list(o) for o in ops[cut:]]
        join = [j if j < cut else j + 1 for j in base.get('join', []) if j != cut]
        out.append(dict(kind='hist', variant=base['variant'], unit=base.get('unit', 1), ops=new, join=join, tag='loss-at'))
    return out


def close_everywhere(base, rng):
    """the base history with a local close() inserted at every point: alone (the rest of the history - late
    replies, further requests, a later loss - follows), and directly followed by the transport's connectionLost"""
    out = []
    ops = base['ops']
    for cut in range(len(ops) + 1):
        for ins in ([['close', rng.randrange(2)]], [['close', rng.randrange(2)], ['lost']]):
            new = [list(o) for o in ops[:cut]] + ins + [list(o) for o in ops[cut:]]
            if new[-1][0] != 'lost':
                new.append(['lost'])
            join = [j if j < cut else j + len(ins) for j in base.get('join', []) if j != cut]
            out.append(dict(kind='hist', variant=base['variant'], unit=base.get('unit', 1), ops=new, join=join,
                            tag='close-at'))
    return out


def close_scenario(rng, variant, n):
    """n outstanding; close(); some late replies / further requests; the transport reports the loss; a request after it"""
    ops = [['made']] + [['exec', gen_req(rng, 2)] for _ in range(n)]
    if n and rng.random() < 0.4:
        ops.append(['reply', rng.randrange(1, n + 1) if variant == 'dict' else 1, 5])
    ops.append(['close', rng.randrange(2)])
    for _ in range(rng.randrange(0, 3)):
        if rng.random() < 0.5 and n:
            ops.append(['reply', rng.randrange(1, n + 1) if variant == 'dict' else 1, 6])
        else:
            ops.append(['exec', gen_req(rng, 2)])
    if rng.random() < 0.2:
        ops.append(['close', rng.randrange(2)])
    ops.append(['lost'])
    ops.append(['exec', {'err': {}}])
    if rng.random() < 0.3:
        ops.append(['lost'])
    return dict(kind='hist', variant=variant, unit=1, ops=ops, join=[], tag='close-loss')


def failed_send_scenario(rng, variant, n, proto=None):
    """executes whose sending fails (un-encodable request / transport.write raising) before and between n real
    requests; then the replies of the real requests (serial: in order; TCP: any order), a connection loss, a late
    request.  A failed execute must leave nothing behind: every reply still reaches its own request."""
    s = Sim(variant, pick_unit(rng), proto)
    s.push(['made'])
    if rng.random() < 0.7:
        s.push(['execfail', rng.choice(['encode', 'write'])])
    for _ in range(n):
        s.push(['exec', gen_req(rng, 1)])
        if rng.random() < 0.4:
            s.push(['execfail', rng.choice(['encode', 'write'])])
    tids = list(s.out.values())
    if variant == 'dict':
        rng.shuffle(tids)
    for t in tids[:max(0, len(tids) - rng.randrange(0, 2))]:
        s.push(['reply', t if variant == 'dict' else s.real.unit, rng.randrange(65536)])
        if rng.random() < 0.2:
            s.push(['execfail', rng.choice(['encode', 'write'])])
    if proto != 'udp':
        if rng.random() < 0.3:
            s.push(['close', rng.randrange(2)])
            s.push(['execfail', rng.choice(['encode', 'write'])])
        s.push(['lost'])
        s.push(['execfail', rng.choice(['encode', 'write'])])
        s.push(['exec', {'err': {}}])
    return s.case('failed-send')


def reentrant_loss(rng, variant, n):
    """n outstanding, every one with an errback that retries (chains of retries), then the connection is lost"""
    ops = [['made']]
    for _ in range(n):
        k = {}
        for _ in range(rng.randrange(0, 3)):
            k = {'err': k}
        ops.append(['exec', k if rng.random() < 0.8 else None])
    if rng.random() < 0.5 and n:
        ops.append(['reply', rng.randrange(1, n + 1) if variant == 'dict' else 1, 5])
    ops.append(['lost'])
    ops.append(['exec', {'err': {}}])
    return dict(kind='hist', variant=variant, unit=1, ops=ops, join=[], tag='reentrant-loss')



# ------------------------------------------------------------------ several protocol objects in one process
NET_CLASSES = {'dict': ['tcpcls', 'bare', 'factory', 'framercls', 'tcpframercls'], 'fifo': ['serial', 'framercls', 'tcpframercls']}


def run_real_net(case):
    """history over several protocol objects.  ops: ['open'] | ['on', i, op]; op = an `async` op or ['data', bytes].
    Returns (segs, marks per op, per-connection states)."""
    conns, segs, marks = [], [], []
    for op in case['ops']:
        if op[0] == 'open':
            conns.append(Real(case['variant'], case.get('unit', 1), case['cls']))
            segs.append([])
            marks.append(None)
            continue
        _, i, o = op
        if i >= len(conns):
            segs.append([])
            marks.append(None)
        elif o[0] == 'data':
            es, mk = conns[i].apply_data(o[1])
            segs.append(es)
            marks.append(mk)
        else:
            segs.append(conns[i].apply(o))
            marks.append(None)
    states = []
    for r in conns:
        st = r.state()
        st['buffered'] = len(r.proto.framer._buffer)
        states.append(st)
    # the objects must not share mutable per-connection state
    shared = []
    for a in range(len(conns)):
        for b in range(a + 1, len(conns)):
            if conns[a].proto.framer is conns[b].proto.framer:
                shared.append('framer of #%d and #%d' % (a, b))
            if conns[a].proto.transaction is conns[b].proto.transaction:
                shared.append('transaction manager of #%d and #%d' % (a, b))
    return segs, marks, states, shared


def parse_stream(variant, stream):
    """frames (start, end, tid, tag, uid) of read-holding replies in the bytes of ONE connection (the oracle: what
    this connection's own byte stream says, whatever other connections received)"""
    out, p = [], 0
    n = len(stream)
    while True:
        if variant == 'dict':
            if n - p < 8:
                break
            tid = stream[p] * 256 + stream[p + 1]
            ln = stream[p + 4] * 256 + stream[p + 5]
            end = p + 6 + ln
            if end > n:
                break
            regs = stream[p + 9:end]
            out.append((p, end, tid, regs[0] * 256 + regs[1] if len(regs) >= 2 else -1, stream[p + 6]))
        else:
            if n - p < 3:
                break
            end = p + 3 + stream[p + 2] + 2
            if end > n:
                break
            regs = stream[p + 3:end - 2]
            out.append((p, end, stream[p], regs[0] * 256 + regs[1] if len(regs) >= 2 else -1, stream[p]))
        p = end
    return out


def conn_view(variant, case, segs, marks, i):
    """the history of connection i as a single-connection history for check_trace: every data operation becomes
    the `reply` operations of the frames that its bytes complete on THIS connection's stream"""
    stream, ops, out_segs = [], [], []
    frames_done = 0
    for op, es, mk in zip(case['ops'], segs, marks):
        if op[0] == 'open' or op[1] != i:
            continue
        o = op[2]
        if o[0] != 'data':
            ops.append(o)
            out_segs.append(es)
            continue
        stream += list(o[1])
        frames = parse_stream(variant, stream)
        new = frames[frames_done:]
        frames_done = len(frames)
        if not new:
            if es:
                ops.append(['reply', -1, -1])       # bytes that complete no frame must cause nothing
                out_segs.append(es)
            continue
        if mk is not None and len(mk) == len(new):
            cuts = mk[1:] + [len(es)]
            parts, a = [], 0
            for c in cuts:
                parts.append(es[a:c])
                a = c
        else:
            parts = [es] + [[] for _ in new[1:]]
        for (st, en, tid, tag, uid), part in zip(new, parts):
            ops.append(['reply', tid, tag])
            out_segs.append(part)
    return ops, out_segs


def model_conn_state(variant, c):
    pend = c['pending'] if variant == 'dict' else [p[1] for p in c['pending']]
    return {'pending': pend, 'tid': c['tid'], 'connected': 1 if c['connected'] else 0, 'next_id': c['next_id'],
            'buffered': c['buffered']}


def check_net_cases(ctx, rep, cases):
    reals = [run_real_net(c) for c in cases]
    answers = ctx.driver.query([{'op': 'asyncnet', 'variant': c['variant'], 'ops': c['ops']} for c in cases])
    stats = rep.extra.setdefault('c16_stats', {})
    for case, (segs, marks, states, shared), ans in zip(cases, reals, answers):
        variant = case['variant']
        nfired = sum(1 for s in segs for e in s if e[0] in ('cb', 'eb'))
        partial = any(st['buffered'] for st in states)
        rep.case(case, nontrivial=nfired > 0, tag='%s-net-%s-%s' % (variant, case['cls'], case.get('tag', 'x')))
        rep.sample({k: v for k, v in case.items()} if len(str(case)) < 700 else {'kind': 'net', 'ops': len(case['ops'])}, cap=6)
        stats['net_histories'] = stats.get('net_histories', 0) + 1
        stats['net_with_partial_frame_left'] = stats.get('net_with_partial_frame_left', 0) + (1 if partial else 0)
        rep.compare(case, {'segs': segs, 'conns': states},
                    {'segs': ans['segs'], 'conns': [model_conn_state(variant, c) for c in ans['conns']]},
                    'multi-connection event trace / per-connection state vs Model.AsyncNet')
        for what in shared:
            rep.violation('two protocol objects share the %s (state that must be per connection)' % what, case,
                          clause='private')
        for i, st in enumerate(states):
            ops_i, segs_i = conn_view(variant, case, segs, marks, i)
            table_ids = [p[1] if isinstance(p, list) else p for p in st['pending']]   # whichever manager the object really has
            problems, _w = check_trace(variant, ops_i, segs_i, table_ids, stats)
            for clause, text in problems:
                rep.violation('C16 clause `%s` fails on connection %d of a multi-connection history: %s' % (
                    clause, i, text), case, clause=clause, connection=i)


class NetSim(object):
    """generator-side bookkeeping over several real protocol objects (tids outstanding per connection)"""

    def __init__(self, variant, cls, unit):
        self.variant, self.cls, self.unit = variant, cls, unit
        self.conns, self.out, self.ops = [], [], []

    def open(self):
        self.conns.append(Real(self.variant, self.unit, self.cls))
        self.out.append({})
        self.ops.append(['open'])
        return len(self.conns) - 1

    def note(self, i, es):
        for e in es:
            if e[0] == 'sent':
                self.out[i][e[1]] = e[2]
            elif e[0] in ('cb', 'eb'):
                self.out[i].pop(e[1], None)

    def on(self, i, o):
        self.ops.append(['on', i, o])
        if o[0] == 'data':
            es, _ = self.conns[i].apply_data(o[1])
        else:
            es = self.conns[i].apply(o)
        self.note(i, es)

    def frame(self, i, t, tag, nregs=1):
        r = self.conns[i]
        resp = ReadHoldingRegistersResponse([tag & 0xFFFF] + [7] * (nregs - 1))
        resp.transaction_id = t
        resp.unit_id = self.unit
        return list(bytearray(r.builder.buildPacket(resp)))

    def replies_for(self, rng, i, shuffle=True):
        """the reply frames for everything outstanding on connection i (random order for TCP), as one byte stream"""
        tids = list(self.out[i].values())
        if shuffle and self.variant == 'dict':
            rng.shuffle(tids)
        stream = []
        for t in tids:
            stream += self.frame(i, t if self.variant == 'dict' else self.unit, rng.choice([5, 77, 300, 65535, rng.randrange(65536)]),
                                 rng.choice([1, 1, 2, 4]))
        return stream

    def case(self, tag):
        return dict(kind='net', variant=self.variant, cls=self.cls, unit=self.unit, ops=self.ops, tag=tag)


def cut_chunks(rng, stream, k):
    if len(stream) < 2:
        return [stream] if stream else []
    cuts = sorted(set(rng.randrange(1, len(stream)) for _ in range(k)))
    pts = [0] + cuts + [len(stream)]
    return [stream[a:b] for a, b in zip(pts, pts[1:])]


def net_reconnect(rng, variant, cls):
    """connection A receives part of a reply and is lost; a NEW protocol object B (the reconnect) receives whole
    replies, then chunked ones"""
    s = NetSim(variant, cls, rng.choice([1, 1, 2, 3, 17]))
    a = s.open()
    s.on(a, ['made'])
    for _ in range(rng.randrange(1, 4)):
        if rng.random() < 0.25:
            s.on(a, ['execfail', rng.choice(['encode', 'write'])])
        s.on(a, ['exec', gen_req(rng, 1)])
    stream = s.replies_for(rng, a)
    cut = rng.randrange(1, len(stream))
    for ch in cut_chunks(rng, stream[:cut], rng.randrange(0, 2)):
        s.on(a, ['data', ch])
    s.on(a, ['lost'])
    b = s.open()
    s.on(b, ['made'])
    if rng.random() < 0.4:
        s.on(b, ['execfail', rng.choice(['encode', 'write'])])
    for _ in range(rng.randrange(1, 4)):
        s.on(b, ['exec', gen_req(rng, 1)])
    s.on(b, ['data', s.replies_for(rng, b)])            # whole replies in one read
    for _ in range(rng.randrange(0, 3)):
        s.on(b, ['exec', None])
    for ch in cut_chunks(rng, s.replies_for(rng, b), rng.randrange(0, 3)):
        s.on(b, ['data', ch])
    if rng.random() < 0.5:
        s.on(b, ['lost'])
    return s.case('reconnect')


def net_interleaved(rng, variant, cls, nconn=2):
    """several live connections whose chunked replies interleave"""
    s = NetSim(variant, cls, rng.choice([1, 1, 2, 3, 17]))
    ids = [s.open() for _ in range(nconn)]
    for i in ids:
        s.on(i, ['made'])
    for _ in range(rng.randrange(1, 3)):
        for i in ids:
            for _ in range(rng.randrange(1, 4)):
                if rng.random() < 0.25:
                    s.on(i, ['execfail', rng.choice(['encode', 'write'])])
                s.on(i, ['exec', gen_req(rng, 1)])
        queues = [cut_chunks(rng, s.replies_for(rng, i), rng.randrange(1, 5)) for i in ids]
        while any(queues):
            i = rng.choice([k for k, q in enumerate(queues) if q])
            s.on(ids[i], ['data', queues[i].pop(0)])
    for i in ids:
        if rng.random() < 0.5:
            s.on(i, rng.choice([['lost'], ['close', 1]]))
    return s.case('interleaved%d' % nconn)


def net_random(rng, variant, cls, length):
    s = NetSim(variant, cls, rng.choice([1, 2, 3, 247]))
    pend = {}          # connection -> bytes not yet delivered
    s.open()
    for _ in range(length):
        r = rng.random()
        i = rng.randrange(len(s.conns))
        if r < 0.08 and len(s.conns) < 4:
            s.open()
        elif r < 0.2:
            s.on(i, ['made'])
        elif r < 0.46:
            s.on(i, ['exec', gen_req(rng, 2)])
        elif r < 0.5:
            s.on(i, ['execfail', rng.choice(['encode', 'write'])])
        elif r < 0.85:
            if not pend.get(i) and s.out[i]:
                pend[i] = s.replies_for(rng, i)
            if pend.get(i):
                k = rng.randrange(1, len(pend[i]) + 1)
                s.on(i, ['data', pend[i][:k]])
                pend[i] = pend[i][k:]
            else:
                s.on(i, ['reply', rng.randrange(5) if variant == 'dict' else s.unit, 9])
        elif r < 0.93:
            s.on(i, ['lost'])
        else:
            s.on(i, ['close', rng.randrange(2)])
    return s.case('random')


WRAP_CASES = [
    # request 0 stays outstanding while 65536 further requests are issued and answered: request 65536 gets tid 1
    # again; the reply with tid 1 then goes to request 65536, request 0 never fires, not even on connection loss
    dict(kind='wrap', variant='dict', n=65536, leave_last=True, first=None,
         tail=[['reply', 1, 4242], ['reply', 1, 4243], ['exec', None], ['lost'], ['exec', None]]),
]


def cancel_probe(rep):
    """the application gives up on some of its outstanding requests (`d.cancel()`, or a timeout added to the deferred).  That is
    the application's own act on ITS deferred; every OTHER outstanding request must still fire exactly once, with the reply that
    answers it (TCP: its transaction id; serial: the device still answers every request, in order), and a connection loss must
    still fail whatever is left.  Not an operation of the client model: checked on the real protocol objects directly, for
    every non-empty proper subset of 2..3 outstanding requests, both variants."""
    import itertools
    for variant in ('dict', 'fifo'):
        for n in (2, 3):
            for r in range(1, n):
                for cancelled in itertools.combinations(range(n), r):
                    for lose in (False, True):
                        real = Real(variant, 1)
                        real.apply(['made'])
                        sent = []
                        for _ in range(n):
                            ev = real.apply(['exec', None])
                            sent += [e for e in ev if e[0] == 'sent']
                        case = {'kind': 'cancel', 'variant': variant, 'outstanding': n, 'cancelled': list(cancelled), 'then_lost': lose}
                        rep.case(('cancel', variant, n, cancelled, lose), nontrivial=True, tag='%s-cancel' % variant)
                        if len(sent) != n:
                            continue
                        events = []
                        for k in cancelled:
                            rid = sent[k][1]
                            d = next(dd for (rr, dd) in real.by_deferred.values() if rr == rid)
                            try:
                                d.cancel()
                            except Exception as e:  # noqa
                                events.append(['exc', errkind(e)])
                            events += real.take()
                        answered = range(n) if not lose else range(n - 1)      # (the last reply never comes: the connection drops)
                        for k in answered:
                            tid = sent[k][2] if variant == 'dict' else real.unit
                            events += real.apply(['reply', tid, 1000 + k])
                        if lose:
                            events += real.apply(['lost'])
                        bad = None
                        if any(e[0] == 'exc' for e in events):
                            bad = 'an exception escaped: %r' % [e for e in events if e[0] == 'exc'][:2]
                        for k in range(n):
                            if bad or k in cancelled:
                                continue
                            rid = sent[k][1]
                            mine = [e for e in events if e[0] in ('cb', 'eb') and e[1] == rid]
                            if k in answered:
                                want = [['cb', rid, sent[k][2] if variant == 'dict' else mine[0][2] if mine else None, 1000 + k]]
                            else:
                                want = [['eb', rid, 'lost']]
                            if mine != want:
                                bad = 'request %d (not cancelled) fired %r, expected %r' % (k, mine, want)
                        if bad:
                            rep.violation('after the application cancelled some of its outstanding requests, another outstanding request did '
                                          'not fire exactly once with its own reply', case, observed=bad, events=events[:12])


def run(ctx):
    rep = Report(RULE)
    rng = ctx.rng
    cancel_probe(rep)
    corpus = [c for c in ctx.corpus() if c.get('kind') in ('hist', 'wrap', 'net')]
    small = [c for c in corpus if c.get('kind') == 'hist']
    check_cases(ctx, rep, small)
    # fixed scenarios: re-entrant retry during connection loss
    batch = []
    for variant in ('dict', 'fifo'):
        for n in (1, 2, 3, 5):
            for _ in range(ctx.scale(3, 12)):
                batch.append(reentrant_loss(rng, variant, n))
        for n in (0, 1, 2, 3, 5):
            for _ in range(ctx.scale(4, 12)):
                batch.append(close_scenario(rng, variant, n))
        for n in (1, 2, 3, 5):
            for proto in ((None, 'udp', 'factory') if variant == 'dict' else (None,)):
                for _ in range(ctx.scale(3, 10)):
                    batch.append(failed_send_scenario(rng, variant, n, proto))
    check_cases(ctx, rep, batch)
    # all reply permutations
    for variant in ('dict', 'fifo'):
        for n in range(1, 6):
            for with_k in ((False, True) if n <= 4 or not ctx.quick else (False,)):
                check_cases(ctx, rep, gen_permutations(rng, variant, n, with_k))
    # n outstanding at once, random arrival order
    for variant in ('dict', 'fifo'):
        batch = [gen_pipeline(rng, variant, n) for n in ctx.scale((6, 8, 12, 12), (6, 12, 40, 100, 300, 300)) for _ in range(ctx.scale(4, 6))]
        check_cases(ctx, rep, batch)
    # hundreds of requests in flight on one connection (a bounded queue or table would drop the oldest)
    check_cases(ctx, rep, [gen_deep_queue(rng, v, d) for v in ('dict', 'fifo') for d in (257, 300 if ctx.quick else 1100)])
    # random histories + loss at every point
    rounds = ctx.scale(90, 2500)
    for i in range(rounds):
        if ctx.time_left() < ctx.scale(25, 200):
            rep.notes.append('random rounds stopped early at %d/%d (time budget)' % (i, rounds))
            break
        batch = []
        for variant in ('dict', 'fifo'):
            for _ in range(4):
                batch.append(gen_random(rng, variant, ctx.scale(12, 12), rng.choice([8, 15, 30, 60])))
            if variant == 'dict':
                batch.append(gen_random(rng, variant, 12, rng.choice([8, 20, 40]), tag='udp', proto='udp'))
                batch.append(gen_random(rng, variant, 12, rng.choice([8, 20, 40]), tag='factory', proto='factory'))
            batch.append(gen_random(rng, variant, 12, rng.choice([8, 20, 40]), tag='framer-class', proto=rng.choice(['framercls', 'tcpframercls'])))
            base = gen_random(rng, variant, 6, rng.choice([6, 10, 14]), tag='base')
            batch.append(base)
            batch.extend(loss_everywhere(base, rng))
            if i % ctx.scale(2, 3) == 0:
                batch.extend(close_everywhere(base, rng))
            if not ctx.quick and i % 10 == 0:
                batch.append(gen_random(rng, variant, 300, rng.choice([700, 1500]), tag='wide'))
        check_cases(ctx, rep, batch)
    if ctx.quick:
        batch = [gen_random(rng, v, 40, 150, tag='wide') for v in ('dict', 'fifo')]
        check_cases(ctx, rep, batch)
    # several protocol objects in one process (reconnects, simultaneous connections), replies in chunks
    check_net_cases(ctx, rep, [c for c in corpus if c.get('kind') == 'net'])
    for i in range(ctx.scale(25, 400)):
        if ctx.time_left() < ctx.scale(20, 120):
            break
        batch = []
        for variant in ('dict', 'fifo'):
            for cls in NET_CLASSES[variant]:
                batch.append(net_reconnect(rng, variant, cls))
                batch.append(net_interleaved(rng, variant, cls, rng.choice([2, 2, 3])))
                batch.append(net_random(rng, variant, cls, rng.choice([15, 30, 60])))
        check_net_cases(ctx, rep, batch)
    # the 16-bit wrap (fixed finding tid-wrap-overwrite): always from the corpus; thorough adds the serial variant and variations
    wraps = [c for c in corpus if c.get('kind') == 'wrap'] or list(WRAP_CASES)
    if not ctx.quick:
        wraps.append(dict(kind='wrap', variant='fifo', n=65536, leave_last=True, first=None,
                          tail=[['reply', 1, 4242], ['reply', 1, 4243], ['lost'], ['exec', None]]))
    # long-lived request without wrap: request 0 stays outstanding across n further (answered) requests
    for n in (300, 1000) if ctx.quick else (300, 1000, 5000, 40000, 65535):
        wraps.append(dict(kind='wrap', variant='dict', n=n, leave_last=True, first={'err': {}}, tag='long-lived',
                          tail=[['reply', 1, 9], ['reply', 1, 10], ['lost']]))
    # several requests held pending across the wrap: their ids are skipped when the counter comes round
    wraps.append(dict(kind='wrap-hold', variant='dict', n=65560, hold=[0, 3, 4, 70], failevery=997,
                      tail=[['reply', 5, 9], ['reply', 1, 8], ['reply', 1, 8], ['exec', None], ['lost'], ['exec', None]]))
    if not ctx.quick:
        wraps.append(dict(kind='wrap-hold', variant='dict', n=131200, hold=[1, 2, 65000, 65540],
                          tail=[['reply', 2, 9], ['exec', None], ['close', 1], ['lost']]))
        wraps.append(dict(kind='wrap-hold', variant='fifo', n=65560, hold=[0, 3], tail=[['reply', 1, 8], ['lost']]))
    # pipelining across the wrap (no request is long-lived)
    wraps.append(dict(kind='wrap-pipeline', variant='dict', n=65533, k=5, tail=[['exec', None], ['lost']]))
    # ... and unsolicited / duplicate replies arrive while the request with id 0 is outstanding
    wraps.append(dict(kind='wrap-pipeline', variant='dict', n=65533, k=5, pre=[['reply', 0x1234, 9999], ['reply', 7, 9998], ['reply', 3, 9997]],
                      tail=[['reply', 0, 9996], ['lost']]))
    if not ctx.quick:
        wraps.append(dict(kind='wrap-pipeline', variant='dict', n=65535, k=3))
        wraps.append(dict(kind='wrap-pipeline', variant='dict', n=65530, k=12, tail=[['lost'], ['exec', None]]))
    for w in wraps:
        if ctx.time_left() > 15:
            check_cases(ctx, rep, [w])
    return rep


def replay(ctx, payload):
    rep = Report(RULE)
    if payload.get('case', {}).get('kind') == 'cancel':
        cancel_probe(rep)
        return rep.violations[0]['what'] if rep.violations else None
    if payload.get('kind') == 'no-failing-input-found':
        cs = [d['case'] for d in payload.get('first_disagreements', [])]
    else:
        cs = [payload['case']]
    for c in cs:
        if c.get('kind') not in ('hist', 'wrap', 'wrap-hold', 'wrap-pipeline', 'net'):
            return 'unknown case kind %r' % c.get('kind')
    check_cases(ctx, rep, [c for c in cs if c.get('kind') != 'net'])
    check_net_cases(ctx, rep, [c for c in cs if c.get('kind') == 'net'])
    if rep.violations:
        return rep.violations[0]['what']
    if rep.disagreements:
        return 'model/implementation disagreement at ' + rep.disagreements[0]['where']
    return None
