"""C05 — invalid requests get the right exception and change nothing.
Same real path and model as C04; generators aimed at the limits: quantities across every limit,
addresses across every block boundary, inconsistent byte counts, all single-coil value words,
unassigned function codes, raising datastores; full dump of all tables after every request."""
from harness.runner import Report
from harness import execlib
from harness.c04 import gen_history

ASSUMPTIONS = ['a failing datastore is one that raises on every access to a table (so the exception-04 case is '
               'checked for whole-table failures; a store that fails between the write and the read of FC 23 cannot '
               'be rolled back by any implementation)']
RULE = ('boundary sweep per request type: quantity in {0,1,limit-1,limit,limit+1,limit+2,65535} x address in '
        '{start-1,start,end-1,end,end+1,65535} x layouts (sequential/sparse, zero-mode on/off), inconsistent byte '
        'counts (-2..+2, 0, 255, data following the byte count or the quantity), single-coil value words (sample in '
        'quick, all 65536 in thorough), unassigned function codes, raising datastores, random invalid-heavy histories; '
        'all tables dumped after every request; non-trivial = the history contains an exception response')

LIMITS = {'readCoils': 2000, 'readDiscrete': 2000, 'readHolding': 125, 'readInput': 125,
          'writeCoils': 1968, 'writeRegisters': 123}


def classify(desc, req, impl, spec):
    return None


def sweep_cases(rng, full_words):
    cases = []
    layouts = []
    for zero in (False, True):
        for start, n in ((0, 10), (1, 2200), (5, 3), (65530, 6)):
            blk = {'kind': 'seq', 'address': start, 'values': [i % 2 for i in range(n)]}
            layouts.append({'blocks': [blk], 'd': 0, 'c': 0, 'i': 0, 'h': 0, 'zero': zero})
        sp = {'kind': 'sparse', 'items': [[k, 1] for k in (3, 4, 5, 7, 8)]}
        layouts.append({'blocks': [sp], 'd': 0, 'c': 0, 'i': 0, 'h': 0, 'zero': zero})
    for desc in layouts:
        lo, hi = execlib.extent(desc['blocks'][0])
        off = 0 if desc['zero'] else 1
        addrs = sorted(set(min(max(a, 0), 65535) for a in (lo - off - 1, lo - off, lo - off + 1, hi - off - 1, hi - off, hi - off + 1, 65535)))
        for t, lim in LIMITS.items():
            for q in (0, 1, 2, lim - 1, lim, lim + 1, lim + 2, 65535):
                for a in addrs:
                    if t.startswith('read'):
                        reqs = [{'t': t, 'address': a, 'count': q}]
                    elif t == 'writeCoils':
                        nb = min((q + 7) // 8, 250)
                        raw = [rng.randrange(256) for _ in range(nb)]
                        bits = [bool((raw[i // 8] >> (i % 8)) & 1) for i in range(min(q, 8 * nb))]
                        reqs = [{'t': t, 'address': a, 'count': q, 'byte_count': min((q + 7) // 8, 255), 'values': bits, 'raw': raw}]
                    else:
                        nb = min(2 * q, 250)
                        raw = [rng.randrange(256) for _ in range(nb)]
                        regs = [raw[2 * i] * 256 + raw[2 * i + 1] for i in range(min(q, nb // 2))]
                        reqs = [{'t': t, 'address': a, 'count': q, 'byte_count': min(2 * q, 255), 'values': regs, 'raw': raw}]
                    cases.append((desc, reqs))
        # read/write multiple: both quantities and both ranges
        for rq in (0, 1, 125, 126):
            for wq in (0, 1, 121, 122):
                for ra in (addrs[1], addrs[-2], 65535):
                    for wa in (addrs[1], addrs[-2]):
                        nb = min(2 * wq, 244)
                        raw = [rng.randrange(256) for _ in range(nb)]
                        regs = [raw[2 * i] * 256 + raw[2 * i + 1] for i in range(min(wq, nb // 2))]
                        cases.append((desc, [{'t': 'readWrite', 'read_address': ra, 'read_count': rq, 'write_address': wa,
                                              'write_count': wq, 'write_byte_count': min(2 * wq, 255), 'write_registers': regs, 'raw': raw}]))
        # inconsistent byte counts
        for q in (1, 2, 8, 9, 16):
            for d in (-2, -1, 1, 2):
                for follow in ('bc', 'qty'):
                    a = addrs[1]
                    bc = max((q + 7) // 8 + d, 0)
                    nb = bc if follow == 'bc' else (q + 7) // 8
                    raw = [rng.randrange(256) for _ in range(nb)]
                    bits = [bool((raw[i // 8] >> (i % 8)) & 1) for i in range(min(q, 8 * nb))]
                    cases.append((desc, [{'t': 'writeCoils', 'address': a, 'count': q, 'byte_count': bc, 'values': bits, 'raw': raw}]))
                    bc = max(2 * q + d, 0)
                    nb = bc if follow == 'bc' else 2 * q
                    raw = [rng.randrange(256) for _ in range(nb)]
                    regs = [raw[2 * i] * 256 + raw[2 * i + 1] for i in range(min(q, nb // 2))]
                    cases.append((desc, [{'t': 'writeRegisters', 'address': a, 'count': q, 'byte_count': bc, 'values': regs, 'raw': raw}]))
                    cases.append((desc, [{'t': 'readWrite', 'read_address': a, 'read_count': 1, 'write_address': a, 'write_count': q,
                                          'write_byte_count': bc, 'write_registers': regs, 'raw': raw}]))
        # single coil value words
        words = range(65536) if (full_words and desc is layouts[0]) else [0, 1, 0xFF, 0x100, 0xFEFF, 0xFF00, 0xFF01, 0xFFFF] + [rng.randrange(65536) for _ in range(40)]
        chunk = []
        for w in words:
            chunk.append({'t': 'writeCoil', 'address': addrs[1], 'word': w})
            if len(chunk) == 64:
                cases.append((desc, chunk))
                chunk = []
        if chunk:
            cases.append((desc, chunk))
        # unassigned function codes
        cases.append((desc, [{'t': 'illegalFunction', 'fc': fc, 'data': [0, 1, 0, 1]} for fc in execlib.UNASSIGNED_FC]))
        # function codes with the top bit set are unassigned too (they are what exception REPLIES carry): as requests they get
        # exception 01 like any other, whatever their payload looks like (nothing, one byte, an exception code, several bytes)
        cases.append((desc, [{'t': 'illegalFunction', 'fc': fc, 'data': data}
                             for fc in (0x80, 0x81, 0x83, 0x90, 0xAB, 0xFE, 0xFF) for data in ([], [1], [2], [4], [0x0B], [0], [7], [2, 0], [1, 2, 3])]))
    return cases


def run(ctx):
    rep = Report(RULE)
    rng = ctx.rng
    execlib.check_histories(ctx, rep, [(c['ctx'], c['reqs']) for c in ctx.corpus() if c['kind'] == 'exec'], 'corpus', per_step=True, classify=classify)
    cases = sweep_cases(rng, full_words=not ctx.quick)
    rep.notes.append('boundary sweep: %d single-request histories; single-coil words %s' % (
        len(cases), 'all 65536 (exhaustive)' if not ctx.quick else 'sampled'))
    for i in range(0, len(cases), 400):
        execlib.check_histories(ctx, rep, cases[i:i + 400], 'sweep', per_step=True, classify=classify)
    total = ctx.scale(800, 30000)
    maxlen = ctx.scale(30, 200)
    done = 0
    while done < total and ctx.time_left() > 25:
        batch = []
        for _ in range(200):
            desc = execlib.gen_layout(rng, broken_p=0.25)
            n = rng.choice([1, 3, 10, rng.randrange(1, maxlen + 1)])
            if rng.random() < 0.12 and not desc.get('omit'):
                desc = execlib.with_prelude(rng, desc, gen_history)
            batch.append((desc, execlib.with_resets(rng, gen_history(rng, desc, n, 0.5))))
        execlib.check_histories(ctx, rep, batch, 'invalid-heavy history', per_step=True, classify=classify)
        done += len(batch)
    return rep


def replay(ctx, payload):
    rep = Report(RULE)
    c = payload['case']
    execlib.check_histories(ctx, rep, [(c['ctx'], c['reqs'])], 'replay', per_step=True, classify=classify)
    if rep.violations:
        return rep.violations[0]['what']
    if rep.disagreements:
        return 'model/implementation disagreement'
    return None
