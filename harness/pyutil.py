"""Canonicalisation helpers shared by the harness modules."""
import contextlib
import logging
import struct


@contextlib.contextmanager
def debug_logging(on):
    """run the real code with the `pymodbus` loggers at DEBUG (as every shipped example does) or as they are: log statements
    are code too - what they evaluate must not change what the library does.  Nothing is printed."""
    if not on:
        yield
        return
    lg = logging.getLogger('pymodbus')
    if not any(isinstance(h, logging.NullHandler) for h in lg.handlers):
        lg.addHandler(logging.NullHandler())
    saved_level, saved_prop, saved_disable = lg.level, lg.propagate, logging.root.manager.disable
    lg.setLevel(logging.DEBUG)
    lg.propagate = False
    logging.disable(logging.NOTSET)
    try:
        yield
    finally:
        lg.setLevel(saved_level)
        lg.propagate = saved_prop
        logging.disable(saved_disable)


def errkind(e):
    """Map a Python exception raised by the real code to the model's small error enum."""
    from pymodbus import exceptions as mex
    if isinstance(e, struct.error):
        return 'struct'
    if isinstance(e, mex.NoSuchSlaveException):
        return 'noslave'
    if isinstance(e, mex.ParameterException):
        return 'param'
    if isinstance(e, mex.InvalidMessageReceivedException):
        return 'invalidmsg'
    if isinstance(e, mex.ModbusIOException):
        return 'modbusio'
    if isinstance(e, mex.NotImplementedException):
        return 'notimpl'
    if isinstance(e, mex.ModbusException):
        return 'modbusexc'
    if isinstance(e, KeyError):
        return 'key'
    if isinstance(e, IndexError):
        return 'index'
    if isinstance(e, ValueError):
        return 'value'
    if isinstance(e, TypeError):
        return 'type'
    if isinstance(e, AttributeError):
        return 'attr'
    return 'other:' + type(e).__name__


def as_nat_list(xs):
    return [int(x) for x in xs]


def hexs(b):
    return bytes(b).hex()
