"""Shared by C09/C10/C12/C17: server configurations, request histories as framed byte streams, running them through a
real front-end (harness/frontends.py) and through the model (`server` driver op), parsing what the server wrote."""
from pymodbus.factory import ClientDecoder

from harness import execlib, framelib, frontends, pdus
from harness.pyutil import debug_logging
from harness.c07 import crc16_ref

FRAMERS_FOR = {'syncTcp': ['tcp', 'rtu', 'ascii', 'binary', 'tls'], 'syncSerial': ['rtu', 'ascii', 'binary', 'tcp'],
               'syncUdp': ['tcp', 'rtu'], 'aioTcp': ['tcp', 'rtu', 'ascii'], 'aioUdp': ['tcp', 'rtu'],
               'twistedTcp': ['tcp', 'rtu', 'ascii'], 'twistedUdp': ['tcp', 'rtu']}


def gen_units(rng, single=None, hosted=None, broken_p=0.0):
    single = rng.random() < 0.4 if single is None else single
    if single:
        return True, [[0, execlib.gen_layout(rng, broken_p)]]
    ids = hosted if hosted is not None else rng.choice([[1], [1, 2], [0, 1], [1, 255], [247], [2, 5, 17], [0], [123, 1], [123]])
    return False, [[u, execlib.gen_layout(rng, broken_p)] for u in ids]


def crc16(bs):
    crc = 0xFFFF
    for b in bs:
        crc ^= b
        for _ in range(8):
            crc = (crc >> 1) ^ 0xA001 if crc & 1 else crc >> 1
    return crc


def lookalike_tid(rng, prev_mbap_frame):
    """a transaction id equal to a checksum of the MBAP frame in front of it (unit id + PDU)"""
    body = prev_mbap_frame[6:]
    c = crc16(body)
    return rng.choice([c, ((c & 255) << 8) | (c >> 8), (-sum(body)) & 0xFF, crc16(prev_mbap_frame)])


def frame_fc(framer, frame):
    """the function code byte of a response ADU as written on the wire"""
    try:
        if framer == 'tcp':
            return frame[7]
        if framer == 'rtu':
            return frame[1]
        if framer == 'ascii':
            return int(bytes(frame[3:5]).decode(), 16)
        if framer == 'binary':
            return frame[2]
        if framer == 'tls':
            return frame[0]
    except Exception:  # noqa
        return None
    return None


# well-formed requests of the classes whose execute methods are outside the model ("opaque" for the comparison)
OTHER_PDUS = [[8, 0, 0, 0x12, 0x34], [8, 0, 1, 0, 0], [8, 0, 2, 0, 0], [8, 0, 3, 0x3A, 0], [8, 0, 10, 0, 0],
              [8, 0, 11, 0, 0], [8, 0, 20, 0, 0], [8, 0, 21, 0, 4], [43, 14, 1, 0], [43, 14, 2, 0],
              [43, 14, 3, 0x80], [43, 14, 4, 5], [17], [7], [11], [12], [24, 0, 0], [20, 7, 6, 0, 1, 0, 0, 0, 2],
              [21, 9, 6, 0, 1, 0, 0, 0, 1, 0xAB, 0xCD], [21, 9, 7, 0, 4, 0, 7, 0, 1, 0xBE, 0xEF], [20, 7, 7, 0, 1, 0, 0, 0, 2],
              [21, 18, 6, 0, 1, 0, 0, 0, 1, 0xAB, 0xCD, 5, 0, 1, 0, 0, 0, 1, 0x12, 0x34],
              # diagnostic sub-functions that decode but have no execute(): the catch-all answers SlaveFailure
              [8, 0, 5, 0, 0], [8, 0, 9, 0, 0], [8, 0, 22, 0, 0]]


def frame_request(framer, r, uid, tid):
    """ADU bytes of an abstract data-access request (harness/execlib.enc_req gives the PDU)"""
    return frame_pdu(framer, list(execlib.enc_req(r)), uid, tid)


def frame_pdu(framer, pdu, uid, tid):
    """a well-formed ADU (correct length field / checksum / delimiters) around arbitrary PDU bytes"""
    pdu = list(pdu)
    if framer == 'tcp':
        return [tid >> 8, tid & 255, 0, 0, (len(pdu) + 1) >> 8, (len(pdu) + 1) & 255, uid] + pdu
    if framer == 'rtu':
        body = [uid] + pdu
        c = crc16_ref(body)
        return body + [c & 255, c >> 8]
    if framer == 'ascii':
        body = [uid] + pdu
        lrc = (-sum(body)) & 255
        return [58] + list(bytes(body + [lrc]).hex().upper().encode()) + [13, 10]
    if framer == 'binary':
        body = [uid] + pdu
        c = crc16_ref(body)
        return [0x7B] + body + [c & 255, c >> 8] + [0x7D]
    if framer == 'tls':
        return pdu
    raise ValueError(framer)


def parse_responses(framer, frames):
    """decode what the server wrote with a real client-side receiver: list of (uid, tid, fc, msg json)"""
    out = []
    for f in frames:
        calls = framelib.real_feed(framer, 'client', [0], True, [f])
        evs = calls[0]['events']
        if len(evs) != 1 or 'msg' not in evs[0] or calls[0]['buffered']:
            out.append({'unparsed': f})
            continue
        e = evs[0]
        m = e['msg']
        fc = (m['fc'] | 0x80) if m['t'] == 'exception' else None
        out.append({'uid': e['uid'], 'tid': e['tid'], 'msg': m, 'exc_fc': fc, 'fc': frame_fc(framer, f)})
    return out


def model_query(frontend, framer, single, units, ignore_missing, broadcast, chunks=None, schedule=None, identity=None, **_):
    q = {'op': 'server', 'framer': framer, 'frontend': frontend, 'ignore_missing': ignore_missing,
         'broadcast': broadcast, 'single': single, 'units': units, 'control': frontends.initial_control(identity)}
    if schedule is not None:
        q['schedule'] = [[i, c] for i, c in schedule]
    else:
        q['chunks'] = chunks
    return q


RECV_SIZE = 1024      # what the synchronous stream handlers ask of their socket per read


def _as_reads(c):
    """the synchronous stream handlers read with recv(1024): a chunk longer than that reaches them in several reads.  Returns
    the configuration the model is asked about (chunks cut into reads) and, per original chunk, how many reads it became."""
    if c['frontend'] not in ('syncTcp', 'syncSerial'):
        return c, None
    sched = c.get('schedule')
    items = [ch for _, ch in sched] if sched is not None else c['chunks']
    if not any(ch is not None and len(ch) > RECV_SIZE for ch in items):
        return c, None
    groups, cut = [], []
    for k, ch in enumerate(items):
        pieces = [ch] if ch is None or len(ch) <= RECV_SIZE else [ch[i:i + RECV_SIZE] for i in range(0, len(ch), RECV_SIZE)]
        groups.append(len(pieces))
        cut += [(sched[k][0], p) for p in pieces] if sched is not None else pieces
    c2 = dict(c)
    c2['schedule' if sched is not None else 'chunks'] = cut
    return c2, groups


def _regroup(a, groups):
    calls, i = [], 0
    for n in groups:
        part = a['calls'][i:i + n]
        i += n
        calls.append({'out': [f for p in part for f in p['out']], 'escaped': next((p['escaped'] for p in part if p['escaped']), None),
                      'running': part[-1]['running']})
    a = dict(a)
    a['calls'] = calls
    return a


def ask_model(ctx, cfgs):
    """the model's answers for these configurations, one call entry per chunk of the configuration"""
    asked = [_as_reads(c) for c in cfgs]
    ans = ctx.driver.query([model_query(**c2) for c2, _ in asked])
    return [a if groups is None else _regroup(a, groups) for (_, groups), a in zip(asked, ans)]


def run_both(ctx, cfgs):
    """cfgs: list of dict(frontend, framer, single, units, ignore_missing, broadcast, chunks).
    Returns list of (real (outs, escaped, dumps), model answer)"""
    return [(run_real(c), a) for c, a in zip(cfgs, ask_model(ctx, cfgs))]


def _debug_for(c):
    """one configuration in five is served with DEBUG logging switched on (decided by the traffic itself: replays do the same)"""
    items = [ch for _, ch in c['schedule']] if c.get('schedule') is not None else c['chunks']
    return sum(len(ch) for ch in items if ch) % 5 == 0


def run_real(c):
    with debug_logging(_debug_for(c)):
        return _run_real(c)


def _run_real(c):
    if c.get('schedule') is not None:
        return frontends.run_schedule(c['frontend'], c['framer'], c['single'], c['units'], c['ignore_missing'], c['broadcast'],
                                      1 + max([i for i, _ in c['schedule']] + [0]), c['schedule'], c.get('identity'),
                                      via_defaults=bool(c.get('via_defaults')))
    return frontends.run_frontend(c['frontend'], c['framer'], c['single'], c['units'], c['ignore_missing'], c['broadcast'], c['chunks'],
                                  c.get('identity'), via_defaults=bool(c.get('via_defaults')))


def canon_outs(frontend, outs):
    """stream front-ends: the bytes written per received chunk; datagram front-ends: the datagrams sent per datagram"""
    if frontend in frontends.STREAM_FRONTENDS:
        return [[b for f in o for b in f] for o in outs]
    return outs


def compare(rep, case, real, a, where):
    """call-by-call comparison of a real front-end with the model: bytes written, escaped exceptions, connection
    liveness per step; final per-unit tables and control block (message counters, listen-only flag)"""
    outs, escs, dumps, alive, control = real
    fe = case['frontend']
    calls = a['calls']
    model = {'out': canon_outs(fe, [c['out'] for c in calls]), 'escaped': [c['escaped'] for c in calls],
             'running': [c['running'] for c in calls], 'dumps': a['dumps'], 'control': a['control']}
    realv = {'out': canon_outs(fe, outs), 'escaped': escs, 'running': alive, 'dumps': dumps, 'control': control}
    return rep.compare(case, realv, model, where)


def run_real_steps(c):
    """like run_real, with the per-unit dumps before the first and after every step: (real, before, per_step)"""
    with debug_logging(_debug_for(c)):
        return _run_real_steps(c)


def _run_real_steps(c):
    sched = c.get('schedule') if c.get('schedule') is not None else [[0, ch] for ch in c['chunks']]
    s = frontends.Session(c['frontend'], c['framer'], c['single'], c['units'], c['ignore_missing'], c['broadcast'], c.get('identity'),
                          via_defaults=bool(c.get('via_defaults')))
    try:
        ids = [s.open() for _ in range(1 + max([i for i, _ in sched] + [0]))]
        before = s.dumps()
        outs, escs, alive, per_step = [], [], [], []
        for ci, ch in sched:
            o, e = s.feed(ids[ci], ch)
            outs.append(o)
            escs.append(e)
            alive.append(s.conns[ids[ci]].alive())
            per_step.append(s.dumps())
        return (outs, escs, s.dumps(), alive, s.control()), before, per_step
    finally:
        s.close()
