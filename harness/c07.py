"""C07 — corrupted frames are never delivered as messages.

Valid frames of every class (short ones, so that every position can be hit) on the RTU, ASCII, binary and TCP framers are
corrupted: every single-bit flip, double/triple flips, bursts within 16 bits, byte substitution / deletion / insertion /
truncation at every position; alone, and preceded / followed by valid frames.  Oracle (independent of the code under
test): every message the real receiver delivers must be justified by a contiguous window of the bytes it was given that
is a valid frame for that message — CRC-16 (bit-serial reference), LRC + strict hex, MBAP length = PDU + 1.  The real
receiver is also compared call by call with the model receiver."""
from pymodbus.factory import ServerDecoder, ClientDecoder

from harness.runner import Report
from harness import msggen, framelib, pdus
from harness.c02 import in_range
from harness.c01 import devinfo_fits
from harness.c06 import frame_ok

ASSUMPTIONS = ['frames up to 60 bytes (so that every bit and byte position is exercised)',
               'binary framing: frames containing a delimiter byte are excluded (known finding binary-framer-escaping)']
RULE = ('per framer x direction: valid frames (<= 60 bytes) x {every single-bit flip, sampled double and triple flips, '
        'sampled 16-bit bursts, byte substitution/deletion/insertion/truncation at every position} x {alone, valid frame '
        'before, valid frame after}; non-trivial = the corrupted stream differs from a valid stream; distinct by the '
        'corrupted byte string')


def crc16_ref(bs):
    crc = 0xFFFF
    for b in bs:
        crc ^= b
        for _ in range(8):
            crc = (crc >> 1) ^ 0xA001 if crc & 1 else crc >> 1
    return crc


HEX = set(b'0123456789ABCDEFabcdef')


def windows_valid(name, stream):
    """all (i, j, uid, pdu) such that stream[i:j] is a valid frame of the framing"""
    out = []
    n = len(stream)
    if name == 'rtu':
        for i in range(n):
            for j in range(i + 4, min(n, i + 300) + 1):
                w = stream[i:j]
                c = crc16_ref(w[:-2])
                if w[-2] == (c & 0xFF) and w[-1] == (c >> 8):
                    out.append((i, j, w[0], w[1:-2]))
    elif name == 'binary':
        for i in range(n):
            if stream[i] != 0x7B:
                continue
            for j in range(i + 5, n + 1):
                if stream[j - 1] != 0x7D:
                    continue
                w = stream[i + 1:j - 1]
                c = crc16_ref(w[:-2])
                if w[-2] == (c & 0xFF) and w[-1] == (c >> 8):
                    out.append((i, j, w[0], w[1:-2]))
    elif name == 'ascii':
        for i in range(n):
            if stream[i] != 58:
                continue
            for j in range(i + 1, n - 1):
                if stream[j] == 13 and stream[j + 1] == 10:
                    body = stream[i + 1:j]
                    if len(body) >= 4 and len(body) % 2 == 0 and all(c in HEX for c in body):
                        raw = list(bytes.fromhex(bytes(body).decode()))
                        if (sum(raw) & 0xFF) == 0:
                            out.append((i, j + 2, raw[0], raw[1:-1]))
                    break
    elif name == 'tcp':
        for i in range(n - 7):
            ln = stream[i + 4] * 256 + stream[i + 5]
            if ln >= 2 and i + 6 + ln <= n:
                out.append((i, i + 6 + ln, stream[i + 6], stream[i + 7:i + 6 + ln]))
    return out


def decode_ref(rdir, pdu):
    try:
        o = (ServerDecoder() if rdir == 'server' else ClientDecoder()).decode(bytes(pdu))
    except Exception:  # noqa
        return None
    if o is None:
        return None
    return (pdus.req_to_json if rdir == 'server' else pdus.resp_to_json)(o)


def corruptions(rng, frame, quick, name=None):
    n = len(frame)
    out = []
    bits = list(range(8 * n))
    for t in (bits if (not quick or n <= 24) else rng.sample(bits, 160)):
        f = list(frame)
        f[t // 8] ^= 1 << (t % 8)
        out.append(('bit1', f))
    for _ in range(40 if quick else 400):
        f = list(frame)
        for t in rng.sample(bits, rng.choice([2, 3])):
            f[t // 8] ^= 1 << (t % 8)
        out.append(('bit23', f))
    for _ in range(20 if quick else 200):
        f = list(frame)
        t0 = rng.randrange(8 * n)
        pat = rng.randrange(1, 1 << 16)
        for k in range(16):
            t = t0 + k
            if pat >> k & 1 and t < 8 * n:
                f[t // 8] ^= 1 << (t % 8)
        out.append(('burst16', f))
    # the checksum FIELD as a whole: inverted, all zeros, all ones (given as the trailing bytes before the end marker; for ASCII
    # the two hex characters) - the extreme check values are values like any other
    if name in ('rtu', 'binary', 'ascii'):
        a, b = {'rtu': (n - 2, n), 'binary': (n - 3, n - 1), 'ascii': (n - 4, n - 2)}[name]
        if a > 0:
            if name == 'ascii':
                try:
                    v = int(bytes(frame[a:b]).decode(), 16)
                    for w in (v ^ 0xFF, 0x00, 0xFF):
                        if w != v:
                            out.append(('check-field', frame[:a] + list(('%02X' % w).encode()) + frame[b:]))
                except ValueError:
                    pass
            else:
                for w in ([x ^ 0xFF for x in frame[a:b]], [0, 0], [0xFF, 0xFF]):
                    if w != frame[a:b]:
                        out.append(('check-field', frame[:a] + w + frame[b:]))
    for i in range(n):
        f = list(frame)
        f[i] = rng.choice([0, 0xFF, 58, 13, 10, 0x7B, 0x7D, f[i] ^ 0x20, rng.randrange(256)])
        out.append(('subst', f))
        out.append(('delete', frame[:i] + frame[i + 1:]))
        out.append(('insert', frame[:i] + [rng.randrange(256)] + frame[i:]))
        out.append(('insert-ws', frame[:i] + [rng.choice([0x09, 0x0A, 0x0B, 0x0C, 0x0D, 0x20, 58, 0x7B, 0x7D, 0x30, 0x00, 0xFF])] + frame[i:]))
        out.append(('truncate', frame[:i]))
        if i + 1 < n and frame[i] != frame[i + 1]:
            # two neighbouring bytes exchanged (at the end of an RTU / binary frame: the checksum bytes in the wrong order)
            out.append(('swap', frame[:i] + [frame[i + 1], frame[i]] + frame[i + 2:]))
        if i + 3 < n and frame[i:i + 2] != frame[i + 2:i + 4]:
            out.append(('swap-pairs', frame[:i] + frame[i + 2:i + 4] + frame[i:i + 2] + frame[i + 4:]))   # e.g. two ASCII hex pairs
    return out


def check_frames(ctx, rep, name, direction, frames):
    rdir = 'server' if direction == 'req' else 'client'
    q, meta = [], []
    for uid, frame, other in frames:
        for kind, bad in corruptions(ctx.rng, frame, ctx.quick, name):
            ctxt = ctx.rng.choice(['alone', 'before', 'after', 'after-foreign', 'after-intact'])
            if ctxt == 'after-intact':
                # the INTACT frame itself first (verified, delivered), then its damaged copy: nothing a receiver remembers of a
                # frame it has checked - unit, length, checksum bytes - vouches for the next one
                chunks = [list(frame), bad]
                if ctx.rng.random() < 0.3:
                    chunks = [[b for c in chunks for b in c]]
                q.append({'op': 'feed', 'framer': name, 'dir': rdir, 'units': [uid], 'single': False, 'chunks': chunks})
                meta.append((uid, kind, ctxt, chunks))
                continue
            if ctxt == 'after-foreign':
                # a well-formed frame for ANOTHER unit, then the damaged one, in the same read
                fu = uid % 246 + 1
                foreign = framelib.real_build(name, direction, {'t': 'writeRegister', 'address': 2, 'value': 3} if direction == 'req'
                                              else {'t': 'writeRegister', 'address': 2, 'value': 3}, fu, 7, 0)
                if isinstance(foreign, dict) or (name == 'binary' and framelib.has_delim(foreign)):
                    ctxt, chunks = 'alone', [bad]
                else:
                    chunks = [list(foreign) + bad]
            elif ctxt == 'alone':
                chunks = [bad]
            elif ctxt == 'before':
                chunks = [other, bad]
            else:
                chunks = [bad, other]
            if ctx.rng.random() < 0.3:
                chunks = [[b for c in chunks for b in c]]
            q.append({'op': 'feed', 'framer': name, 'dir': rdir, 'units': [uid], 'single': False, 'chunks': chunks})
            meta.append((uid, kind, ctxt, chunks))
    ans = ctx.driver.query(q)
    for (uid, kind, ctxt, chunks), a in zip(meta, ans):
        stream = [b for c in chunks for b in c]
        case = {'kind': 'corrupt', 'framer': name, 'dir': rdir, 'uid': uid, 'chunks': chunks, 'how': kind}
        rep.case((name, rdir, tuple(stream), len(chunks)), nontrivial=True, tag='%s:%s:%s' % (name, kind, ctxt))
        rep.sample({'framer': name, 'how': kind, 'context': ctxt, 'bytes': stream[:40]}, cap=6)
        calls = framelib.real_feed(name, rdir, [uid], False, chunks)
        rep.compare(case, calls, a['calls'], 'corrupted input: real receiver vs model')
        got = framelib.deliveries(calls)
        if not got:
            continue
        wins = windows_valid(name, stream)
        justified = [(u, decode_ref(rdir, p)) for (_, _, u, p) in wins]
        for d in got:
            if (d['uid'], d['msg']) not in justified:
                rep.violation('a message was delivered that no valid frame in the received bytes justifies', case,
                              delivered=d, valid_windows=[(i, j) for i, j, _, _ in wins])
                break


def gen_frames(rng, name, direction, n):
    gen = msggen.gen_req if direction == 'req' else msggen.gen_resp
    out, tries = [], 0
    while len(out) < n and tries < 400:
        tries += 1
        m, m2 = gen(rng), gen(rng)
        if not all(in_range(direction, x) and devinfo_fits(x) for x in (m, m2)):
            continue
        uid = rng.choice([1, 2, 0x11, 0xF7])
        f = framelib.real_build(name, direction, m, uid, rng.randrange(65536), 0)
        g = framelib.real_build(name, direction, m2, uid, rng.randrange(65536), 0)
        if isinstance(f, dict) or isinstance(g, dict) or len(f) > 60 or len(g) > 60:
            continue
        if not frame_ok(name, direction, m, f) or not frame_ok(name, direction, m2, g):
            continue
        out.append((uid, f, g))
    return out


def extreme_check_frames(name, direction):
    """valid write-register frames (unit 1) whose checksum is all zeros / all ones: found by search over the register value
    (LRC: 1 in 256; CRC-16: 1 in 65 536 - the address is searched too)"""
    out = []
    want = {(0, 0), (0xFF, 0xFF)} if name != 'ascii' else {'00', 'FF'}
    for addr in range(0, 4):
        for val in range(0, 65536, 1 if name != 'ascii' else 1):
            m = {'t': 'writeRegister', 'address': addr, 'value': val}
            f = serverlib_frame(name, m, direction)
            if f is None:
                continue
            key = tuple(f[-2:]) if name == 'rtu' else tuple(f[-3:-1]) if name == 'binary' else bytes(f[-4:-2]).decode()
            if key in want:
                want.discard(key)
                out.append((1, f, f))
            if not want or (name == 'ascii' and val > 2000):
                break
        if not want:
            break
    return out


def serverlib_frame(name, m, direction):
    f = framelib.real_build(name, direction, m, 1, 0, 0)
    if isinstance(f, dict) or (name == 'binary' and framelib.has_delim(f)):
        return None
    return f


_EXTREME = {}


def run(ctx):
    rep = Report(RULE)
    rng = ctx.rng
    for c in ctx.corpus():
        if c.get('kind') in ('corrupt', 'chunks'):
            a = ctx.driver.query([{'op': 'feed', 'framer': c['framer'], 'dir': c['dir'], 'units': [c['uid']], 'single': False, 'chunks': c['chunks']}])[0]
            calls = framelib.real_feed(c['framer'], c['dir'], [c['uid']], False, c['chunks'])
            rep.case(('corpus', c['framer'], str(c['chunks'])), tag='corpus')
            rep.compare(c, calls, a['calls'], 'corpus')
            stream = [b for ch in c['chunks'] for b in ch]
            wins = windows_valid(c['framer'], stream)
            justified = [(u, decode_ref(c['dir'], p)) for (_, _, u, p) in wins]
            for d in framelib.deliveries(calls):
                if (d['uid'], d['msg']) not in justified:
                    rep.violation('a message was delivered that no valid frame in the received bytes justifies', c, delivered=d)
    for name in ('ascii', 'rtu', 'binary'):
        for direction in ('req', 'resp'):
            if (name, direction) not in _EXTREME:
                _EXTREME[(name, direction)] = extreme_check_frames(name, direction)
            if _EXTREME[(name, direction)]:
                rep.hist['extreme-check-value-frames:%s' % name] += len(_EXTREME[(name, direction)])
                check_frames(ctx, rep, name, direction, _EXTREME[(name, direction)])
    rounds = ctx.scale(8, 80)
    for _ in range(rounds):
        for name in framelib.STREAM_FRAMERS:
            for direction in ('req', 'resp'):
                if ctx.time_left() < 15:
                    return rep
                check_frames(ctx, rep, name, direction, gen_frames(rng, name, direction, ctx.scale(2, 6)))
    return rep


def replay(ctx, payload):
    c = payload['case']
    calls = framelib.real_feed(c['framer'], c['dir'], [c['uid']], False, c['chunks'])
    stream = [b for ch in c['chunks'] for b in ch]
    wins = windows_valid(c['framer'], stream)
    justified = [(u, decode_ref(c['dir'], p)) for (_, _, u, p) in wins]
    for d in framelib.deliveries(calls):
        if (d['uid'], d['msg']) not in justified:
            return 'unjustified delivery'
    a = ctx.driver.query([{'op': 'feed', 'framer': c['framer'], 'dir': c['dir'], 'units': [c['uid']], 'single': False, 'chunks': c['chunks']}])[0]
    if calls != a['calls']:
        return 'model/implementation disagreement'
    return None
