"""C11 — receivers resynchronise after noise and never go deaf.

Garbage prefixes (random bytes, corrupted / truncated valid frames, frames for a foreign unit, delimiter characters,
':' + non-hex, partial frames) are fed to the RTU, ASCII and binary receivers, followed by 1..50 valid frames, one per read
and several per read.  Checked on the real receiver: once 512 bytes of valid traffic (two maximum-size frames) have
arrived after the garbage, every later valid frame is delivered (ASCII/binary: every frame after the first); the backlog
len(_buffer) stays bounded; call-by-call agreement with the model receiver.

The same through the REAL serial-style server handler (ModbusSingleRequestHandler, its socket a stream: a read returns at most
the bytes it asked for): garbage, then data-access requests to the hosted unit, one or several per arrival; every request
of an arrival that starts after the bound must be answered (one response frame each, its function code), and the bytes
written agree with the model server call by call."""
from harness.runner import Report
from harness import msggen, framelib, execlib, serverlib
from harness.c02 import in_range
from harness.c01 import devinfo_fits
from harness.c06 import frame_ok
from harness.c07 import windows_valid

ASSUMPTIONS = ['valid frames arrive whole (one or several per read) after the garbage has ended',
               'the serial port of the server handler is an in-process stream: a read returns at most the bytes asked for and blocks only when nothing is left',
               'RTU: streams in which a window that starts inside the garbage passes the CRC (a false frame, probability about '
               '2^-16 per window) are counted and excluded; the client-side RTU length oracle is a recorded known finding']
RULE = ('garbage kinds {random bytes, corrupted frame, truncated frame, foreign-unit frame, delimiter soup, partial frame, head announcing a frame at/beyond the maximum size} x '
        '{rtu, ascii, binary} x {server, client} x valid frames 1..50 delivered one per read or k per read; non-trivial = the '
        'garbage is non-empty; distinct by (framer, garbage, frames)')

BACKLOG_BOUND = {'rtu': 268 + 600, 'ascii': 2 * 520, 'binary': 2 * 270}


def diagnose(name, rdir, uid, chunks):
    """replay on a fresh real receiver: the largest frame length it predicted (`_header['len']`), and the function codes at
    the head of its buffer while it sat on more than 512 unconsumed bytes"""
    f = framelib.mk_framer(name, rdir)
    worst, heads = 0, set()
    for c in chunks:
        try:
            f.processIncomingPacket(bytes(c), lambda m: None, [uid], single=False)
        except Exception:  # noqa
            pass
        worst = max(worst, (getattr(f, '_header', None) or {}).get('len', 0) or 0)
        if len(f._buffer) > 512:
            heads.add(f._buffer[1])
    return worst, heads


def classify(name, rdir, what, uid=None, chunks=None):
    """known finding rtu-client-oracle-unbounded: only when the client-side length oracle really asked for more than two
    maximum-size frames: it announced more than 512 bytes, or it sat on more than 512 bytes behind a FIFO (0x18) /
    device-information (0x2B) head whose length it had not worked out yet.  Anything else that leaves the RTU client receiver
    deaf is a violation."""
    if name == 'rtu' and rdir == 'client':
        if chunks is None:
            return 'rtu-client-oracle-unbounded'
        worst, heads = diagnose(name, rdir, uid, chunks)
        if worst > 512 or heads & {0x18, 0x2B}:
            return 'rtu-client-oracle-unbounded'
    return None


def flush_took_the_read(g, frames, chunks, calls, base):
    """known finding rtu-flush-discards-read: the receiver DID take its decision within the bound (fewer than 512 bytes of valid
    traffic had arrived before the read in question), but resetFrame() then dropped everything buffered — including frames
    of the same read that start beyond the bound.  True iff exactly that happened: the first read that ends with an empty buffer
    started within the bound, and every read after it is delivered completely."""
    gc, acc = 0, 0
    while acc < len(g) and gc < len(chunks):
        acc += len(chunks[gc])
        gc += 1
    if acc != len(g):
        return False
    i, valid_before, bad = 0, 0, []
    for j in range(gc, len(chunks)):
        n, l = 0, 0
        while l < len(chunks[j]) and i + n < len(frames):
            l += len(frames[i + n])
            n += 1
        if l != len(chunks[j]):
            return False
        got = [e for e in calls[j]['events'] if 'msg' in e]
        if got != base[i:i + n]:
            bad.append((j, valid_before))
        i += n
        valid_before += l
    # the read j0 at whose end the receiver flushed: the first one after the garbage that leaves the buffer empty
    j0 = next((j for j in range(gc, len(chunks)) if calls[j]['buffered'] == 0), None)
    return bool(bad) and j0 is not None and bad[-1][0] == j0 and bad[-1][1] < 512


def gen_valid(rng, name, direction, uid, n):
    gen = msggen.gen_req if direction == 'req' else msggen.gen_resp
    out, tries = [], 0
    while len(out) < n and tries < 50 * n:
        tries += 1
        m = gen(rng)
        if not in_range(direction, m) or not devinfo_fits(m):
            continue
        f = framelib.real_build(name, direction, m, uid, rng.randrange(65536), 0)
        if isinstance(f, dict) or len(f) > 256 or not frame_ok(name, direction, m, f):
            continue
        out.append(f)
    return out


def gen_garbage(rng, name, direction, uid):
    kind = rng.choice(['random', 'corrupt', 'truncate', 'foreign', 'delims', 'partial', 'nonhex', 'mixed', 'bighead', 'corrupt-class'])
    good = gen_valid(rng, name, direction, uid, 1)
    if kind == 'corrupt-class':
        # a damaged frame of EVERY message class in turn (each has its own rule in the RTU length oracle), own or foreign unit
        kind = 'corrupt'
        gen = msggen.gen_req if direction == 'req' else msggen.gen_resp
        types = msggen.REQ_TYPES if direction == 'req' else msggen.RESP_TYPES
        for _ in range(20):
            t = rng.choice(types)
            m = gen(rng, t)
            if t == 'diag' and rng.random() < 0.6:
                m = {'t': 'diag', 'sub': 0, 'message': {'k': 'int', 'n': rng.randrange(65536)}}
            if not in_range(direction, m) or not devinfo_fits(m):
                continue
            f = framelib.real_build(name, direction, m, rng.choice([uid, uid, (uid + 5) % 247 + 1]), rng.randrange(65536), 0)
            if isinstance(f, dict) or len(f) > 256 or not frame_ok(name, direction, m, f):
                continue
            good = [f]
            break
    g = []
    if kind == 'random' or not good:
        g = [rng.randrange(256) for _ in range(rng.choice([1, 2, 3, 5, 17, 60, 300]))]
    elif kind == 'corrupt':
        g = list(good[0])
        for _ in range(rng.choice([1, 1, 2, 5])):
            i = rng.randrange(len(g))
            g[i] ^= 1 << rng.randrange(8)
    elif kind == 'truncate':
        g = good[0][:rng.randrange(1, len(good[0]))]
    elif kind == 'foreign':
        other = framelib.real_build(name, direction, {'t': 'writeRegister', 'address': 1, 'value': 2}, (uid + 5) % 247 + 1, 1, 0)
        g = other if not isinstance(other, dict) else []
    elif kind == 'bighead':
        # the head of a frame whose byte-count field announces a frame at or beyond the 256-byte maximum
        big = rng.choice([0xF0, 0xF6, 0xF7, 0xF8, 0xFA, 0xFB, 0xFC, 0xFE, 0xFF])
        if direction == 'req':
            hi = lambda: rng.choice([0, 0, 1, 0x40, 0x7F, 0xFF, rng.randrange(256)])   # noqa: E731  (damaged high bytes too)
            g = rng.choice([[uid, rng.choice([15, 16]), hi(), rng.randrange(200), hi(), rng.randrange(1, 120), big],
                            [uid, 23, hi(), 1, hi(), 2, hi(), 3, hi(), rng.randrange(1, 120), big],
                            [uid, 23, 0, 1, 0, 2, 0, 3, hi(), rng.randrange(1, 120), rng.randrange(256)],
                            [uid, rng.choice([15, 16]), 0, 0, hi(), rng.randrange(256), rng.randrange(256)],
                            [uid, rng.choice([20, 21]), big, 6, hi(), 1]])
        else:
            g = [uid, rng.choice([1, 2, 3, 4, 20, 21, 23]), big]
        g = g + [rng.randrange(256) for _ in range(rng.choice([0, 0, 1, 4]))]
    elif kind == 'delims':
        g = [rng.choice([58, 13, 10, 0x7B, 0x7D, 48, 70]) for _ in range(rng.randrange(1, 30))]
    elif kind == 'partial':
        g = good[0][:rng.choice([1, 2, 3, max(1, len(good[0]) - 1)])]
    elif kind == 'nonhex':
        g = [58] + [rng.choice([90, 122, 32, 71]) for _ in range(rng.randrange(1, 8))] + ([13, 10] if rng.random() < 0.5 else [])
    else:
        g = [rng.randrange(256) for _ in range(5)] + good[0][:3] + [rng.randrange(256) for _ in range(3)]
    return kind, g


def has_false_frame(stream, glen):
    """is there a window that starts inside the garbage and is a CRC-valid RTU frame (incremental bit-serial CRC)"""
    n = len(stream)
    for i in range(min(glen, n)):
        crc = 0xFFFF
        for j in range(i, min(n, i + 300)):
            # window stream[i:j+1] valid iff its last two bytes equal the CRC of the bytes before them
            if j - i >= 3:
                pass
            b = stream[j]
            crc ^= b
            for _ in range(8):
                crc = (crc >> 1) ^ 0xA001 if crc & 1 else crc >> 1
            # crc now covers stream[i:j+1]; residue 0 <=> data + its CRC (low byte first)
            if j - i >= 3 and crc == 0:
                return True
    return False


def check_cases(ctx, rep, cases):
    q = [{'op': 'feed', 'framer': name, 'dir': rdir, 'units': [uid], 'single': False, 'chunks': chunks} for name, rdir, uid, kind, g, frames, chunks in cases]
    ans = ctx.driver.query(q)
    for (name, rdir, uid, kind, g, frames, chunks), a in zip(cases, ans):
        case = {'kind': 'resync', 'framer': name, 'dir': rdir, 'uid': uid, 'garbage_kind': kind, 'chunks': chunks}
        rep.case((name, rdir, tuple(g), len(frames), len(chunks)), nontrivial=len(g) > 0, tag='%s:%s:%s' % (name, rdir, kind))
        rep.sample({'framer': name, 'dir': rdir, 'garbage_kind': kind, 'garbage': g[:30], 'valid_frames': len(frames), 'reads': len(chunks)}, cap=6)
        calls = framelib.real_feed(name, rdir, [uid], False, chunks)
        rep.compare(case, calls, a['calls'], 'resync history: real receiver vs model')
        # which frames must be delivered: those that start after 512 bytes of valid traffic (delimited framings: after the first)
        delivered = framelib.deliveries(calls)
        base = framelib.deliveries(framelib.real_feed(name, rdir, [uid], False, frames))
        if len(base) != len(frames):
            continue   # a frame that does not round-trip on its own is C03's business
        need_from, acc = len(frames), 0
        for i, f in enumerate(frames):
            if name in ('ascii', 'binary'):
                need_from = 1
                break
            if acc >= 512:
                need_from = i
                break
            acc += len(f)
        required = base[need_from:]
        tail = delivered[len(delivered) - len(required):] if required else []
        if required and tail != required:
            if name == 'rtu':
                stream = [b for c in chunks for b in c]
                if has_false_frame(stream[:len(g) + sum(len(f) for f in frames[:need_from])], len(g)):
                    rep.hist['excluded:false-frame'] += 1
                    continue
            fid = classify(name, rdir, 'deaf', uid, chunks)
            if fid is None and name == 'rtu' and flush_took_the_read(g, frames, chunks, calls, base):
                fid = 'rtu-flush-discards-read'
            rep.violation('valid frames sent after the garbage (and after two maximum-size frames of valid traffic) were not all delivered',
                          case, finding=fid, required=len(required), got=len(delivered),
                          backlog=[c['buffered'] for c in calls][-5:])
            continue
        bound = BACKLOG_BOUND[name] + max(len(c) for c in chunks)
        worst = max(c['buffered'] for c in calls)
        if worst > bound:
            rep.violation('the backlog of unconsumed bytes grew beyond the bound while valid frames kept arriving', case,
                          finding=classify(name, rdir, 'backlog', uid, chunks), worst=worst, bound=bound)


def gen_handler_case(rng):
    framer = rng.choice(['rtu', 'rtu', 'ascii', 'binary'])
    uid = rng.choice([1, 2, 0x11])
    units = [[uid, execlib.gen_layout(rng, 0.0)]]
    kind, g = gen_garbage(rng, framer, 'req', uid)
    frames, fcs = [], []
    for _ in range(rng.choice([3, 20, 60, 110] if framer == 'rtu' else [2, 3, 8, 20])):
        r = execlib.gen_req(rng, units[0][1], [], 0.1)
        if framer == 'rtu' and 'raw' in r and len(r['raw']) != r.get('byte_count', r.get('write_byte_count')):
            continue   # on RTU the byte count field delimits the frame
        pdu = list(execlib.enc_req(r))
        f = serverlib.frame_pdu(framer, pdu, uid, 0)
        if framer == 'binary' and framelib.has_delim(f):
            continue
        frames.append(f)
        fcs.append(pdu[0])
    k = rng.choice([1, 1, 2, 3])
    chunks, reads = ([g] if g else []), ([[]] if g else [])
    if g and len(g) > 1 and rng.random() < 0.3:
        chunks, reads = [g[:len(g) // 2], g[len(g) // 2:]], [[], []]
    for i in range(0, len(frames), k):
        chunks.append([b for f in frames[i:i + k] for b in f])
        reads.append(fcs[i:i + k])
    return dict(kind='handler-resync', frontend='syncSerial', framer=framer, single=False, units=units, ignore_missing=rng.random() < 0.5,
                broadcast=False, chunks=chunks, reads=reads, glen=len(g), garbage_kind=kind, uid=uid)


def check_handlers(ctx, rep, cases):
    for c, (real, a) in zip(cases, serverlib.run_both(ctx, cases)):
        outs, escs, dumps, alive, control = real
        case = {k: c[k] for k in ('kind', 'frontend', 'framer', 'single', 'units', 'ignore_missing', 'broadcast', 'chunks', 'reads', 'glen', 'uid')}
        rep.case(('handler', c['framer'], str(c['chunks'])), nontrivial=c['glen'] > 0, tag='handler:%s:%s' % (c['framer'], c['garbage_kind']))
        serverlib.compare(rep, case, real, a, 'serial handler after garbage vs Server.connStep')
        acc, first, stream = 0, True, [b for ch in c['chunks'] for b in ch]
        for j, (ch, fcs) in enumerate(zip(c['chunks'], c['reads'])):
            if not fcs:
                continue
            required = acc >= 512 if c['framer'] == 'rtu' else not first
            first = False
            start = acc
            acc += len(ch)
            if not required:
                continue
            got = [(serverlib.frame_fc(c['framer'], f) or 0) & 0x7F for f in outs[j]]
            if got != fcs:
                if c['framer'] == 'rtu' and has_false_frame(stream[:c['glen'] + start], c['glen']):
                    rep.hist['excluded:false-frame'] += 1
                    break
                rep.violation('requests that arrived after the garbage (and after two maximum-size frames of valid traffic) were not all '
                              'answered by the serial server handler', case, read=j, requests=fcs, answered=got, escaped=[e for e in escs if e][:2])
                break


def run(ctx):
    rep = Report(RULE)
    rng = ctx.rng
    for c in ctx.corpus():
        if c.get('kind') in ('chunks', 'resync'):
            a = ctx.driver.query([{'op': 'feed', 'framer': c['framer'], 'dir': c['dir'], 'units': [c['uid']], 'single': False, 'chunks': c['chunks']}])[0]
            calls = framelib.real_feed(c['framer'], c['dir'], [c['uid']], False, c['chunks'])
            rep.case(('corpus', c['framer'], str(c['chunks'])), tag='corpus')
            rep.compare(c, calls, a['calls'], 'corpus')
            if c.get('kind') == 'resync' and (framelib.raised(calls) or not framelib.deliveries(calls[-1:])):
                rep.violation('corpus history: the last valid frame was not delivered', c,
                              finding=classify(c['framer'], c['dir'], 'deaf', c['uid'], c['chunks']), calls=calls[-2:])
    # recorded histories that come with their frame list go through the full check (bound and backlog)
    full = [(c['framer'], c['dir'], c['uid'], 'corpus', [b for ch in c['chunks'][:len(c['chunks']) - len(c['frames_per_chunk'])] for b in ch],
             [c['frame']] * sum(c['frames_per_chunk']), c['chunks']) for c in ctx.corpus() if c.get('kind') == 'resync' and 'frames_per_chunk' in c]
    if full:
        check_cases(ctx, rep, full)
    rounds = ctx.scale(110, 2500)
    for _ in range(rounds):
        if ctx.time_left() < 15:
            break
        cases = []
        for name in ('rtu', 'ascii', 'binary'):
            for direction in ('req', 'resp'):
                rdir = 'server' if direction == 'req' else 'client'
                for _ in range(4):
                    uid = rng.choice([1, 2, 0x11, 0x7B])      # 0x7B: the binary start delimiter as a unit id (sent raw, legal)
                    kind, g = gen_garbage(rng, name, direction, uid)
                    frames = gen_valid(rng, name, direction, uid, rng.choice(([2, 3, 8, 20, 50] if name != 'rtu' else [3, 20, 60, 110, 160]) if kind != 'bighead' else [20, 50, 80, 160]))   # RTU: enough traffic to pass the 512-byte mark
                    if len(frames) < 2:
                        continue
                    k = rng.choice([1, 1, 2, 3])
                    chunks = [g] if g else []
                    if rng.random() < 0.3 and g:
                        chunks = [g[:len(g) // 2], g[len(g) // 2:]]
                    for i in range(0, len(frames), k):
                        chunks.append([b for f in frames[i:i + k] for b in f])
                    cases.append((name, rdir, uid, kind, g, frames, chunks))
        if cases:
            check_cases(ctx, rep, cases)
        check_handlers(ctx, rep, [gen_handler_case(rng) for _ in range(3)])
    return rep


def replay(ctx, payload):
    c = payload['case']
    if c.get('kind') == 'handler-resync':
        rep = Report(RULE)
        check_handlers(ctx, rep, [dict(c, garbage_kind=c.get('garbage_kind', 'replay'))])
        if rep.violations:
            return rep.violations[0]['what']
        return 'model/implementation disagreement' if rep.disagreements else None
    a = ctx.driver.query([{'op': 'feed', 'framer': c['framer'], 'dir': c['dir'], 'units': [c['uid']], 'single': False, 'chunks': c['chunks']}])[0]
    calls = framelib.real_feed(c['framer'], c['dir'], [c['uid']], False, c['chunks'])
    if calls != a['calls']:
        return 'model/implementation disagreement'
    if not framelib.deliveries(calls[-1:]):
        return 'the last valid frame was not delivered'
    return None
