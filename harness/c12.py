"""C12 — no received byte sequence can crash a server or corrupt its data.

Hostile byte histories (random bytes; well-framed ADUs around truncated / over-long / inconsistent / empty PDUs, unknown
diagnostic and MEI sub-functions; TCP length fields 0/1/2/65535; bit-flipped valid traffic; all of it mixed with valid
write requests and split across reads) are sent to connection A of every REAL front-end, while connection B is open
and idle.  Then a well-formed read request is sent on B and on a fresh connection C.  Checked on the real code:
  (a) no exception escapes handle() / data_received() / dataReceived() / datagramReceived() nor ends the asyncio
      serving coroutine;
  (b) call-by-call agreement with the model (written bytes, connection liveness) and final datastore = the model's, which
      changes only by the executions of the decodable, checksum-valid requests (theorems store_unchanged_without_delivery,
      rejected_request_changes_nothing); histories of bytes that cannot contain a write request leave the store untouched
      (direct check, no model);
  (c) the probes on B and C are each answered by exactly one normal response of the probe's type with its ids."""
from harness.runner import Report
from harness import execlib, serverlib, frontends, framelib

ASSUMPTIONS = ['event loops and sockets are replaced by in-process fakes that hand each chunk to the real handler in order; '
               'socketserver / asyncio / the Twisted reactor themselves are not exercised',
               'the process-wide control block (counters, listen-only flag, identity) is reset before every case and is part of the '
               'model state; a Twisted front-end that received a well-formed Force Listen Only Mode request goes deaf as the protocol '
               'prescribes: its probes are then not required to be answered']
RULE = ('front-end x framer x {single, multi-unit} x ignore_missing x broadcast x hostile histories of 1..14 chunks of kinds '
        '{random, valid-write, valid-other, trunc-pdu, long-pdu, bad-count, zero-pdu, len-field, bitflip, unknown-sub, split, '
        'inert}; then a probe on an idle second connection and on a fresh third one; non-trivial = at least one chunk is '
        'not a valid frame; distinct by (configuration, byte history)')

OTHER_PDUS = [[8, 0, 0, 0x12, 0x34], [8, 0, 1, 0, 0], [8, 0, 2, 0, 0], [8, 0, 3, 0x3A, 0], [8, 0, 4, 0, 0], [8, 0, 10, 0, 0],
              [8, 0, 11, 0, 0], [8, 0, 20, 0, 0], [8, 0, 21, 0, 3], [8, 0, 21, 0, 4], [43, 14, 1, 0], [43, 14, 2, 0],
              [43, 14, 3, 0x80], [43, 14, 4, 5], [17], [7], [11], [12], [24, 0, 0], [20, 7, 6, 0, 1, 0, 0, 0, 2],
              [21, 9, 6, 0, 1, 0, 0, 0, 1, 0xAB, 0xCD]]
UNKNOWN_SUB = [[8, 0x12, 0x34, 0, 0], [8, 0, 5, 0, 0], [8, 0xFF, 0xFF], [8], [8, 0], [43, 13, 1, 0], [43, 14, 9, 0], [43, 14, 0, 0],
               [43], [43, 14], [43, 14, 1], [43, 14, 1, 0, 0], [20, 0], [20, 7, 6], [21, 200, 6, 0, 1], [24], [24, 0], [22, 0, 1],
               # file-record sub-requests with a reference type other than 6, first and second in the list
               [21, 9, 7, 0, 4, 0, 7, 0, 1, 0xBE, 0xEF], [20, 7, 7, 0, 1, 0, 0, 0, 2], [20, 14, 6, 0, 1, 0, 0, 0, 2, 0, 0, 1, 0, 0, 0, 2],
               [21, 18, 6, 0, 1, 0, 0, 0, 1, 0xAB, 0xCD, 5, 0, 1, 0, 0, 0, 1, 0x12, 0x34]]
WRITE_FCS = (5, 6, 15, 16, 22, 23)
INERT = [b for b in range(256) if b not in WRITE_FCS]


def gen_hostile(rng, framer, units, single, other_pdus=None):
    hosted = [u for u, _ in units]
    uid_pool = hosted + hosted + [0, 255, rng.randrange(256)]
    chunks, kinds = [], []
    last_valid = None
    n = rng.choice([1, 2, 3, 5, 8, 14])
    inert_only = rng.random() < 0.15 and framer != 'ascii'
    for _ in range(n):
        uid = rng.choice(uid_pool)
        layout = dict(units).get(uid, units[0][1])
        tid = rng.choice([0, 1, 0xFFFF, rng.randrange(65536), rng.randrange(65536), rng.randrange(65536)])
        glue = False
        if framer == 'tcp' and last_valid is not None and rng.random() < 0.3:
            # a transaction id that equals a checksum of the frame in front, pipelined in the same read
            tid, glue = serverlib.lookalike_tid(rng, last_valid), True
        kind = rng.choice(['random', 'valid-write', 'valid-other', 'trunc-pdu', 'long-pdu', 'bad-count', 'zero-pdu',
                           'len-field', 'bitflip', 'unknown-sub', 'random', 'valid-write', 'inconsistent'])
        if inert_only:
            kind = 'inert'
        good = execlib.gen_req(rng, layout, [], 0.0)
        gpdu = list(execlib.enc_req(good))
        if kind == 'random':
            c = [rng.randrange(256) for _ in range(rng.choice([1, 2, 3, 7, 8, 12, 40, 300]))]
        elif kind == 'inert':
            c = [rng.choice(INERT) for _ in range(rng.choice([1, 4, 8, 12, 40, 120]))]
        elif kind == 'valid-write':
            c = serverlib.frame_pdu(framer, gpdu, uid, tid)
        elif kind == 'valid-other':
            c = serverlib.frame_pdu(framer, rng.choice(other_pdus or OTHER_PDUS), uid, tid)
        elif kind == 'trunc-pdu':
            c = serverlib.frame_pdu(framer, gpdu[:rng.randrange(0, len(gpdu))], uid, tid)
        elif kind == 'long-pdu':
            c = serverlib.frame_pdu(framer, gpdu + [rng.randrange(256) for _ in range(rng.choice([1, 2, 5, 60]))], uid, tid)
        elif kind == 'bad-count':
            bad = execlib.gen_req(rng, layout, [], 1.0)
            c = serverlib.frame_pdu(framer, list(execlib.enc_req(bad)), uid, tid)
        elif kind == 'inconsistent':
            # a write (FC 15 / 16 / 23) that would be valid, with its byte count off by one or two and exactly that many data
            # bytes behind it: well-framed, decodable on some paths, and to be REJECTED (exception 03) without any change
            w = None
            for _ in range(60):
                cand = execlib.gen_req(rng, layout, [], 0.0)
                if cand['t'] in ('writeCoils', 'writeRegisters', 'readWrite') and 'raw' in cand and len(cand['raw']) >= 2:
                    w = dict(cand)
                    break
            if w is None:
                kind, c = 'zero-pdu', serverlib.frame_pdu(framer, [], uid, tid)
            else:
                raw = list(w['raw'])
                how = rng.choice(['plus1', 'minus1', 'plus2'])
                raw = raw + [0xAB] if how == 'plus1' else raw[:-1] if how == 'minus1' else raw + [0xAB, 0xCD]
                w['raw'] = raw
                w['write_byte_count' if w['t'] == 'readWrite' else 'byte_count'] = len(raw)
                c = serverlib.frame_pdu(framer, list(execlib.enc_req(w)), uid, tid)
        elif kind == 'zero-pdu':
            c = serverlib.frame_pdu(framer, [], uid, tid)
        elif kind == 'len-field':
            ln = rng.choice([0, 1, 2, 3, 65535, 256, rng.randrange(65536)])
            if framer == 'tcp':
                c = [tid >> 8, tid & 255, rng.choice([0, 0, 1]), 0, ln >> 8, ln & 255, uid] + gpdu[:rng.randrange(0, len(gpdu) + 1)]
            else:
                c = serverlib.frame_pdu(framer, gpdu, uid, tid)
                c = c[:rng.randrange(1, len(c))]        # cut anywhere, checksum and terminator included
        elif kind == 'bitflip':
            c = list(serverlib.frame_pdu(framer, gpdu, uid, tid))
            for _ in range(rng.choice([1, 1, 2, 3])):
                i = rng.randrange(len(c))
                c[i] ^= 1 << rng.randrange(8)
        else:
            c = serverlib.frame_pdu(framer, rng.choice(UNKNOWN_SUB), uid, tid)
        if framer == 'binary' and kind in ('valid-write', 'valid-other') and framelib.has_delim(c):
            kind = 'binary-delims'
        if glue and kind not in ('valid-write', 'valid-other'):
            glue = False
        if (glue or rng.random() < 0.15) and chunks and len(chunks[-1]) + len(c) < 600 and not (glue and kinds[-1].endswith(':split')):
            chunks[-1] = chunks[-1] + c          # several frames (good and bad) in one read / datagram
            kinds[-1] = kinds[-1] + '+' + kind
        elif rng.random() < 0.2 and len(c) > 1:
            k = rng.randrange(1, len(c))
            chunks += [c[:k], c[k:]]
            kinds += [kind + ':split', kind + ':split']
        else:
            chunks.append(c)
            kinds.append(kind)
        last_valid = list(c) if (framer == 'tcp' and kind in ('valid-write', 'valid-other') and not kinds[-1].endswith(':split')) else None
    return chunks, kinds, inert_only


def gen_damaged_writes(rng, framer, units, single):
    """reads in which every WRITE request has a damaged checksum (wrong value, or not even hexadecimal on ASCII) or is cut
    short, each directly after a well-formed READ request in the same read — the place where a receiver that carries
    state from one frame to the next goes wrong"""
    hosted = [u for u, _ in units]
    chunks, kinds = [], []
    for _ in range(rng.choice([1, 2, 4])):
        uid = rng.choice(hosted)
        layout = dict(units)[uid]
        rd, wr = None, None
        for _ in range(200):
            r = execlib.gen_req(rng, layout, [], 0.0)
            if r['t'] in ('readCoils', 'readDiscrete', 'readHolding', 'readInput') and rd is None:
                rd = r
            elif r['t'] in ('writeCoil', 'writeRegister', 'writeCoils', 'writeRegisters', 'maskWrite') and wr is None:
                wr = r
            if rd and wr:
                break
        if not (rd and wr):
            continue
        good = serverlib.frame_request(framer, rd, uid, 0)
        bad = list(serverlib.frame_request(framer, wr, uid, 0))
        how = rng.choice(['wrong-checksum', 'nonhex-checksum', 'nonhex-unit', 'cut', 'swapped-checksum'])
        if framer == 'ascii':
            if how == 'wrong-checksum':
                bad[-3] = ord('0') if bad[-3] != ord('0') else ord('1')
            elif how == 'nonhex-checksum':
                bad[-4], bad[-3] = ord('Z'), ord('Z')
            elif how == 'nonhex-unit':
                bad[1] = ord('G')
            else:
                bad = bad[:-4] + [13, 10]
        elif framer == 'rtu':
            if how == 'cut':
                bad = bad[:-1]
            elif how == 'swapped-checksum' and bad[-1] != bad[-2]:
                bad[-1], bad[-2] = bad[-2], bad[-1]      # the right CRC, its two bytes in the wrong order
            else:
                bad[-1] ^= 0x55
        else:
            if how == 'cut':
                bad = bad[:-2] + [0x7D]
            elif how == 'swapped-checksum' and bad[-2] != bad[-3] and 0x7B not in (bad[-2], bad[-3]) and 0x7D not in (bad[-2], bad[-3]):
                bad[-2], bad[-3] = bad[-3], bad[-2]
            else:
                bad[-2] ^= 0x55
        if framer == 'binary' and (framelib.has_delim(good) or framelib.has_delim(bad)):
            continue
        chunks.append(list(good) + bad)
        kinds.append('damaged-write-after-read:' + how)
    if not chunks:
        chunks, kinds = [[0]], ['inert']
    return chunks, kinds


def gen_probe(rng, framer, units, single, bcast):
    uid, layout = rng.choice(units)
    if single:
        uid = rng.choice([uid, 1, 255, rng.randrange(256)])
    if bcast and uid == 0:
        if not single:
            return None     # unit 0 is the broadcast address here: nothing to probe
        uid = 1
    for _ in range(200):
        r = execlib.gen_req(rng, layout, [], 0.0)
        if r['t'] in ('readCoils', 'readDiscrete', 'readHolding', 'readInput'):
            r['count'] = 1
            lo, hi = execlib.table_window(layout, execlib.TABLE_OF_T[r['t']])
            r['address'] = lo - (0 if layout['zero'] else 1)
            if r['address'] < 0 or r['address'] > 65535 or hi < lo:
                continue
            tid = rng.randrange(1, 65536)
            f = serverlib.frame_request(framer, r, uid, tid)
            if framer == 'binary' and framelib.has_delim(f):
                continue
            return {'uid': uid, 'tid': tid, 'req': r, 'frame': f}
    return None


def gen_case(rng, frontend=None):
    fe = frontend or rng.choice(frontends.FRONTENDS)
    framer = rng.choice(serverlib.FRAMERS_FOR[fe])
    single, units = serverlib.gen_units(rng, single=True if framer == 'tls' else None)
    ignore = rng.random() < 0.5
    bcast = rng.random() < 0.3 and fe not in ('twistedTcp', 'twistedUdp') and framer != 'tls'
    chunks, kinds, inert_only = gen_hostile(rng, framer, units, single)
    if framer in ('rtu', 'ascii', 'binary') and rng.random() < 0.15:
        chunks, kinds = gen_damaged_writes(rng, framer, units, single)
        inert_only = True      # no checksum-valid write is among these bytes: the datastore must not change
    probe = gen_probe(rng, framer, units, single, bcast)
    if probe is None:
        return None
    if fe == 'syncTcp' and rng.random() < 0.3:
        # the connection sat idle past the socket's receive timeout once before the traffic starts (the handler's recv raised
        # socket.timeout and it went on): nothing that happens later may depend on that
        chunks, kinds = [None] + list(chunks), ['idle-timeout'] + list(kinds)
    # connection 0 = A (hostile), 1 = B (open and idle from the start), 2 = C (fresh: first used after the hostile traffic)
    sched = [[0, c] for c in chunks] + [[1, probe['frame']], [2, probe['frame']]]
    return dict(frontend=fe, framer=framer, single=single, units=units, ignore_missing=ignore, broadcast=bcast,
                schedule=sched, kinds=kinds, probe={k: probe[k] for k in ('uid', 'tid', 'req')}, inert_only=inert_only)


def check(ctx, rep, cases):
    ans = serverlib.ask_model(ctx, cases)
    for c, a in zip(cases, ans):
        real, before, per_step = serverlib.run_real_steps(c)
        outs, escs, dumps, alive, control = real
        case = {k: c[k] for k in ('frontend', 'framer', 'single', 'units', 'ignore_missing', 'broadcast', 'schedule', 'kinds', 'probe', 'inert_only')}
        case['kind'] = 'hostile'
        kinds = c['kinds']
        rep.case((c['frontend'], c['framer'], str(c['schedule']), str(c['units']), c['ignore_missing'], c['broadcast'], c['single']),
                 nontrivial=any(not k.startswith('valid') or '+' in k for k in kinds), tag='%s:%s' % (c['frontend'], c['framer']))
        for k in kinds:
            for kk in k.split('+'):
                rep.hist['kind:' + kk] += 1
            if '+' in k:
                rep.hist['several-frames-in-one-read'] += 1
        rep.hist['A-closed-by-server' if not alive[len(kinds) - 1] else 'A-still-served'] += 1
        rep.sample({'frontend': c['frontend'], 'framer': c['framer'], 'kinds': kinds[:6], 'first_chunk': next((ch for _, ch in c['schedule'] if ch), [])[:24],
                    'written_per_chunk': [sum(len(f) for f in o) for o in outs][:8]}, cap=6)
        # (a)
        if any(escs):
            i = next(i for i, e in enumerate(escs) if e)
            rep.violation('the serving loop never came back from a receive call (it hangs: other and future connections are not served)'
                          if escs[i] == 'hang' else 'an exception escaped the serving entry point of the front-end', case, index=i, escaped=escs[i],
                          chunk=(c['schedule'][i][1] or [])[:64])
            continue
        # (b)
        same = serverlib.compare(rep, case, real, a, 'hostile history vs Server.connStep')
        if c['inert_only'] and dumps != before:
            if same:
                # the front-end did, read by read, what the model does, and in the model a table changes only through a complete
                # frame with a valid checksum (Props C07 *_frame_valid, C10 connStep_untouched): the damaged pieces happened to
                # complete a valid write across two reads (a frame cut before its last byte, and the next read starts with
                # exactly that byte: 1 in 256).  Legitimate; counted, not reported.
                rep.hist['excluded:write-completed-across-reads'] += 1
                continue
            rep.violation('bytes that contain no write function code changed the datastore', case)
            continue
        # no request creates or removes cells: whatever the bytes were, every table of every unit keeps its extent
        def extent(d):
            return [[u, [[cell[0] for cell in table] for table in tabs]] for u, tabs in d]
        grown = next((i for i, now in enumerate(per_step) if extent(now) != extent(before)), None)
        if grown is not None:
            rep.violation('the extent of a datastore table changed (cells were created or removed by a request)', case, index=grown,
                          chunk=c['schedule'][grown][1][:80] if isinstance(c['schedule'][grown][1], list) else c['schedule'][grown][1])
            continue
        # a read that holds nothing but a write whose byte count contradicts its quantity (kind 'inconsistent') prescribes no
        # change, whatever the server answered
        kinds = c.get('kinds') or []
        prevd, badk = before, None
        for i, now in enumerate(per_step):
            if i < len(kinds) and kinds[i] == 'inconsistent' and now != prevd:
                badk = i
                break
            prevd = now
        if badk is not None and same:
            rep.hist['excluded:write-completed-across-reads'] += 1      # (as above: the change was made by a valid frame the model executes too)
        elif badk is not None:
            rep.violation('a write request whose byte count contradicts its quantity changed the datastore', case, index=badk, written=outs[badk], chunk=(c['schedule'][badk][1] or [])[:80])
            continue
        # a read that is answered with exception responses only, or not at all, prescribes no change (broadcast off:
        # every executed request is answered)
        if not c['broadcast']:
            prev, bad = before, False
            for i, (o, now) in enumerate(zip(outs, per_step)):
                if now != prev:
                    fcs = [serverlib.frame_fc(c['framer'], f) for f in o]
                    if all(fc is not None and fc >= 0x80 for fc in fcs):
                        rep.violation('the datastore changed in a step whose requests were all rejected (exception responses only) or not '
                                      'answered at all', case, index=i, written=o, chunk=(c['schedule'][i][1] or [])[:80])
                        bad = True
                        break
                prev = now
            if bad:
                continue
        # well-formed requests only, some of them cut in two reads: how the bytes were cut must not matter for the datastore
        # nor for what is written (stream front-ends)
        if kinds and all(k.split(':')[0] in ('valid-write', 'valid-other') for k in kinds) and any(k.endswith(':split') for k in kinds) \
                and c['frontend'] in frontends.STREAM_FRONTENDS and c['framer'] != 'tls':
            joined, i = [], 0
            hostile = [ch for ci, ch in c['schedule'][:len(kinds)]]
            while i < len(kinds):
                if kinds[i].endswith(':split') and i + 1 < len(kinds):
                    joined.append(hostile[i] + hostile[i + 1])
                    i += 2
                else:
                    joined.append(hostile[i])
                    i += 1
            ref = serverlib.run_real(dict(c, schedule=[[0, ch] for ch in joined] + c['schedule'][len(kinds):]))
            flat = [b for o in outs[:len(kinds)] for f in o for b in f]
            rflat = [b for o in ref[0][:len(joined)] for f in o for b in f]
            if ref[2] != dumps or flat != rflat:
                rep.violation('well-formed requests cut across two reads are not served like the same requests arriving whole', case,
                              dumps_equal=ref[2] == dumps, written_equal=flat == rflat)
                continue
        # (c)
        if control['listen_only'] and c['frontend'] in ('twistedTcp', 'twistedUdp'):
            rep.hist['listen-only-entered (Twisted goes deaf on request: probes not required)'] += 1
            continue
        p = c['probe']
        for name, o in (('idle connection B', outs[-2]), ('fresh connection C', outs[-1])):
            frames = o
            if c['frontend'] == 'twistedTcp' and o:
                frames = o   # a single write for a single response
            parsed = serverlib.parse_responses(c['framer'], frames)
            ok = len(parsed) == 1 and 'msg' in parsed[0] and parsed[0]['msg']['t'] == p['req']['t']
            if ok and c['framer'] != 'tls' and parsed[0]['uid'] != p['uid']:
                ok = False
            if ok and c['framer'] == 'tcp' and parsed[0]['tid'] != p['tid']:
                ok = False
            if not ok:
                if c['framer'] == 'binary' and any(framelib.has_delim(f) for f in frames):
                    rep.violation('a binary response frame contains a delimiter byte', case, finding='binary-framer-escaping')
                    break
                rep.violation('after the hostile traffic a well-formed read request on the %s was not answered correctly' % name, case,
                              written=o, parsed=[{k: v for k, v in q.items() if k != 'unparsed'} for q in parsed])
                break


def run(ctx):
    rep = Report(RULE)
    rng = ctx.rng
    for c in ctx.corpus():
        if c.get('kind') == 'hostile':
            check(ctx, rep, [c])
        elif c.get('kind') == 'server':
            res = serverlib.run_both(ctx, [c])
            rep.case(('corpus', str(c.get('chunks'))), tag='corpus')
            serverlib.compare(rep, c, res[0][0], res[0][1], 'corpus')
            outs, escs = res[0][0][0], res[0][0][1]
            # recorded histories end with a well-formed read request on a connection the server must still serve
            if any(escs):
                rep.violation('an exception escaped the serving entry point of the front-end', c, escaped=escs)
            elif c['frontend'] not in ('syncTcp', 'aioTcp', 'twistedTcp') and not outs[-1]:
                rep.violation('corpus history: the well-formed request that follows the offending data was not answered', c)
    total = ctx.scale(3000, 60000)
    done = 0
    while done < total and ctx.time_left() > 20:
        cases = [gen_case(rng) for _ in range(100)]
        cases = [c for c in cases if c]
        check(ctx, rep, cases)
        done += len(cases)
    return rep


def replay(ctx, payload):
    rep = Report(RULE)
    c = dict(payload['case'])
    if c.get('kind') != 'hostile':
        res = serverlib.run_both(ctx, [c])
        if not serverlib.compare(rep, c, res[0][0], res[0][1], 'replay'):
            return 'model/implementation disagreement'
        return None
    check(ctx, rep, [c])
    if rep.violations:
        return rep.violations[0]['what']
    if rep.disagreements:
        return 'model/implementation disagreement'
    return None
