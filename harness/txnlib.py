"""Shared by C08 / C13: the REAL synchronous clients (ModbusTcpClient with the socket / RTU / ASCII / binary framer,
ModbusSerialClient rtu / ascii / binary, ModbusUdpClient) driven in-process over a scripted fake transport and a
virtual clock, and the same cases sent to the Lean model (`txn` op, lean/Pymodbus/Model/Txn.lean).

Transport model (identical on both sides):
  * `inbuf`: byte FIFO (stream transports) / datagram FIFO (UDP);
  * one *reaction* per transmission: {'send': 1|0, 'now': [chunk...], 'late': [chunk...], 'recv': 'ok'|'oserror'|'closed'};
    a transmission beyond the script gets the silent reaction (send ok, nothing arrives);
    `now` is appended to inbuf right after the write, `late` when the attempt is over, i.e. when the next
    transmission begins (before the client flushes / drains pending input), `recv` is the state of the receive side
    until the next transmission (oserror: the next read raises; closed: EOF after the buffered bytes);
  * closing the socket discards inbuf, the pending late bytes and the error state; connect() always succeeds;
  * stream read(n): min(n, available) bytes, n <= 0 reads nothing, n = None follows the real class (TCP: byte-wise
    until the timeout; serial: _wait_for_data then read(in_waiting)); the virtual clock pays for every wait.

No pymodbus function is replaced: only the module references `time`, `select`, `socket` of pymodbus.client.sync,
`time` of pymodbus.transaction and pymodbus.framer.rtu_framer, and `serial.Serial` are swapped for fakes while a
case runs."""
import struct
import contextlib
from harness.pyutil import debug_logging
import logging
import socket as real_socket

import serial as real_serial

import pymodbus.client.sync as sync_mod
import pymodbus.transaction as txn_mod
import pymodbus.framer.rtu_framer as rtu_mod
from pymodbus.client.sync import ModbusTcpClient, ModbusUdpClient, ModbusSerialClient
from pymodbus.exceptions import ModbusIOException
from pymodbus.framer.socket_framer import ModbusSocketFramer
from pymodbus.framer.rtu_framer import ModbusRtuFramer
from pymodbus.framer.ascii_framer import ModbusAsciiFramer
from pymodbus.framer.binary_framer import ModbusBinaryFramer
from pymodbus.utilities import ModbusTransactionState
from pymodbus.diag_message import _MCB

from harness import msggen, pdus, framelib
from harness.pyutil import errkind

TIMEOUT = 2.0
TICK = 0.001
OP_LIMIT = 400000          # clock reads + transport operations allowed per call (a call beyond it "hangs")
FRAMER_CLS = {'tcp': ModbusSocketFramer, 'rtu': ModbusRtuFramer, 'ascii': ModbusAsciiFramer, 'binary': ModbusBinaryFramer}
CONFIGS = [('tcp', 'tcp'), ('tcp', 'rtu'), ('tcp', 'ascii'), ('tcp', 'binary'),
           ('serial', 'rtu'), ('serial', 'ascii'), ('serial', 'binary'), ('udp', 'tcp')]
SILENT = {'send': 1, 'now': [], 'late': [], 'recv': 'ok'}
BROADCAST_MARK = b'Broadcast write sent - no response expected'
PLUS_WORDS = len(_MCB.Plus.encode())
FC = {'readCoils': 1, 'readDiscrete': 2, 'readHolding': 3, 'readInput': 4, 'writeCoil': 5, 'writeRegister': 6,
      'writeCoils': 15, 'writeRegisters': 16, 'maskWrite': 22, 'readWrite': 23, 'diag': 8, 'readExceptionStatus': 7,
      'getCommEventCounter': 11, 'getCommEventLog': 12, 'reportSlaveId': 17, 'readFileRecord': 20,
      'writeFileRecord': 21, 'readFifo': 24, 'readDeviceInfo': 43}


class Hang(BaseException):
    """the call did not finish within the operation budget (BaseException: no `except Exception` swallows it)"""


# ------------------------------------------------------------------ virtual time
class VClock(object):
    def __init__(self):
        self.t = 1000.0
        self.ops = 0
        self.limit = OP_LIMIT

    def op(self):
        self.ops += 1
        if self.ops > self.limit:
            raise Hang()

    def time(self):
        self.op()
        self.t += TICK
        return self.t

    def sleep(self, d):
        self.op()
        if d and d > 0:
            self.t += d

    def advance(self, d):
        self.op()
        if d and d > 0:
            self.t += d


class FakeTime(object):
    def __init__(self, clock):
        self.time = clock.time
        self.sleep = clock.sleep


class FakeSelect(object):
    def __init__(self, clock):
        self.clock = clock

    def select(self, r, w, x, timeout=None):
        self.clock.op()
        for s in r:
            if s.net.readable():
                return ([s], [], [])
        if timeout is None:
            raise Hang()                      # would block forever
        self.clock.advance(timeout)
        return ([], [], [])


# ------------------------------------------------------------------ the scripted peer
class Net(object):
    def __init__(self, kind, clock):
        self.kind = kind                      # 'tcp' | 'serial' | 'udp'
        self.clock = clock
        self.client = None
        self.inbuf = bytearray()
        self.dgrams = []
        self.late = []
        self.mode = 'ok'
        self.script = []
        self.opens = 0
        self.own_tid = None                   # MBAP framing: the two id bytes this transaction is supposed to put on the wire
        self.reset_log()

    def reset_log(self):
        self.writes = []                      # frames handed to the transport (successful sends)
        self.tx = 0                           # transmissions attempted (reactions consumed)
        self.rx = []                          # bytes returned by reads that were not a flush
        self.flushed = []                     # bytes discarded by a flush / drain before a send
        self.nreads = 0

    # connection life cycle
    def on_open(self):
        self.opens += 1
        self.on_close()

    def on_close(self):
        self.inbuf = bytearray()
        self.dgrams = []
        self.late = []
        self.mode = 'ok'

    def sending(self):
        return self.client is not None and self.client.state == ModbusTransactionState.SENDING

    def begin_tx(self):
        if self.late:
            if self.kind == 'udp':
                self.dgrams.extend(bytes(c) for c in self.late)
            else:
                for c in self.late:
                    self.inbuf.extend(c)
            self.late = []

    def write(self, data):
        self.clock.op()
        self.begin_tx()
        r = self.script.pop(0) if self.script else SILENT
        self.tx += 1
        if not r['send']:
            raise BrokenPipeError(32, 'scripted send failure')
        self.writes.append(list(data))
        now, late = r['now'], r['late']
        if self.own_tid is not None and bytes(data[:2]) != self.own_tid:
            # a peer echoes the transaction id it RECEIVED: the frames scripted as answers to this transaction (they carry the id
            # the transaction should have sent) go out with the id that was really on the wire.  Never taken on the unchanged code.
            def echo(c):
                return list(data[:2]) + list(c[2:]) if bytes(c[:2]) == self.own_tid else c
            now, late = [echo(c) for c in now], [echo(c) for c in late]
        if self.kind == 'udp':
            self.dgrams.extend(bytes(c) for c in now)
        else:
            for c in now:
                self.inbuf.extend(c)
        self.late = [list(c) for c in late]
        self.mode = r['recv']
        return len(data)

    def readable(self):
        return bool(self.inbuf) or self.mode in ('oserror', 'closed')

    def avail(self):
        self.clock.op()
        if self.sending():
            self.begin_tx()
        return len(self.inbuf)

    def stream_read(self, n, blocking):
        """n > 0.  blocking (serial): waits out the timeout when fewer than n bytes are there;
        non-blocking (TCP socket after select / drain): BlockingIOError when nothing is there"""
        self.clock.op()
        flush = self.sending()
        if flush:
            self.begin_tx()
        if self.mode == 'oserror':
            if self.kind == 'serial':
                raise real_serial.SerialException('scripted read failure')
            raise ConnectionResetError(104, 'scripted read failure')
        data = bytes(self.inbuf[:n])
        del self.inbuf[:n]
        if not flush:
            self.nreads += 1
        if not data and not blocking and self.mode != 'closed':
            raise BlockingIOError(11, 'would block')
        if blocking and len(data) < n:
            self.clock.advance(TIMEOUT)
        (self.flushed if flush else self.rx).extend(data)
        return data

    def dgram_read(self, n):
        self.clock.op()
        self.nreads += 1
        if n < 0:
            raise ValueError('negative buffersize in recvfrom')
        if self.mode in ('oserror', 'closed'):
            raise ConnectionRefusedError(111, 'scripted read failure')
        if not self.dgrams:
            self.clock.advance(TIMEOUT)
            raise real_socket.timeout('timed out')
        d = self.dgrams.pop(0)[:n]
        self.rx.extend(d)
        return d


class FakeTcpSocket(object):
    def __init__(self, net):
        self.net = net
        net.on_open()

    def setblocking(self, flag):
        pass

    def settimeout(self, t):
        pass

    def fileno(self):
        return 99

    def close(self):
        self.net.on_close()

    def send(self, data):
        return self.net.write(bytes(data))

    def recv(self, n):
        if n < 0:
            raise ValueError('negative buffersize in recv')      # what a real socket does
        if n == 0:
            return b''
        return self.net.stream_read(n, False)


class FakeUdpSocket(object):
    def __init__(self, net):
        self.net = net
        net.on_open()
        self.timeout = None

    def settimeout(self, t):
        self.timeout = t

    def setblocking(self, flag):
        self.timeout = None if flag else 0

    def fileno(self):
        return 98

    def close(self):
        self.net.on_close()

    def sendto(self, data, addr):
        return self.net.write(bytes(data))

    def recvfrom(self, n):
        if n < 0:
            raise ValueError('negative buffersize in recvfrom')
        if self.timeout is None:
            raise Hang()
        return (self.net.dgram_read(n), ('127.0.0.1', 502))


class FakeSerial(object):
    def __init__(self, net):
        self.net = net
        self.is_open = True
        net.on_open()

    @property
    def in_waiting(self):
        return self.net.avail()

    def read(self, n=1):
        if n is None or n <= 0:
            return b''
        return self.net.stream_read(n, True)

    def write(self, data):
        return self.net.write(bytes(data))

    def close(self):
        self.is_open = False
        self.net.on_close()

    def isOpen(self):
        return self.is_open


class FakeSocketModule(object):
    """`socket` as seen by pymodbus.client.sync: everything real except the two constructors"""

    def __init__(self, net):
        self._net = net

    def __getattr__(self, name):
        return getattr(real_socket, name)

    def create_connection(self, address, timeout=None, source_address=None):
        return FakeTcpSocket(self._net)

    def socket(self, family=None, kind=None, *a):
        return FakeUdpSocket(self._net)


@contextlib.contextmanager
def patched(net, clock):
    saved = (sync_mod.time, sync_mod.select, sync_mod.socket, txn_mod.time, rtu_mod.time, real_serial.Serial)
    ft = FakeTime(clock)
    sync_mod.time, sync_mod.select, sync_mod.socket = ft, FakeSelect(clock), FakeSocketModule(net)
    txn_mod.time, rtu_mod.time = ft, ft
    real_serial.Serial = lambda **kw: FakeSerial(net)
    try:
        yield
    finally:
        (sync_mod.time, sync_mod.select, sync_mod.socket, txn_mod.time, rtu_mod.time, real_serial.Serial) = saved


# ------------------------------------------------------------------ running a case on the real client
def mk_client(cfg):
    kw = dict(retries=cfg['retries'], retry_on_empty=bool(cfg['retry_on_empty']),
              retry_on_invalid=bool(cfg['retry_on_invalid']), broadcast_enable=bool(cfg.get('broadcast', 0)),
              timeout=TIMEOUT)
    if 'backoff' in cfg:
        kw['backoff'] = cfg['backoff']
    if cfg['transport'] == 'tcp':
        return ModbusTcpClient('127.0.0.1', framer=FRAMER_CLS[cfg['framer']], **kw)
    if cfg['transport'] == 'udp':
        return ModbusUdpClient('127.0.0.1', framer=FRAMER_CLS[cfg['framer']], **kw)
    return ModbusSerialClient(method=cfg['framer'], port='/dev/null', **kw)


CSTATE = {0: 'idle', 1: 'sending', 2: 'waiting', 3: 'turnaround', 4: 'processing', 5: 'error', 6: 'complete'}


def classify(out, exc):
    if exc is not None:
        if isinstance(exc, Hang):
            return {'kind': 'hang'}
        return {'kind': 'raised', 'err': errkind(exc)}
    if isinstance(out, ModbusIOException):
        return {'kind': 'error'}
    if isinstance(out, (bytes, bytearray)):
        return {'kind': 'broadcast'} if bytes(out) == BROADCAST_MARK else {'kind': 'other', 'repr': repr(out)[:60]}
    if out is None:
        return {'kind': 'none'}
    try:
        return {'kind': 'reply', 'msg': pdus.resp_to_json(out), 'uid': int(out.unit_id), 'tid': int(out.transaction_id)}
    except Exception as e:  # noqa
        return {'kind': 'other', 'repr': '%s: %r' % (type(e).__name__, out)}


def prebuilt(req):
    """the skip_encode form of a register write: what client.write_register(a, payload[0], skip_encode=True) /
    client.write_registers(a, payload, skip_encode=True) build from BinaryPayloadBuilder.build() (a list of 2-byte strings).
    The frame on the wire is the same, byte for byte."""
    from pymodbus.register_write_message import WriteSingleRegisterRequest, WriteMultipleRegistersRequest
    plain = req.encode()
    if isinstance(req, WriteSingleRegisterRequest):
        new = WriteSingleRegisterRequest(req.address, struct.pack('>H', req.value), skip_encode=True)
    elif isinstance(req, WriteMultipleRegistersRequest) and len(req.values) == req.count and req.byte_count == 2 * req.count:
        new = WriteMultipleRegistersRequest(req.address, [struct.pack('>H', v) for v in req.values], skip_encode=True)
    else:
        return req
    return new if new.encode() == plain else req


def run_real(case):
    """-> list of per-call observations (same shape as the model's answer)"""
    cfg = case['cfg']
    clock = VClock()
    net = Net(cfg['transport'], clock)
    obs = []
    logging.disable(logging.CRITICAL)             # the library logs every failed transaction
    # one case in five runs with DEBUG logging switched on (decided by the case itself, so that a replay does the same)
    debug = (len(case['calls']) + case.get('tid0', 0) + sum(len(c['script']) for c in case['calls'])) % 5 == 0
    with debug_logging(debug), patched(net, clock):
        client = mk_client(cfg)
        net.client = client
        client.transaction.tid = case.get('tid0', 0)
        last_req = None
        for ncall, call in enumerate(case['calls']):
            net.script = [dict(r) for r in call['script']]
            if cfg['framer'] == 'tcp':
                own = (case.get('tid0', 0) + ncall + 1) & 0xFFFF
                net.own_tid = bytes([own >> 8, own & 255])
            net.reset_log()
            clock.ops = 0
            clock.t += 10.0                       # the application does something else between two calls
            t0 = clock.t
            if call.get('reuse') and last_req is not None:
                req = last_req            # the very object of the previous call
            else:
                req = prebuilt(msggen.mk_req(call['req'])) if call.get('prebuilt') else msggen.mk_req(call['req'])
            last_req = req
            req.unit_id = call['unit']
            out, exc = None, None
            try:
                out = client.execute(req)
            except Hang as e:
                exc = e
            except Exception as e:  # noqa
                exc = e
            tm = client.transaction
            obs.append({
                'result': classify(out, exc),
                'tx': net.tx,
                'writes': [list(w) for w in net.writes],
                'rx': list(net.rx),
                'flushed': list(net.flushed),
                'state': {
                    'tid': int(tm.tid), 'cstate': CSTATE.get(client.state, str(client.state)),
                    'noresp': [int(u) for u in tm._no_response_devices],
                    'fbuf': len(client.framer._buffer), 'open': int(client.socket is not None),
                    'pending': len(tm.transactions),
                    'inbuf': [list(d) for d in net.dgrams] if cfg['transport'] == 'udp' else list(net.inbuf),
                    'late': [list(c) for c in net.late], 'mode': net.mode,
                },
                'elapsed': round(clock.t - t0, 6),
                'ops': clock.ops,
            })
            if isinstance(exc, Hang):
                break
    return obs


# ------------------------------------------------------------------ the model
def model_op(case):
    cfg = case['cfg']
    return {'op': 'txn', 'transport': cfg['transport'], 'framer': cfg['framer'], 'retries': cfg['retries'],
            'retry_on_empty': bool(cfg['retry_on_empty']), 'retry_on_invalid': bool(cfg['retry_on_invalid']),
            'broadcast': bool(cfg.get('broadcast', 0)), 'plus': PLUS_WORDS, 'tid0': case.get('tid0', 0),
            'calls': [{'req': c['req'], 'unit': c['unit'], 'script': c['script']} for c in case['calls']]}


def model_view(o):
    """the part of a real observation the model predicts"""
    return {'result': o['result'], 'tx': o['tx'], 'writes': o['writes'], 'rx': o['rx'], 'flushed': o['flushed'],
            'state': o['state']}


# ------------------------------------------------------------------ building blocks for scripts
def reply_frame(framer, resp, unit, tid):
    """the ADU a conformant server sends: real response encoder + real framer"""
    return framelib.real_build(framer, 'resp', resp, unit, tid, 0)


def request_frame(framer, req, unit, tid):
    return framelib.real_build(framer, 'req', req, unit, tid, 0)


class _RawPdu(object):
    """something the real framers can frame: a PDU given as bytes"""

    def __init__(self, fc, data, unit, tid):
        self.function_code, self._data = fc, bytes(data)
        self.unit_id, self.transaction_id, self.protocol_id = unit, tid, 0

    def encode(self):
        return self._data


def raw_frame(framer, fc, data, unit, tid):
    """a well-framed ADU (real framer) around an arbitrary PDU"""
    return list(framelib.FRAMERS[framer](None, None).buildPacket(_RawPdu(fc, data, unit, tid)))


def reaction(now=(), late=(), send=1, recv='ok'):
    return {'send': send, 'now': [list(c) for c in now], 'late': [list(c) for c in late], 'recv': recv}


# ------------------------------------------------------------------ generators
SMALL_DIAG_SUBS = [0, 1, 2, 3, 10, 11, 12, 13, 14, 15, 16, 17, 18, 19, 20]
PREDICTED = ('readCoils', 'readDiscrete', 'readHolding', 'readInput', 'writeCoil', 'writeRegister', 'writeCoils',
             'writeRegisters', 'readWrite', 'diag')


def gen_pair(rng, t=None):
    """a request (small enough for fast virtual reads) and the reply a conformant server sends to it"""
    t = t or rng.choice(msggen.REQ_TYPES)
    u16 = msggen.u16
    if t in ('readCoils', 'readDiscrete'):
        n = rng.choice([1, 7, 8, 9, 16, 17, rng.randrange(1, 200)])
        bits = [int(rng.random() < 0.5) for _ in range(n)] + [0] * ((-n) % 8)
        return {'t': t, 'address': u16(rng), 'count': n}, {'t': t, 'bits': bits}
    if t in ('readHolding', 'readInput'):
        n = rng.choice([1, 2, 3, 10, 125, rng.randrange(1, 60)])
        return {'t': t, 'address': u16(rng), 'count': n}, {'t': t, 'registers': msggen.regs(rng, n)}
    if t == 'writeCoil':
        a, on = u16(rng), rng.random() < 0.5
        return {'t': t, 'address': a, 'word': 0xFF00 if on else 0}, {'t': t, 'address': a, 'value': int(on)}
    if t == 'writeRegister':
        a, v = u16(rng), u16(rng)
        return {'t': t, 'address': a, 'value': v}, {'t': t, 'address': a, 'value': v}
    if t == 'writeCoils':
        n, a = rng.randrange(1, 40), u16(rng)
        return ({'t': t, 'address': a, 'count': n, 'byte_count': (n + 7) // 8,
                 'values': [rng.random() < 0.5 for _ in range(n)]}, {'t': t, 'address': a, 'count': n})
    if t == 'writeRegisters':
        n, a = rng.randrange(1, 20), u16(rng)
        return ({'t': t, 'address': a, 'count': n, 'byte_count': 2 * n, 'values': msggen.regs(rng, n)},
                {'t': t, 'address': a, 'count': n})
    if t == 'maskWrite':
        a, x, y = u16(rng), u16(rng), u16(rng)
        return {'t': t, 'address': a, 'and_mask': x, 'or_mask': y}, {'t': t, 'address': a, 'and_mask': x, 'or_mask': y}
    if t == 'readWrite':
        n, k = rng.randrange(1, 30), rng.randrange(1, 10)
        return ({'t': t, 'read_address': u16(rng), 'read_count': n, 'write_address': u16(rng), 'write_count': k,
                 'write_byte_count': 2 * k, 'write_registers': msggen.regs(rng, k)}, {'t': t, 'registers': msggen.regs(rng, n)})
    if t == 'diag':
        sub, v = rng.choice(SMALL_DIAG_SUBS), u16(rng)
        return ({'t': t, 'sub': sub, 'message': {'k': 'int', 'n': v}},
                {'t': t, 'sub': sub, 'message': {'k': 'list', 'ws': [v]}})
    if t == 'readExceptionStatus':
        return {'t': t}, {'t': t, 'status': msggen.u8(rng)}
    if t == 'getCommEventCounter':
        return {'t': t}, {'t': t, 'status': rng.random() < 0.5, 'count': u16(rng)}
    if t == 'getCommEventLog':
        return {'t': t}, {'t': t, 'status': rng.random() < 0.5, 'event_count': u16(rng), 'message_count': u16(rng),
                          'events': msggen.bytes_(rng, rng.randrange(0, 20))}
    if t == 'reportSlaveId':
        return {'t': t}, {'t': t, 'identifier': msggen.bytes_(rng, rng.randrange(0, 30)), 'status': rng.random() < 0.5}
    if t == 'readFileRecord':
        recs = []
        for _ in range(rng.randrange(1, 4)):
            n = rng.randrange(0, 6)
            data = msggen.bytes_(rng, 2 * n)
            recs.append({'rt': 6, 'fn': 0, 'rn': 0, 'data': data, 'rl': n, 'resp_len': len(data) + 1})
        req = {'t': t, 'records': [{'rt': 6, 'fn': u16(rng), 'rn': u16(rng), 'data': [], 'rl': r['rl'], 'resp_len': 1}
                                   for r in recs]}
        return req, {'t': t, 'records': recs}
    if t == 'writeFileRecord':
        recs = [msggen.file_rec_write(rng, 5) for _ in range(rng.randrange(1, 4))]
        return {'t': t, 'records': recs}, {'t': t, 'records': recs}
    if t == 'readFifo':
        return {'t': t, 'address': u16(rng)}, {'t': t, 'values': msggen.regs(rng, rng.randrange(0, 12))}
    if t == 'readDeviceInfo':
        r = msggen.gen_resp(rng, t)
        r['information'] = [[k, [v[0][:12]]] for k, v in r['information']][:3]
        r['number_of_objects'] = len(r['information'])
        return {'t': t, 'sub': 0x0E, 'read_code': r['read_code'], 'object_id': msggen.u8(rng)}, r
    raise ValueError(t)


def other_resp(rng, t):
    """a well-formed reply of ANOTHER function (a stale reply of an earlier transaction)"""
    while True:
        t2 = rng.choice(['readCoils', 'readHolding', 'readInput', 'writeRegister', 'writeCoil', 'maskWrite',
                         'readExceptionStatus', 'writeRegisters'])
        if t2 != t:
            return gen_pair(rng, t2)[1]


def clean(framer, frame):
    """frames the binary framing cannot carry are left out (known finding binary-framer-escaping of C03)"""
    return isinstance(frame, list) and not (framer == 'binary' and framelib.has_delim(frame))


def garbage(rng, framer):
    hot = {'tcp': [0, 1, 6], 'rtu': [1, 3, 0x83], 'ascii': [58, 13, 10, 48, 49, 70, 32, 43, 45], 'binary': [0x7B, 0x7D]}[framer]
    if framer == 'rtu' and rng.random() < 0.3:
        # the head of a reply whose byte-count field announces a frame at or beyond the largest RTU frame
        head = [rng.choice([1, 5, 17, 247]), rng.choice([1, 2, 3, 4, 20, 21, 23]), rng.choice([0xF8, 0xFA, 0xFB, 0xFC, 0xFD, 0xFE, 0xFF])]
        return head + msggen.bytes_(rng, rng.choice([0, 1, 2, 5, 9, 30]), hot=hot * 3)
    if framer == 'tcp' and rng.random() < 0.2:
        # an MBAP header with an impossible length field, with and without bytes behind it
        ln = rng.choice([0, 1, 2, 0xFFFF, 300])
        return [rng.randrange(256), rng.randrange(256), 0, 0, ln >> 8, ln & 255, rng.choice([1, 5, 17]), 3] + \
            msggen.bytes_(rng, rng.choice([0, 1, 4, 9]), hot=hot * 3)
    return msggen.bytes_(rng, rng.choice([1, 2, 3, 5, 8, 9, 12, 20, 40]), hot=hot * 3)


REACTION_KINDS = ['full', 'exc', 'nothing', 'prefix', 'split', 'garbage', 'wrongunit', 'stale_tid', 'stale_fc',
                  'stale_then_full', 'two', 'late', 'full_late_stale', 'send_err', 'recv_err', 'closed', 'garbage_full',
                  'wrongsize', 'exc_other', 'late_two', 'undecodable', 'full_undecodable']
FAULT_KINDS = [k for k in REACTION_KINDS if k not in ('full', 'exc')]


def mk_reaction(rng, kind, framer, udp, req, resp, unit, tid):
    """-> (reaction, info) ; info names the frames that were used"""
    def fr(r, u=unit, t=tid):
        return reply_frame(framer, r, u, t)
    full = fr(resp)
    exc = fr({'t': 'exception', 'fc': FC[req['t']], 'code': rng.choice([1, 2, 3, 4, 6, 10, 11])})
    ounit = rng.choice([u for u in (1, 2, 5, 9, 17, 200, 247, 0, 0, 255, 255) if u != unit])      # 0 / 255 in a REPLY are foreign units like any other
    stale_tid = fr(resp, unit, (tid - rng.choice([1, 1, 2, 7, 300])) & 0xFFFF)
    stale_fc = fr(other_resp(rng, resp['t']))
    frames = [full, exc, stale_tid, stale_fc]
    if not all(clean(framer, f) for f in frames):
        return None
    k = rng.randrange(1, len(full)) if len(full) > 1 else 1
    if kind == 'full':
        return reaction([full])
    if kind == 'exc':
        return reaction([exc])
    if kind == 'nothing':
        return reaction()
    if kind == 'prefix':
        return reaction([full[:k]])
    if kind == 'split':
        return reaction([full[:k]], late=[full[k:]])
    if kind == 'garbage':
        return reaction([garbage(rng, framer)])
    if kind == 'garbage_full':
        g = garbage(rng, framer)
        return reaction([g, full] if udp else [g + full])
    if kind == 'wrongunit':
        f = fr(resp, ounit)
        return reaction([f]) if clean(framer, f) else None
    if kind == 'stale_tid':
        return reaction([stale_tid])
    if kind == 'stale_fc':
        return reaction([stale_fc])
    if kind == 'stale_then_full':
        return reaction([rng.choice([stale_tid, stale_fc]), full])
    if kind == 'two':
        return reaction([full, rng.choice([full, exc, stale_fc])])
    if kind == 'late':
        return reaction(late=[rng.choice([full, exc])])
    if kind == 'full_late_stale':
        return reaction([full], late=[rng.choice([full, stale_fc, garbage(rng, framer)])])
    if kind == 'wrongsize':
        f = fr(gen_pair(rng, req['t'])[1])            # same function, another quantity than the one asked for
        return reaction([f]) if clean(framer, f) else None
    if kind == 'exc_other':
        f = fr({'t': 'exception', 'fc': rng.choice([c for c in FC.values() if c != FC[req['t']]]), 'code': 2})
        return reaction([f]) if clean(framer, f) else None
    if kind in ('undecodable', 'full_undecodable'):
        # a well-framed ADU whose PDU the client decoder rejects: a register read reply that announces more data than it has
        u = raw_frame(framer, 3, [4, 0, 7], unit, tid)
        if not clean(framer, u):
            return None
        return reaction([u]) if kind == 'undecodable' else reaction([full, u])
    if kind == 'late_two':
        return reaction(rng.choice([[], [full[:k]]]), late=[stale_fc, full])
    if kind == 'send_err':
        return reaction(send=0)
    if kind == 'recv_err':
        return reaction(rng.choice([[], [full], [full[:k]]]), recv='oserror')
    if kind == 'closed':
        return reaction(rng.choice([[], [full[:k]], [full]]), recv='closed')
    raise ValueError(kind)


def gen_cfg(rng, transport=None, framer=None):
    if transport is None:
        transport, framer = rng.choice(CONFIGS)
    cfg = {'transport': transport, 'framer': framer, 'retries': rng.choice([0, 1, 2, 3]),
           'retry_on_empty': int(rng.random() < 0.5), 'retry_on_invalid': int(rng.random() < 0.5),
           'broadcast': int(rng.random() < 0.2)}
    if rng.random() < 0.3:
        cfg['backoff'] = rng.choice([0, 0.05, 1.0])      # only the (virtual) time between attempts depends on it
    return cfg


def gen_unit(rng):
    return rng.choice([1, 1, 5, 17, 247, 0, 255, rng.randrange(1, 248)])


def gen_call(rng, cfg, tid, kinds=None, nreact=None, unit=None, t=None, fixed=None):
    """one call: request, unit, script of reactions (one per possible transmission); `fixed` = (req, resp) to use"""
    for _ in range(50):
        req, resp = fixed if fixed is not None else gen_pair(rng, t)
        arbitrary = False
        if fixed is None and kinds is not None and 'full' not in kinds and rng.random() < 0.3:
            # requests with arbitrary field values (quantities 0 / 0xFFFF, any sub-function): only the size prediction
            # and the request frame depend on them
            req = msggen.gen_req(rng, req['t'])
            arbitrary = True
        u = gen_unit(rng) if unit is None else unit
        n = rng.randrange(0, cfg['retries'] + 2) if nreact is None else nreact
        ks = [rng.choice(kinds or REACTION_KINDS) for _ in range(n)]
        rs = [mk_reaction(rng, k, cfg['framer'], cfg['transport'] == 'udp', req, resp, u, tid) for k in ks]
        if not (all(r is not None for r in rs) and clean(cfg['framer'], request_frame(cfg['framer'], req, u, tid))):
            continue
        # reply classes whose own encoder / decoder disagree (known findings of C01/C02: FIFO count field) are
        # used only with values that the library itself can carry
        if expected_reply({'expect': resp, 'unit': u}, cfg['framer'], tid) is None:
            continue
        call = {'req': req, 'unit': u, 'script': rs, 'kinds': ks, 'resp': resp}
        if arbitrary:
            call['arbitrary'] = True      # `resp` is not the reply to `req` (generator bookkeeping, not part of the case)
        if req['t'] in ('writeRegister', 'writeRegisters') and rng.random() < 0.35:
            # the application hands over an already encoded payload (BinaryPayloadBuilder.build() + skip_encode=True): the same
            # bytes go out, the request object holds bytes where it otherwise holds ints
            call['prebuilt'] = True
        return call
    raise RuntimeError('no clean frame found')


def again_call(rng, cfg, tid, prev, kinds=None, nreact=None):
    """a polling loop: the application executes the SAME request object again (a new transaction: new id on the wire, the reply
    carries that id).  None if no clean frames could be built."""
    if prev.get('arbitrary'):
        return None
    try:
        again = gen_call(rng, cfg, tid, kinds=kinds, nreact=nreact, unit=prev['unit'], fixed=(prev['req'], prev['resp']))
    except RuntimeError:
        return None
    again['reuse'] = True
    if prev.get('prebuilt'):
        again['prebuilt'] = True
    else:
        again.pop('prebuilt', None)
    return again


def gen_case(rng, ncalls=None, cfg=None):
    cfg = cfg or gen_cfg(rng)
    tid0 = rng.choice([0, 0, 1, 65533, 65534, 65535, rng.randrange(65536)])
    n = ncalls or rng.randrange(1, 7)
    calls, tid = [], tid0
    same_unit = gen_unit(rng) if rng.random() < 0.6 else None
    for _ in range(n):
        tid = (tid + 1) & 0xFFFF
        if calls and rng.random() < 0.2:
            # a polling loop: the application executes the SAME request object again (new transaction, new id on the wire)
            again = again_call(rng, cfg, tid, calls[-1])
            if again is not None:
                calls.append(again)
                continue
        calls.append(gen_call(rng, cfg, tid, unit=same_unit))
    return {'cfg': cfg, 'tid0': tid0, 'calls': calls}


def canon_obs(o):
    """a closed socket has no pending input (the UDP client drops the socket object without close())"""
    st = dict(o['state'])
    if not st['open']:
        st['inbuf'], st['late'], st['mode'] = [], [], 'ok'
    return dict(o, state=st)


# ------------------------------------------------------------------ running cases on both sides
def strip_case(c):
    """the replayable part of a case (no generator bookkeeping)"""
    return {'cfg': c['cfg'], 'tid0': c.get('tid0', 0), 'kind': c.get('kind', 'history'),
            'calls': [{k: v for k, v in call.items() if k in ('req', 'unit', 'script', 'expect', 'resp', 'kinds', 'prebuilt', 'reuse')}
                      for call in c['calls']]}


def run_both(ctx, cases):
    """-> [(real observations, model answers per call)]; the model also gives the Spec verdict on the real replies"""
    reals = [[canon_obs(o) for o in run_real(c)] for c in cases]
    ops = []
    for c, r in zip(cases, reals):
        op = model_op(c)
        for i, call in enumerate(op['calls']):
            if i < len(r):
                call['impl'] = r[i]['result']
        ops.append(op)
    ans = ctx.driver.query(ops)
    return [(r, a['calls']) for r, a in zip(reals, ans)]


MODEL_KEYS = ('result', 'tx', 'writes', 'rx', 'flushed', 'state')


def compare(rep, case, real, model, where):
    ok = True
    for i, o in enumerate(real):
        if o['result']['kind'] == 'hang':
            break
        mv = {k: model[i][k] for k in MODEL_KEYS}
        if not rep.compare(dict(case, at_call=i), model_view(o), mv, where):
            ok = False
            break
    return ok


def time_bound(cfg):
    """virtual seconds one call may take: per attempt the RTU send wait, two reads (or _wait_for_data + read), all
    bounded by the timeout, plus the backoff sleeps 0.3 * 2^k"""
    n = 1 + cfg['retries']
    backoff = cfg.get('backoff') or 0.3
    return n * (4 * TIMEOUT + 0.5) + backoff * (2 ** (cfg['retries'] + 1)) + 1.0


def pending_input(obs_state):
    """bytes / datagrams of the previous exchange that are still on their way to the client before a call"""
    return bool(obs_state['inbuf']) or bool(obs_state['late'])


def expected_reply(call, framer, tid):
    """what a correct client returns for a conformant reply: decoded by a fresh client-side receiver"""
    f = reply_frame(framer, call['expect'], call['unit'], tid)
    calls = framelib.real_feed(framer, 'client', [call['unit']], False, [f])
    d = framelib.deliveries(calls)
    return d[0] if len(d) == 1 else None


def infix(needle, hay):
    n = len(needle)
    return n == 0 or any(hay[i:i + n] == needle for i in range(len(hay) - n + 1))


def decoded_from(framer, result, rx):
    """is the returned reply the decoding of a frame contained in the bytes this call received?"""
    enc = framelib.real_build(framer, 'resp', result['msg'], result['uid'], result['tid'], 0)
    up = (lambda bs: list(bytes(bs).upper())) if framer == 'ascii' else list
    if isinstance(enc, list) and infix(up(enc), up(rx)):
        return True
    want = {'msg': result['msg'], 'uid': result['uid'], 'tid': result['tid']}
    for i in range(len(rx)):
        calls = framelib.real_feed(framer, 'client', [0], True, [rx[i:]])
        for e in calls[0]['events']:
            if 'msg' in e and {'msg': e['msg'], 'uid': e['uid'], 'tid': e['tid']} == want:
                return True
    return False
