import Driver.PduJson
import Pymodbus.Model.Codec
import Pymodbus.Spec.PduSpec
open Lean Pymodbus

namespace Driver

/-- `codec`: {"dir": "enc_req"|"enc_resp"|"dec_req"|"dec_resp", "msg": <json> | "bytes": [..]} -/
def opCodec (j : Json) : P Json := do
  match (← fStr j "dir") with
  | "enc_req" =>
    let r ← parseReq (← fld j "msg")
    pure (Json.mkObj [("fc", jNat r.fc), ("out", jPyM jNats (Impl.encReq r)), ("spec", jNats (PduSpec.encReq r)),
      ("norm", jReq (PduSpec.normReq r)), ("post", jReq (Impl.postEncReq r))])
  | "enc_resp" =>
    let r ← parseResp (← fld j "msg")
    pure (Json.mkObj [("fc", jNat r.fc), ("out", jPyM jNats (Impl.encResp r)), ("spec", jNats (PduSpec.encResp r)),
      ("norm", jResp (PduSpec.normResp r)), ("post", jResp (Impl.postEncResp r))])
  | "dec_req" =>
    pure (Json.mkObj [("out", jPyM jReq (Impl.decReq (← fNats j "bytes")))])
  | "dec_resp" =>
    match Impl.decResp (← fNats j "bytes") with
    | some r => pure (Json.mkObj [("out", jResp r)])
    | none => pure (Json.mkObj [("out", Json.null)])
  | "dec_into_resp" =>
    let o ← parseResp (← fld j "obj")
    pure (Json.mkObj [("out", jPyM jResp (Impl.decodeIntoResp o (← fNats j "bytes")))])
  | d => throw s!"bad codec dir {d}"

end Driver
