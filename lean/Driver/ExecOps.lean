import Std.Data.HashMap
import Driver.PduJson
import Driver.StoreOps
import Pymodbus.Model.Exec
import Pymodbus.Spec.RegisterFile
open Lean Pymodbus

namespace Driver

/-- slave context description; a block `{"kind":"broken"}` is a table whose datastore raises on any
    access — represented in the model by an index outside the pool -/
def parseSlaveB (j : Json) : P SlaveCtx := do
  let bj ← fArr j "blocks"
  let mut blocks : List Block := []
  let mut broken : List Nat := []
  let mut k := 0
  for b in bj do
    if (← fStr b "kind") == "broken" then
      broken := k :: broken
      blocks := blocks ++ [Block.seq ⟨0, []⟩]
    else
      blocks := blocks ++ [← parseBlock b]
    k := k + 1
  let fix := fun (i : Nat) => if broken.contains i then 1000 + i else i
  pure ⟨blocks, fix (← fNat j "d"), fix (← fNat j "c"), fix (← fNat j "i"), fix (← fNat j "h"), ← fBool j "zero"⟩

/-- block contents as a hash map, so that the spec's initial memory answers a lookup in O(1)
    (`Block.cell`, which the theorems use, indexes a list: O(n) per cell) -/
def blockMap (b : Block) : Std.HashMap Int Nat :=
  b.dump.foldl (fun acc kv => if acc.contains kv.1 then acc else acc.insert kv.1 kv.2) {}

def memOfMaps (maps : Array (Std.HashMap Int Nat)) : RegisterFile.Mem := fun k i =>
  match maps[k]? with
  | some m => m.get? i
  | none => none

def layoutOfD (s : SlaveCtx) : RegisterFile.Layout := ⟨s.idx, s.zeroMode, fun k => s.blocks[k]?.isNone⟩

/-- `exec`: a request history against one slave context: model responses + dumps, spec responses + cells -/
def opExec (j : Json) : P Json := do
  let s0 ← parseSlaveB (← fld j "ctx")
  let reqs ← (← fArr j "reqs").mapM parseReq
  let specReqs ← match optFld j "spec_reqs" with
    | some sr => (← arr sr).mapM parseReq
    | none => pure reqs
  let win ← (← fArr j "windows").mapM (fun w => do
    let l ← ints w
    pure ((← nth l 0), (← nth l 1)))
  let mut s := s0
  let maps := (s0.blocks.map blockMap).toArray
  let mut m := memOfMaps maps
  let L := layoutOfD s0
  let mut outs : List Json := []
  let mut specOuts : List Json := []
  let mut dumps : List Json := []
  let mut specDumps : List Json := []
  let perStep := (optFld j "dump_each").isSome
  -- `resets`: positions in the history BEFORE which the application calls `ModbusSlaveContext.reset()`
  let resets ← match optFld j "resets" with
    | some rs => ints rs
    | none => pure []
  let mut i : Nat := 0
  for r in reqs do
    if resets.contains (Int.ofNat i) then
      s := s.reset
    let x := Impl.serverExecute s r
    s := x.1
    outs := jResp x.2 :: outs
    if perStep then
      dumps := jSlaveDump s :: dumps
    i := i + 1
  let specResets ← match optFld j "spec_resets" with
    | some rs => ints rs
    | none => pure resets
  let mut k : Nat := 0
  for r in specReqs do
    if specResets.contains (Int.ofNat k) then
      -- spec: `RegisterFile.Mem.reset` (tied to `SlaveCtx.reset` by `C04.reset_refines`)
      m := m.reset L
    let y := RegisterFile.step L m r
    m := y.1
    specOuts := jResp y.2 :: specOuts
    k := k + 1
  let cells := fun (mm : RegisterFile.Mem) =>
    jArr ((List.range s0.blocks.length).zipWith (fun (k : Nat) (w : Int × Int) => jCells (mm k) w.1 w.2) win)
  specDumps := [cells m]
  pure (Json.mkObj [("outs", jArr outs.reverse), ("spec_outs", jArr specOuts.reverse),
    ("dump", jSlaveDump s), ("dumps", jArr dumps.reverse),
    ("spec_cells", cells m)])

end Driver
