import Driver.Json
import Pymodbus.Model.AsyncClient
import Pymodbus.Spec.AsyncClientSpec
import Pymodbus.Model.AsyncNet
open Lean Pymodbus Pymodbus.AsyncClient

namespace Driver

/-- `null` = plain; `{"ok": req?, "err": req?}` -/
partial def parseAReq (j : Json) : P AsyncClient.Req := do
  if j.isNull then return .plain
  let ok ← match optFld j "ok" with
    | some o => if o.isNull then pure none else (some <$> parseAReq o)
    | none => pure none
  let err ← match optFld j "err" with
    | some o => if o.isNull then pure none else (some <$> parseAReq o)
    | none => pure none
  match ok, err with
  | none, none => pure .plain
  | some a, none => pure (.onOk a)
  | none, some b => pure (.onErr b)
  | some a, some b => pure (.both a b)

def parseAOp (j : Json) : P AsyncClient.Op := do
  let l ← arr j
  match (← str (← nth l 0)) with
  | "made" => pure .connectionMade
  | "lost" => pure .connectionLost
  | "close" => pure (.close ((← nat (← nth l 1)) != 0))
  | "execfail" =>
    match (← str (← nth l 1)) with
    | "encode" => pure (.execFail .encode)
    | "write" => pure (.execFail .write)
    | w => throw s!"bad execfail kind {w}"
  | "exec" => pure (.execute (← parseAReq (← nth l 1)))
  | "reply" => pure (.reply (← nat (← nth l 1)) (← nat (← nth l 2)))
  | o => throw s!"bad async op {o}"

def whyName : Why → String
  | .lost => "lost"
  | .notConnected => "notconn"

def jAEv : AsyncClient.Event → Json
  | .sent id t => jArr [Json.str "sent", jNat id, jNat t]
  | .callback id t tag => jArr [Json.str "cb", jNat id, jNat t, jNat tag]
  | .errback id w => jArr [Json.str "eb", jNat id, Json.str (whyName w)]
  | .exc e => jArr [Json.str "exc", Json.str e.name]
  | .tclose => jArr [Json.str "tclose"]
  | .sendFail .encode => jArr [Json.str "sendfail", Json.str "encode"]
  | .sendFail .write => jArr [Json.str "sendfail", Json.str "write"]

def parseAEv (j : Json) : P AsyncClient.Event := do
  let l ← arr j
  match (← str (← nth l 0)) with
  | "sent" => pure (.sent (← nat (← nth l 1)) (← nat (← nth l 2)))
  | "cb" => pure (.callback (← nat (← nth l 1)) (← nat (← nth l 2)) (← nat (← nth l 3)))
  | "eb" =>
    match (← str (← nth l 2)) with
    | "lost" => pure (.errback (← nat (← nth l 1)) .lost)
    | "notconn" => pure (.errback (← nat (← nth l 1)) .notConnected)
    | w => throw s!"bad errback kind {w}"
  | "exc" => pure (.exc .other)
  | "tclose" => pure .tclose
  | "sendfail" =>
    match (← str (← nth l 1)) with
    | "encode" => pure (.sendFail .encode)
    | _ => pure (.sendFail .write)
  | o => throw s!"bad async event {o}"

def jVerdict (x : Spec.Verdict) : Json :=
  Json.mkObj [("at_most_once", Json.bool x.atMostOnce), ("sent_once", Json.bool x.sentOnce),
    ("tid_match", Json.bool x.tidMatch), ("fifo_order", Json.bool x.fifoOrder),
    ("arrived", Json.bool x.arrived), ("unsolicited", Json.bool x.unsolicited),
    ("fails_when_down", Json.bool x.failsWhenDown), ("no_exc", Json.bool x.noExc),
    ("distinct", Json.bool x.distinct), ("delivered", Json.bool x.delivered),
    ("lost_fails", Json.bool x.lostFails), ("room", Json.bool x.room)]

/-- `async`: run an operation history on the model of the Twisted client protocol.
    in:  variant "dict"|"fifo", ops, optional "spec": true (evaluate Spec/AsyncClientSpec on the model's
         history), optional "impl_segs": the events the REAL client produced per operation (the Spec is
         evaluated on them)
    out: segs (events per operation), pending ([key, deferred id] in table order), tid, connected, next_id,
         [spec_model], [spec_impl] -/
def opAsync (j : Json) : P Json := do
  let v ← match (← fStr j "variant") with
    | "dict" => pure Variant.dict
    | "fifo" => pure Variant.fifo
    | o => throw s!"bad variant {o}"
  let ops ← (← fArr j "ops").mapM parseAOp
  let mut s := AsyncClient.init
  let mut segs : Array (List AsyncClient.Event) := #[]
  for op in ops do
    let p := AsyncClient.step v s op
    s := p.1
    segs := segs.push p.2
  let mut out : List (String × Json) := [
    ("segs", Json.arr (segs.map (fun es => jArr (es.map jAEv)))),
    ("pending", jArr (s.pending.map (fun p => jArr [jNat p.1, jNat p.2.id]))),
    ("tid", jNat s.tid), ("connected", Json.bool s.connected), ("next_id", jNat s.nextId)]
  let wantSpec := match optFld j "spec" with
    | some (Json.bool true) => true
    | _ => false
  if wantSpec then
    out := out ++ [("spec_model", jVerdict (Spec.verdict v (ops.zip segs.toList)))]
  match optFld j "impl_segs" with
  | some js =>
    let isegs ← (← arr js).mapM (fun seg => do (← arr seg).mapM parseAEv)
    if isegs.length != ops.length then throw "impl_segs: one event list per op expected"
    out := out ++ [("spec_impl", jVerdict (Spec.verdict v (ops.zip isegs)))]
  | none => pure ()
  pure (Json.mkObj out)

def parseCOp (j : Json) : P AsyncClient.COp := do
  let l ← arr j
  match (← str (← nth l 0)) with
  | "data" => pure (.data (← nats (← nth l 1)))
  | _ => pure (.proto (← parseAOp j))

def parseNOp (j : Json) : P AsyncClient.NOp := do
  let l ← arr j
  match (← str (← nth l 0)) with
  | "open" => pure .open
  | "on" => pure (.on (← nat (← nth l 1)) (← parseCOp (← nth l 2)))
  | o => throw s!"bad asyncnet op {o}"

/-- `asyncnet`: a history over several protocol objects (`["open"]`, `["on", i, op]`, `op` = an `async` op or
    `["data", bytes]` = a chunk arriving on connection i).
    out: segs (events per operation), conns (per connection: pending, tid, connected, next_id, buffered) -/
def opAsyncNet (j : Json) : P Json := do
  let v ← match (← fStr j "variant") with
    | "dict" => pure Variant.dict
    | "fifo" => pure Variant.fifo
    | o => throw s!"bad variant {o}"
  let ops ← (← fArr j "ops").mapM parseNOp
  let mut n : AsyncClient.Net := []
  let mut segs : Array (List AsyncClient.Event) := #[]
  for op in ops do
    let p := AsyncClient.nstep v n op
    n := p.1
    segs := segs.push (p.2.map (·.2))
  pure (Json.mkObj [
    ("segs", Json.arr (segs.map (fun es => jArr (es.map jAEv)))),
    ("conns", jArr (n.map (fun c => Json.mkObj [
      ("pending", jArr (c.proto.pending.map (fun p => jArr [jNat p.1, jNat p.2.id]))),
      ("tid", jNat c.proto.tid), ("connected", Json.bool c.proto.connected), ("next_id", jNat c.proto.nextId),
      ("buffered", jNat c.buf.length)])))])

end Driver
