import Driver.PduJson
import Pymodbus.Model.Diag
open Lean Pymodbus

namespace Driver

/-- `predict`: reply-size prediction of a request object; `diagreply`: shape of a diagnostic reply -/
def opPredict (j : Json) : P Json := do
  let r ← parseReq (← fld j "req")
  match Impl.respPduSize (← fNat j "plus") r with
  | some n => pure (Json.mkObj [("size", jNat n)])
  | none => pure (Json.mkObj [("size", Json.null)])

def opDiagReply (j : Json) : P Json := do
  match Impl.diagReply (← fNat j "sub") (← fNat j "m") (← fNat j "counter") (← fNats j "diagreg") (← fNats j "plus") with
  | some (msg, sr) => pure (Json.mkObj [("message", jDiagMsg msg), ("should_respond", Json.bool sr)])
  | none => pure (Json.mkObj [("message", Json.null)])

end Driver
