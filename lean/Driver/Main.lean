import Driver.StoreOps
import Driver.ExecOps
import Driver.CodecOps
import Driver.ChecksumOps
import Driver.DiagOps
import Driver.ServerOps
import Driver.FramerOps
import Driver.PayloadOps
import Driver.DevIdOps
import Driver.AsyncOps
import Driver.SchedOps
import Driver.TxnOps
import Driver.EventOps
open Lean Driver

def dispatch (j : Json) : P Json := do
  match (← fStr j "op") with
  | "store" => opStore j
  | "slave" => opSlave j
  | "sctx" => opServerCtx j
  | "exec" => opExec j
  | "codec" => opCodec j
  | "predict" => opPredict j
  | "diagreply" => opDiagReply j
  | "devid" => opDevId j
  | "devid_enc" => opDevIdEnc j
  | "payload" => opPayload j
  | "pdecode" => opPDecode j
  | "feed" => opFeed j
  | "build" => opBuild j
  | "server" => opServer j
  | "crc" => opCrc j
  | "lrc" => opLrc j
  | "crctable" => opCrcTable j
  | "async" => opAsync j
  | "asyncnet" => opAsyncNet j
  | "sched" => opSched j
  | "txn" => opTxn j
  | "pyint16" => opPyInt j
  | "event" => opEvent j
  | "eventlog" => opEventLog j
  | o => throw s!"bad-op {o}"

def handle (line : String) : String :=
  match Json.parse line with
  | .error e => (Json.mkObj [("driver_error", Json.str e)]).compress
  | .ok j => match dispatch j with
    | .ok r => r.compress
    | .error e => (Json.mkObj [("driver_error", Json.str e)]).compress

partial def loop (h : IO.FS.Stream) (out : IO.FS.Stream) : IO Unit := do
  let line ← h.getLine
  if line.isEmpty then return ()
  out.putStrLn (handle line)
  loop h out

def main : IO Unit := do
  loop (← IO.getStdin) (← IO.getStdout)
