import Driver.PduJson
import Pymodbus.Model.Framer
import Pymodbus.Model.Codec
import Pymodbus.Spec.AduSpec
import Pymodbus.Spec.PduSpec
open Lean Pymodbus Pymodbus.Framer

namespace Driver

def decServer (pdu : Bytes) : PyM (Option Req) :=
  match Impl.decReq pdu with
  | .ok r => .ok (some r)
  | .error e => .error e

def decClient (pdu : Bytes) : PyM (Option Resp) := .ok (Impl.decResp pdu)

def jEv {μ} (f : μ → Json) : Ev μ → Json
  | .deliver m uid tid pid => Json.mkObj [("msg", f m), ("uid", jNat uid), ("tid", jNat tid), ("pid", jNat pid)]
  | .raised e => Json.mkObj [("raised", Json.str e.name)]

def stepOf (framer : String) (server : Bool) : P (Bytes → Step) :=
  match framer with
  | "tcp" => pure tcpStep
  | "rtu" => pure (rtuStep (if server then rtuRuleServer else rtuRuleClient))
  | "ascii" => pure asciiStep
  | "binary" => pure binaryStep
  | f => throw s!"bad framer {f}"

def feedAll {μ} (framer : String) (server : Bool) (decode : Bytes → PyM (Option μ)) (f : μ → Json)
    (units : List Nat) (single : Bool) (chunks : List Bytes) : P Json := do
  let mut buf : Bytes := []
  let mut outs : List Json := []
  if framer == "tls" then
    for c in chunks do
      let (evs, b) := tlsFeed decode units single buf c
      buf := b
      outs := Json.mkObj [("events", jArr (evs.map (jEv f))), ("buffered", jNat b.length)] :: outs
  else
    let step ← stepOf framer server
    for c in chunks do
      let (evs, b) := feed step decode units single buf c
      buf := b
      outs := Json.mkObj [("events", jArr (evs.map (jEv f))), ("buffered", jNat b.length)] :: outs
  pure (jArr outs.reverse)

/-- `feed`: a framer receiving a chunk sequence -/
def opFeed (j : Json) : P Json := do
  let framer ← fStr j "framer"
  let server := (← fStr j "dir") == "server"
  let units ← fNats j "units"
  let single ← fBool j "single"
  let chunks ← (← fArr j "chunks").mapM nats
  let r ← if server then feedAll framer true decServer jReq units single chunks
          else feedAll framer false decClient jResp units single chunks
  pure (Json.mkObj [("calls", r)])

def buildWith (framer : String) (uid tid pid fc : Nat) (data : Bytes) : P (PyM Bytes) :=
  match framer with
  | "tcp" => pure (tcpBuild tid pid uid fc data)
  | "rtu" => pure (rtuBuild uid fc data)
  | "ascii" => pure (asciiBuild uid fc data)
  | "binary" => pure (binaryBuild uid fc data)
  | "tls" => pure (tlsBuild fc data)
  | f => throw s!"bad framer {f}"

def specAdu (framer : String) (uid tid pid : Nat) (pdu : Bytes) : P Bytes :=
  match framer with
  | "tcp" => pure (AduSpec.mbap tid pid uid pdu)
  | "rtu" => pure (AduSpec.rtu uid pdu)
  | "ascii" => pure (AduSpec.ascii uid pdu)
  | "binary" => pure (AduSpec.binary uid pdu)
  | "tls" => pure (AduSpec.tls pdu)
  | f => throw s!"bad framer {f}"

/-- `build`: `framer.buildPacket(message)`: model bytes and the spec ADU of the spec PDU -/
def opBuild (j : Json) : P Json := do
  let framer ← fStr j "framer"
  let uid ← fNat j "uid"
  let tid ← fNat j "tid"
  let pid ← fNat j "pid"
  let isReq := (← fStr j "dir") == "req"
  let (fc, enc, specPdu) ← if isReq then do
      let r ← parseReq (← fld j "msg")
      pure (r.fc, Impl.encReq r, PduSpec.encReq r)
    else do
      let r ← parseResp (← fld j "msg")
      pure (r.fc, Impl.encResp r, PduSpec.encResp r)
  let model ← match enc with
    | .ok data => buildWith framer uid tid pid fc data
    | .error e => pure (.error e)
  let spec ← specAdu framer uid tid pid (fc :: specPdu)
  pure (Json.mkObj [("out", jPyM jNats model), ("spec", jNats spec)])

end Driver
