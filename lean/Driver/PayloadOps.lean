import Driver.Json
import Pymodbus.Model.Payload
import Pymodbus.Spec.PayloadSpec
open Lean Pymodbus Pymodbus.Payload

namespace Driver

def parseEndian (s : String) : P Endian :=
  if s == ">" then pure .big else if s == "<" then pure .little else throw s!"bad endian {s}"

def parseNumTy (s : String) : P NumTy :=
  match NumTy.all.find? (fun t => t.name == s) with
  | some t => pure t
  | none => throw s!"bad numeric type {s}"

def jBits01 (l : List Bool) : Json := jArr (l.map (fun b => jNat (if b then 1 else 0)))

def bits01 (j : Json) : P (List Bool) := do
  (← nats j).mapM (fun n => if n == 0 then pure false else if n == 1 then pure true else throw "bad bit")

/-- `["u8", n]`, `["bits", [0,1,…]]`, `["str", [bytes…]]` -/
def parseValue (j : Json) : P Value := do
  let l ← arr j
  let tag ← str (← nth l 0)
  if tag == "bits" then pure (.bits (← bits01 (← nth l 1)))
  else if tag == "str" then pure (.str (← nats (← nth l 1)))
  else pure (.num (← parseNumTy tag) (← nat (← nth l 1)))

def jValue : Value → Json
  | .num t n => jArr [Json.str t.name, jNat n]
  | .bits l => jArr [Json.str "bits", jBits01 l]
  | .str s => jArr [Json.str "str", jNats s]

/-- `["u8"]`, `["bits", k]`, `["str", size]` -/
def parseTy (j : Json) : P Ty := do
  let l ← arr j
  let tag ← str (← nth l 0)
  if tag == "bits" then pure (.bits (← nat (← nth l 1)))
  else if tag == "str" then pure (.str (← nat (← nth l 1)))
  else pure (.num (← parseNumTy tag))

/-- the decode calls one by one; the outputs up to and including the first exception -/
def decodeSteps (d : Decoder) (tys : List Ty) : List Json := Id.run do
  let mut d := d
  let mut outs : List Json := []
  for ty in tys do
    match d.decodeOne ty with
    | .ok (v, d') => outs := jValue v :: outs; d := d'
    | .error e => outs := jErr e :: outs; break
  return outs.reverse

def jSteps (r : PyM Decoder) (tys : List Ty) : Json :=
  match r with
  | .ok d => jArr (decodeSteps d tys)
  | .error e => jArr [jErr e]

/-- `payload`: orders + typed values -> model bytes / registers / coils, model decode results over
    the three transports, and the spec's byte and register image -/
def opPayload (j : Json) : P Json := do
  let bo ← parseEndian (← fStr j "bo")
  let wo ← parseEndian (← fStr j "wo")
  let repack := match optFld j "repack" with
    | some (Json.bool b) => b
    | _ => false
  let vs ← (← fArr j "values").mapM parseValue
  let tys := vs.map Value.ty
  let built := buildAll bo wo vs
  let wf := decide (∀ v ∈ vs, v.WF)
  let aligned := decide (∀ v ∈ vs, v.BitsAligned)
  let common := [("wf", Json.bool wf), ("aligned", Json.bool aligned),
    ("spec_bytes", jNats (PayloadSpec.bytesImage bo wo vs)),
    ("spec_regs", jNats (PayloadSpec.registersImage bo wo vs)),
    ("expect", jArr ((vs.map PayloadSpec.canon).map jValue))]
  match built with
  | .error e => pure (Json.mkObj ([("bytes", jErr e)] ++ common))
  | .ok parts =>
    let bytes := Payload.toString parts
    let regs := toRegisters bo repack parts
    let coils := toCoils bo repack parts
    let decBytes := jArr (decodeSteps (Decoder.new bytes bo wo) tys)
    let decRegs := match regs with
      | .ok rs => jSteps (Decoder.fromRegisters rs bo wo) tys
      | .error e => jArr [jErr e]
    let decCoils := match coils with
      | .ok cs => jArr (decodeSteps (Decoder.fromCoils cs bo wo) tys)
      | .error e => jArr [jErr e]
    pure (Json.mkObj ([("bytes", jNats bytes), ("regs", jPyM jNats regs), ("coils", jPyM jBits01 coils),
      ("dec_bytes", decBytes), ("dec_regs", decRegs), ("dec_coils", decCoils)] ++ common))

/-- `pdecode`: a decoder over raw bytes / registers / coils and any list of decode calls -/
def opPDecode (j : Json) : P Json := do
  let bo ← parseEndian (← fStr j "bo")
  let wo ← parseEndian (← fStr j "wo")
  let tys ← (← fArr j "types").mapM parseTy
  let d : PyM Decoder ← match optFld j "payload", optFld j "registers", optFld j "coils" with
    | some p, _, _ => pure (.ok (Decoder.new (← nats p) bo wo))
    | _, some r, _ => pure (Decoder.fromRegisters (← nats r) bo wo)
    | _, _, some c => pure (.ok (Decoder.fromCoils (← bits01 c) bo wo))
    | _, _, _ => throw "pdecode: no payload/registers/coils"
  let pl := match d with
    | .ok d => jNats d.payload
    | .error e => jErr e
  pure (Json.mkObj [("payload", pl), ("out", jSteps d tys)])

end Driver
