import Driver.Json
import Pymodbus.Model.Codec
open Lean Pymodbus

namespace Driver

def parseDiagMsg (j : Json) : P DiagMsg := do
  match (← fStr j "k") with
  | "none" => pure .none
  | "int" => pure (.int (← fNat j "n"))
  | "list" => pure (.list (← fNats j "ws"))
  | "tuple" => pure (.tuple (← fNats j "ws"))
  | "bytes" => pure (.bytes (← fNats j "bs"))
  | k => throw s!"bad diag msg {k}"

def jDiagMsg : DiagMsg → Json
  | .none => Json.mkObj [("k", "none")]
  | .int n => Json.mkObj [("k", "int"), ("n", jNat n)]
  | .list ws => Json.mkObj [("k", "list"), ("ws", jNats ws)]
  | .tuple ws => Json.mkObj [("k", "tuple"), ("ws", jNats ws)]
  | .bytes bs => Json.mkObj [("k", "bytes"), ("bs", jNats bs)]

def parseFileRec (j : Json) : P FileRec := do
  pure { referenceType := ← fNat j "rt", fileNumber := ← fNat j "fn", recordNumber := ← fNat j "rn",
         recordData := ← fNats j "data", recordLength := ← fNat j "rl", responseLength := ← fNat j "resp_len" }

def jFileRec (r : FileRec) : Json :=
  Json.mkObj [("rt", jNat r.referenceType), ("fn", jNat r.fileNumber), ("rn", jNat r.recordNumber),
    ("data", jNats r.recordData), ("rl", jNat r.recordLength), ("resp_len", jNat r.responseLength)]

def bools (j : Json) : P (List Bool) := do (← arr j).mapM bool
def jBools (l : List Bool) : Json := jArr (l.map Json.bool)

def parseReq (j : Json) : P Req := do
  match (← fStr j "t") with
  | "readCoils" => pure (.readCoils (← fNat j "address") (← fNat j "count"))
  | "readDiscrete" => pure (.readDiscrete (← fNat j "address") (← fNat j "count"))
  | "readHolding" => pure (.readHolding (← fNat j "address") (← fNat j "count"))
  | "readInput" => pure (.readInput (← fNat j "address") (← fNat j "count"))
  | "writeCoil" => pure (.writeCoil (← fNat j "address") (← fNat j "word"))
  | "writeRegister" => pure (.writeRegister (← fNat j "address") (← fNat j "value"))
  | "writeCoils" =>
    pure (.writeCoils (← fNat j "address") (← fNat j "count") (← fNat j "byte_count") (← bools (← fld j "values")))
  | "writeRegisters" =>
    pure (.writeRegisters (← fNat j "address") (← fNat j "count") (← fNat j "byte_count") (← fNats j "values"))
  | "maskWrite" => pure (.maskWrite (← fNat j "address") (← fNat j "and_mask") (← fNat j "or_mask"))
  | "readWrite" =>
    pure (.readWrite (← fNat j "read_address") (← fNat j "read_count") (← fNat j "write_address")
      (← fNat j "write_count") (← fNat j "write_byte_count") (← fNats j "write_registers"))
  | "diag" => pure (.diag (← fNat j "sub") (← parseDiagMsg (← fld j "message")))
  | "readExceptionStatus" => pure .readExceptionStatus
  | "getCommEventCounter" => pure .getCommEventCounter
  | "getCommEventLog" => pure .getCommEventLog
  | "reportSlaveId" => pure .reportSlaveId
  | "readFileRecord" => pure (.readFileRecord (← (← fArr j "records").mapM parseFileRec))
  | "writeFileRecord" => pure (.writeFileRecord (← (← fArr j "records").mapM parseFileRec))
  | "readFifo" => pure (.readFifo (← fNat j "address"))
  | "readDeviceInfo" => pure (.readDeviceInfo (← fNat j "sub") (← fNat j "read_code") (← fNat j "object_id"))
  | "illegalFunction" => pure (.illegalFunction (← fNat j "fc"))
  | t => throw s!"bad req type {t}"

def jReq : Req → Json
  | .readCoils a n => Json.mkObj [("t", "readCoils"), ("address", jNat a), ("count", jNat n)]
  | .readDiscrete a n => Json.mkObj [("t", "readDiscrete"), ("address", jNat a), ("count", jNat n)]
  | .readHolding a n => Json.mkObj [("t", "readHolding"), ("address", jNat a), ("count", jNat n)]
  | .readInput a n => Json.mkObj [("t", "readInput"), ("address", jNat a), ("count", jNat n)]
  | .writeCoil a w => Json.mkObj [("t", "writeCoil"), ("address", jNat a), ("word", jNat w)]
  | .writeRegister a v => Json.mkObj [("t", "writeRegister"), ("address", jNat a), ("value", jNat v)]
  | .writeCoils a c bc vs => Json.mkObj [("t", "writeCoils"), ("address", jNat a), ("count", jNat c),
      ("byte_count", jNat bc), ("values", jBools vs)]
  | .writeRegisters a c bc vs => Json.mkObj [("t", "writeRegisters"), ("address", jNat a), ("count", jNat c),
      ("byte_count", jNat bc), ("values", jNats vs)]
  | .maskWrite a am om => Json.mkObj [("t", "maskWrite"), ("address", jNat a), ("and_mask", jNat am), ("or_mask", jNat om)]
  | .readWrite ra rn wa wn wbc ws => Json.mkObj [("t", "readWrite"), ("read_address", jNat ra), ("read_count", jNat rn),
      ("write_address", jNat wa), ("write_count", jNat wn), ("write_byte_count", jNat wbc), ("write_registers", jNats ws)]
  | .diag sub m => Json.mkObj [("t", "diag"), ("sub", jNat sub), ("message", jDiagMsg m),
      ("cls", Json.str (Impl.diagReqClass sub))]
  | .readExceptionStatus => Json.mkObj [("t", "readExceptionStatus")]
  | .getCommEventCounter => Json.mkObj [("t", "getCommEventCounter")]
  | .getCommEventLog => Json.mkObj [("t", "getCommEventLog")]
  | .reportSlaveId => Json.mkObj [("t", "reportSlaveId")]
  | .readFileRecord rs => Json.mkObj [("t", "readFileRecord"), ("records", jArr (rs.map jFileRec))]
  | .writeFileRecord rs => Json.mkObj [("t", "writeFileRecord"), ("records", jArr (rs.map jFileRec))]
  | .readFifo a => Json.mkObj [("t", "readFifo"), ("address", jNat a)]
  | .readDeviceInfo sub rc oid => Json.mkObj [("t", "readDeviceInfo"), ("sub", jNat sub), ("read_code", jNat rc), ("object_id", jNat oid)]
  | .illegalFunction fc => Json.mkObj [("t", "illegalFunction"), ("fc", jNat fc)]

def jInfo (l : List (Nat × List Bytes)) : Json :=
  jArr (l.map (fun kv => jArr [jNat kv.1, jArr (kv.2.map jNats)]))

def parseInfo (j : Json) : P (List (Nat × List Bytes)) := do
  (← arr j).mapM (fun kv => do
    let l ← arr kv
    pure ((← nat (← nth l 0)), (← (← arr (← nth l 1)).mapM nats)))

def jResp : Resp → Json
  | .readCoils bs => Json.mkObj [("t", "readCoils"), ("bits", jNats bs)]
  | .readDiscrete bs => Json.mkObj [("t", "readDiscrete"), ("bits", jNats bs)]
  | .readHolding rs => Json.mkObj [("t", "readHolding"), ("registers", jNats rs)]
  | .readInput rs => Json.mkObj [("t", "readInput"), ("registers", jNats rs)]
  | .writeCoil a v => Json.mkObj [("t", "writeCoil"), ("address", jNat a), ("value", jNat v)]
  | .writeRegister a v => Json.mkObj [("t", "writeRegister"), ("address", jNat a), ("value", jNat v)]
  | .writeCoils a c => Json.mkObj [("t", "writeCoils"), ("address", jNat a), ("count", jNat c)]
  | .writeRegisters a c => Json.mkObj [("t", "writeRegisters"), ("address", jNat a), ("count", jNat c)]
  | .maskWrite a am om => Json.mkObj [("t", "maskWrite"), ("address", jNat a), ("and_mask", jNat am), ("or_mask", jNat om)]
  | .readWrite rs => Json.mkObj [("t", "readWrite"), ("registers", jNats rs)]
  | .diag sub m => Json.mkObj [("t", "diag"), ("sub", jNat sub), ("message", jDiagMsg m),
      ("cls", Json.str (Impl.diagRespClass sub))]
  | .readExceptionStatus st => Json.mkObj [("t", "readExceptionStatus"), ("status", jNat st)]
  | .getCommEventCounter st c => Json.mkObj [("t", "getCommEventCounter"), ("status", Json.bool st), ("count", jNat c)]
  | .getCommEventLog st ec mc evs => Json.mkObj [("t", "getCommEventLog"), ("status", Json.bool st),
      ("event_count", jNat ec), ("message_count", jNat mc), ("events", jNats evs)]
  | .reportSlaveId ident st => Json.mkObj [("t", "reportSlaveId"), ("identifier", jNats ident), ("status", Json.bool st)]
  | .readFileRecord rs => Json.mkObj [("t", "readFileRecord"), ("records", jArr (rs.map jFileRec))]
  | .writeFileRecord rs => Json.mkObj [("t", "writeFileRecord"), ("records", jArr (rs.map jFileRec))]
  | .readFifo vs => Json.mkObj [("t", "readFifo"), ("values", jNats vs)]
  | .readDeviceInfo rc conf mf nxt num info => Json.mkObj [("t", "readDeviceInfo"), ("read_code", jNat rc),
      ("conformity", jNat conf), ("more_follows", jNat mf), ("next_object_id", jNat nxt),
      ("number_of_objects", jNat num), ("information", jInfo info)]
  | .exception fc code => Json.mkObj [("t", "exception"), ("fc", jNat fc), ("code", jNat code)]

def parseResp (j : Json) : P Resp := do
  match (← fStr j "t") with
  | "readCoils" => pure (.readCoils (← fNats j "bits"))
  | "readDiscrete" => pure (.readDiscrete (← fNats j "bits"))
  | "readHolding" => pure (.readHolding (← fNats j "registers"))
  | "readInput" => pure (.readInput (← fNats j "registers"))
  | "writeCoil" => pure (.writeCoil (← fNat j "address") (← fNat j "value"))
  | "writeRegister" => pure (.writeRegister (← fNat j "address") (← fNat j "value"))
  | "writeCoils" => pure (.writeCoils (← fNat j "address") (← fNat j "count"))
  | "writeRegisters" => pure (.writeRegisters (← fNat j "address") (← fNat j "count"))
  | "maskWrite" => pure (.maskWrite (← fNat j "address") (← fNat j "and_mask") (← fNat j "or_mask"))
  | "readWrite" => pure (.readWrite (← fNats j "registers"))
  | "diag" => pure (.diag (← fNat j "sub") (← parseDiagMsg (← fld j "message")))
  | "readExceptionStatus" => pure (.readExceptionStatus (← fNat j "status"))
  | "getCommEventCounter" => pure (.getCommEventCounter (← fBool j "status") (← fNat j "count"))
  | "getCommEventLog" => pure (.getCommEventLog (← fBool j "status") (← fNat j "event_count")
      (← fNat j "message_count") (← fNats j "events"))
  | "reportSlaveId" => pure (.reportSlaveId (← fNats j "identifier") (← fBool j "status"))
  | "readFileRecord" => pure (.readFileRecord (← (← fArr j "records").mapM parseFileRec))
  | "writeFileRecord" => pure (.writeFileRecord (← (← fArr j "records").mapM parseFileRec))
  | "readFifo" => pure (.readFifo (← fNats j "values"))
  | "readDeviceInfo" => pure (.readDeviceInfo (← fNat j "read_code") (← fNat j "conformity")
      (← fNat j "more_follows") (← fNat j "next_object_id") (← fNat j "number_of_objects")
      (← parseInfo (← fld j "information")))
  | "exception" => pure (.exception (← fNat j "fc") (← fNat j "code"))
  | t => throw s!"bad resp type {t}"

end Driver
