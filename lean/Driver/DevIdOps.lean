import Driver.Json
import Pymodbus.Model.DevId
import Pymodbus.Spec.DevIdSpec
open Lean Pymodbus

namespace Driver

def jObjs (l : List (Nat × Bytes)) : Json := jArr (l.map (fun kv => jArr [jNat kv.1, jNats kv.2]))

def jClient : Option DevId.ClientResp → Json
  | none => Json.null
  | some (.exception fc code) => Json.mkObj [("t", "exception"), ("fc", jNat fc), ("code", jNat code)]
  | some (.info sub rc conf mf nxt num info) =>
    Json.mkObj [("t", "info"), ("sub", jNat sub), ("read_code", jNat rc), ("conformity", jNat conf),
      ("more_follows", jNat mf), ("next_object_id", jNat nxt), ("number_of_objects", jNat num),
      ("information", jArr (info.map (fun kv => jArr [jNat kv.1, jArr (kv.2.map jNats)])))]

def jPage (p : DevId.Page) : Json :=
  Json.mkObj [("exc", match p.exc with | some c => jNat c | none => Json.null),
    ("more_follows", jNat p.moreFollows), ("next_object_id", jNat p.nextObjectId),
    ("number_of_objects", jNat p.numberOfObjects), ("pdu", jNats p.pdu), ("client", jClient p.client)]

/-- `devid`: identity (ordered (id, bytes) list = the Python dict), read code, start object id and
    step cap → the model's chain (per page: response fields after encode, PDU bytes, what the client
    decoder returns), the identity dict afterwards, and the Spec's verdict and expected objects. -/
def opDevId (j : Json) : P Json := do
  let ident : DevId.Ident ← (← fArr j "ident").mapM (fun kv => do
    let l ← arr kv
    pure ((← nat (← nth l 0)), (← nats (← nth l 1))))
  let rc ← fNat j "rc"
  let oid ← fNat j "oid"
  let cap ← fNat j "cap"
  let f := DevId.val ident
  let spec :=
    if 1 ≤ rc ∧ rc ≤ 3 then
      Json.mkObj [("in_scope", Json.bool (decide (DevIdSpec.StartOK f rc oid) && decide (oid ≤ 255))),
        ("expected", jObjs (DevIdSpec.expected f rc oid))]
    else if rc = 4 then
      Json.mkObj [("in_scope", Json.bool (decide (oid ≤ 255))),
        ("expected", jObjs (DevIdSpec.expectedIndividual f oid))]
    else Json.null
  match DevId.chain cap ident rc oid with
  | .error e => pure (Json.mkObj [("err", Json.str e.name), ("spec", spec)])
  | .ok (d', pages) =>
    let views := pages.map DevIdSpec.viewOf
    let exp := if rc = 4 then DevIdSpec.expectedIndividual f oid else DevIdSpec.expected f rc oid
    pure (Json.mkObj [("pages", jArr (pages.map jPage)), ("ident_after", jObjs d'),
      ("spec", spec),
      ("objects", jObjs (pages.flatMap DevId.Page.objects)),
      ("chain_ok", Json.bool (DevIdSpec.chainOK views exp)),
      ("bounded_ok", Json.bool (DevIdSpec.chainBoundedOK views))])

/-- `devid_enc`: build `ReadDeviceInformationResponse(rc, info)` and call `encode()` `times` times on
    the SAME object (the paging attributes are object state). -/
def opDevIdEnc (j : Json) : P Json := do
  let info : DevId.Info ← (← fArr j "info").mapM (fun kv => do
    let l ← arr kv
    pure ((← nat (← nth l 0)), (← nats (← nth l 1))))
  let rc ← fNat j "rc"
  let times ← fNat j "times"
  let mut r := DevId.Resp.new rc info
  let mut outs : List Json := []
  for _ in List.range times do
    match r.encode with
    | .error e =>
      outs := jErr e :: outs
      break
    | .ok (r', bs) =>
      r := r'
      outs := Json.mkObj [("bytes", jNats bs), ("more_follows", jNat r'.moreFollows),
        ("next_object_id", jNat r'.nextObjectId), ("number_of_objects", jNat r'.numberOfObjects)] :: outs
  pure (jArr outs.reverse)

end Driver
