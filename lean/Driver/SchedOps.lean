import Driver.Json
import Pymodbus.Model.Sched
import Pymodbus.Spec.SchedSpec
open Lean Pymodbus Pymodbus.Sched

namespace Driver

def parseSReq (j : Json) : P Req := do
  let lost ← match optFld j "lost" with
    | some v => nat v
    | Option.none => pure 0
  let bcast ← match optFld j "bcast" with
    | some v => (do let n ← nat v; pure (n != 0))
    | Option.none => pure false
  pure { unit := ← fNat j "unit", addr := ← fNat j "addr", count := ← fNat j "count", lat := ← fNat j "lat", lost := lost,
         bcast := bcast }

def parseLockScope (s : String) : P LockScope :=
  match s with
  | "whole" => pure .whole
  | "connectOutside" => pure .connectOutside
  | "connectLocked" => pure .connectLocked
  | "perUnit" => pure (.perKey (·.unit))
  | "perAddr" => pure (.perKey (·.addr))
  | "outerPerUnit" => pure (.outerPerKey (·.unit))
  | "none" => pure .none
  | "sendOnly" => pure .sendOnly
  | "leakOnFail" => pure .leakOnFail
  | "lockOnlyWhenCold" => pure .lockOnlyWhenCold
  | "broadcastOutside" => pure .broadcastOutside
  | "releaseClientLockInBackoff" => pure .releaseClientLockInBackoff
  | o => throw s!"bad lock scope {o}"

def jSMsg : Msg → Json
  | .regs v => Json.mkObj [("regs", jNats v)]
  | .exc fc code => Json.mkObj [("exc", jNats [fc, code])]

def jSResult : Result → Json
  | .ok tid unit m => Json.mkObj [("tid", jNat tid), ("unit", jNat unit), ("msg", jSMsg m)]
  | .err e => jErr e
  | .raised e => Json.mkObj [("raised", Json.str e.name)]
  | .bcastSent => Json.mkObj [("bcast", jNat 1)]

def jB01 (b : Bool) : Json := jNat (if b then 1 else 0)

def inFlightCount (s : State) (n : Nat) : Nat :=
  ((List.range n).filter (fun t => (s.threads t).inFlight)).length

/-- `sched`: run a schedule on the model.
    in:  scope, connected (the client was connected before the threads started), fail = [k…] / fail_all (which
         `create_connection` calls are refused), threads = [[req…]…],
         sched = [thread id…], macro = true (one entry = one harness step: the operation
         and the plain code up to the next yield point) | false (one entry = one model operation)
    out: the trace, the wire, per-thread results, the Spec verdicts on this run -/
def opSched (j : Json) : P Json := do
  let scope ← parseLockScope (← fStr j "scope")
  let thr ← (← fArr j "threads").mapM (fun tj => do (← arr tj).mapM parseSReq)
  let n := thr.length
  let reqs : Nat → List Req := fun i => thr.getD i []
  let sched ← (← fArr j "sched").mapM nat
  let isMacro ← fBool j "macro"
  let connected ← fBool j "connected"
  -- the scripted world: which `create_connection` calls fail (0-based indices; `fail_all` = every one)
  let fails ← match optFld j "fail" with
    | some f => nats f
    | Option.none => pure []
  let failAll ← match optFld j "fail_all" with
    | some f => bool f
    | Option.none => pure false
  let connOk : Nat → Bool := fun k => !failAll && !(fails.contains k)
  -- the client's retry configuration: {"retries": k, "retry_on_empty": bool} (default: 3, false)
  let cfg : Cfg ← match optFld j "retry" with
    | some c => (do
        let r ← fNat c "retries"
        let e ← fBool c "retry_on_empty"
        pure { retries := r, retryOnEmpty := e, backoff := true })
    | Option.none => pure {}
  let mut s := init reqs connected connOk cfg
  let mut fine : List Nat := []
  let mut maxFlight := 0
  let mut stutter : List Nat := []
  let mut pos := 0
  if isMacro then
    -- every caller has its first request in hand before the scheduler starts
    for t in List.range n do
      let r := macroTail scope 6 s t      -- turn to the first request, plain code up to the first yield point
      s := r.1
      fine := r.2.reverse ++ fine
  for t in sched do
    if !(runnable scope s t) then stutter := pos :: stutter
    if isMacro then
      -- the in-flight count is sampled after every model operation of the macro step
      let r := macroStep scope s t
      let mut s' := s
      for u in r.2 do
        s' := step scope s' u
        maxFlight := max maxFlight (inFlightCount s' n)
      s := s'
      fine := r.2.reverse ++ fine
    else
      s := step scope s t
      fine := t :: fine
      maxFlight := max maxFlight (inFlightCount s n)
    pos := pos + 1
  let ths := (List.range n).map s.threads
  let finished := ths.all (·.done)
  let anyRunnable := (List.range n).any (runnable scope s)
  -- Spec.Answered: own reply, or the connection exception when some connection attempt is refused in this world
  let anyRefused := failAll || !fails.isEmpty
  let served := (List.range n).all (fun t =>
    decide (((s.threads t).results.map (·.1)) = reqs t) &&
    (s.threads t).results.all (fun x =>
      (x.1.bcast && decide (x.2.2 = Result.bcastSent)) ||
      (!x.1.bcast && decide (x.1.lost < cfg.attempts) && decide (Spec.OwnReply x)) ||
      (!x.1.bcast && decide (cfg.attempts ≤ x.1.lost) && decide (x.2.2 = Result.err PyErr.modbusIO)) ||
      (anyRefused && decide (x.2.2 = Result.raised PyErr.modbusExc))))
  pure (Json.mkObj [
    ("trace", jArr (s.trace.reverse.map (fun e => jArr [jNat e.1, Json.str e.2.name]))),
    ("wire", jArr (s.wire.map (fun c => jArr [jNat c.thread, jB01 c.first, jNat c.conn, jNats c.bytes]))),
    ("results", jArr (ths.map (fun th => jArr (th.results.map (fun x => jArr [jNat x.2.1, jSResult x.2.2]))))),
    ("expected", jArr (thr.map (fun rs => jArr (rs.map (fun r => jSMsg (Spec.expected r)))))),
    ("stream", jArr ((List.range s.nextConn).map (fun c => jNats (s.stream c)))),
    ("pending", jArr ((List.range s.nextConn).map (fun c => jNats (s.pending c)))),
    ("sock", match s.sock with | some c => jNat c | Option.none => Json.null),
    ("buf", jNats s.buf), ("tid", jNat s.tid),
    ("no_resp", jNats s.noResp),
    ("fine", jNats fine.reverse), ("stutter", jNats stutter.reverse),
    ("finished", jB01 finished), ("deadlock", jB01 (!finished && !anyRunnable)),
    ("runnable", jNats ((List.range n).filter (runnable scope s))),
    ("work", jNat (totalWork scope (init reqs connected connOk cfg) n)), ("attempts", jNat s.attempts),
    ("spec_max_in_flight", jNat maxFlight), ("spec_exclusive", jB01 (maxFlight ≤ 1)),
    ("spec_contiguous", jB01 (Spec.contiguous s.wire)), ("spec_served", jB01 served)])

end Driver
