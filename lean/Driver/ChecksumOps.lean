import Driver.Json
import Pymodbus.Model.Checksum
import Pymodbus.Spec.ChecksumSpec
open Lean Pymodbus

namespace Driver

/-- `{"op":"crc","data":[ints], "check":int?}` →
    `model` = `Impl.computeCRC data` (the word `computeCRC` returns, bytes exchanged),
    `spec` = `swap16 (Spec.crc16 data)` (same word from the bit-serial definition),
    `spec_reg` = the bit-serial register itself, `spec_wire` = the two CRC bytes in wire order
    (low byte first); with `check`: `model_check` = `Impl.checkCRC data check`,
    `spec_check` = (`check` is the specified word). -/
def opCrc (j : Json) : P Json := do
  let data ← fNats j "data"
  let model := Impl.computeCRC data
  let reg := Spec.crc16 data
  let spec := Spec.swap16 reg
  let base := [("model", jNat model), ("spec", jNat spec), ("spec_reg", jNat reg),
    ("spec_wire", jNats [reg % 256, reg / 256]), ("wf", Json.bool (decide (Bytes.WF data)))]
  match optFld j "check" with
  | some c =>
    let c ← nat c
    pure (Json.mkObj (base ++ [("model_check", Json.bool (Impl.checkCRC data c)),
      ("spec_check", Json.bool (c == spec))]))
  | none => pure (Json.mkObj base)

/-- `{"op":"lrc","data":[ints], "check":int?}` → `model` = `Impl.computeLRC data`,
    `spec` = `Spec.lrc data`; with `check`: `model_check`, `spec_check`. -/
def opLrc (j : Json) : P Json := do
  let data ← fNats j "data"
  let model := Impl.computeLRC data
  let spec := Spec.lrc data
  let base := [("model", jNat model), ("spec", jNat spec)]
  match optFld j "check" with
  | some c =>
    let c ← nat c
    pure (Json.mkObj (base ++ [("model_check", Json.bool (Impl.checkLRC data c)),
      ("spec_check", Json.bool (c == spec))]))
  | none => pure (Json.mkObj base)

/-- `{"op":"crctable"}` → the model's 256-entry table (to compare with the real
    `pymodbus.utilities.__crc16_table`). -/
def opCrcTable (_ : Json) : P Json := pure (Json.mkObj [("table", jNats Impl.crcTable)])

end Driver
