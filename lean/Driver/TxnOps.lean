import Driver.PduJson
import Pymodbus.Model.Txn
import Pymodbus.Spec.TxnSpec
open Lean Pymodbus Pymodbus.Txn

namespace Driver

def txnFramer : String → P FramerKind
  | "tcp" => pure .tcp | "rtu" => pure .rtu | "ascii" => pure .ascii | "binary" => pure .binary
  | f => throw s!"bad framer {f}"

def txnTransport : String → P Transport
  | "tcp" => pure .tcp | "serial" => pure .serial | "udp" => pure .udp
  | t => throw s!"bad transport {t}"

def txnMode : String → P RecvMode
  | "ok" => pure .ok | "oserror" => pure .oserror | "closed" => pure .closed
  | m => throw s!"bad recv mode {m}"

def txnModeName : RecvMode → String
  | .ok => "ok" | .oserror => "oserror" | .closed => "closed"

def txnCStateName : CState → String
  | .idle => "idle" | .sending => "sending" | .waiting => "waiting" | .processing => "processing"
  | .complete => "complete"

def txnReaction (j : Json) : P Reaction := do
  let send ← fNat j "send"
  let now ← (← fArr j "now").mapM nats
  let late ← (← fArr j "late").mapM nats
  let recv ← txnMode (← fStr j "recv")
  pure { sendOk := send != 0, now := now, late := late, recv := recv }

def jTxnResult : Result → Json
  | .reply r => Json.mkObj [("kind", "reply"), ("msg", jResp r.msg), ("uid", jNat r.uid), ("tid", jNat r.tid)]
  | .errorObject => Json.mkObj [("kind", "error")]
  | .raised e => Json.mkObj [("kind", "raised"), ("err", Json.str e.name)]
  | .broadcastSent => Json.mkObj [("kind", "broadcast")]
  | .noneObject => Json.mkObj [("kind", "none")]

def jTxnState (t : Transport) (s : State) (n : Net) : Json :=
  Json.mkObj [("tid", jNat s.tid), ("cstate", Json.str (txnCStateName s.cstate)), ("noresp", jNats s.noResp),
    ("fbuf", jNat s.fbuf.length), ("open", jNat (if s.sockOpen then 1 else 0)), ("pending", jNat s.pending.length),
    ("inbuf", if t = .udp then jArr (n.dgrams.map jNats) else jNats n.inbuf),
    ("late", jArr (n.late.map jNats)), ("mode", Json.str (txnModeName n.mode))]

def txnFramingOf : FramerKind → TxnSpec.Framing
  | .tcp => .mbap
  | _ => .serialLine

/-- `txn`: a history of calls on one client over the scripted transport.  Per call: the model's result,
    transmissions, frames written, bytes read / flushed, the state afterwards; with `"impl"` (the result the real
    client returned for this call) also the Spec verdict on it (`answers`). -/
def opTxn (j : Json) : P Json := do
  let cfg : Cfg := {
    framer := ← txnFramer (← fStr j "framer"), transport := ← txnTransport (← fStr j "transport"),
    retries := ← fNat j "retries", retryOnEmpty := ← fBool j "retry_on_empty",
    retryOnInvalid := ← fBool j "retry_on_invalid", broadcastEnable := ← fBool j "broadcast",
    plusWords := ← fNat j "plus" }
  let mut st : State := { tid := ← fNat j "tid0" }
  let mut net : Net := {}
  let mut outs : List Json := []
  for c in (← fArr j "calls") do
    let req : Request := { unit := ← fNat c "unit", pdu := ← parseReq (← fld c "req") }
    let script ← (← fArr c "script").mapM txnReaction
    let n0 : Net := { net with script := script, tx := 0, reads := 0, writes := [], rx := [], flushed := [] }
    let o := execute cfg st n0 req
    let reqTid := (st.tid + 1) % 65536
    let mut fields : List (String × Json) := [("result", jTxnResult o.result), ("tx", jNat o.net.tx),
      ("writes", jArr (o.net.writes.map jNats)), ("rx", jNats o.net.rx), ("flushed", jNats o.net.flushed),
      ("state", jTxnState cfg.transport o.st o.net), ("reads", jNat o.net.reads), ("req_tid", jNat reqTid),
      ("max_tx", jNat (TxnSpec.maxTransmissions cfg.retries))]
    match optFld c "impl" with
    | some im =>
      if (← fStr im "kind") == "reply" then
        let m ← parseResp (← fld im "msg")
        let ok := TxnSpec.answers (txnFramingOf cfg.framer) req.unit reqTid req.pdu.fc m.fc (← fNat im "uid") (← fNat im "tid")
        fields := fields ++ [("impl_answers", Json.bool ok)]
    | none => pure ()
    outs := Json.mkObj fields :: outs
    st := o.st
    net := o.net
  pure (Json.mkObj [("calls", jArr outs.reverse)])

/-- `pyint16`: the model of `int(bytes, 16)` on short byte strings (`null` = ValueError) -/
def opPyInt (j : Json) : P Json := do
  let items ← (← fArr j "items").mapM nats
  pure (Json.mkObj [("out", jArr (items.map (fun bs => match pyIntHex bs with
    | some v => jInt v
    | none => Json.null)))])

end Driver
