import Driver.Json
import Pymodbus.Model.Events
open Lean Pymodbus Pymodbus.Events

namespace Driver

def jEvent : Event → Json
  | .recv o l b => Json.mkObj [("kind", Json.str "recv"), ("flags", Json.arr #[Json.bool o, Json.bool l, Json.bool b])]
  | .send r a b n w l => Json.mkObj [("kind", Json.str "send"),
      ("flags", Json.arr #[Json.bool r, Json.bool a, Json.bool b, Json.bool n, Json.bool w, Json.bool l])]
  | .listenMode => Json.mkObj [("kind", Json.str "listen"), ("flags", Json.arr #[])]
  | .restart => Json.mkObj [("kind", Json.str "restart"), ("flags", Json.arr #[])]

/-- `event`: {"dir": "enc", "kind": k, "flags": [0/1..]} -> {"bytes": [..]};
             {"dir": "dec", "kind": k, "byte": v} -> the decoded event or {"err": "param"} -/
def opEvent (j : Json) : P Json := do
  let kind ← fStr j "kind"
  match (← fStr j "dir") with
  | "enc" =>
    let f := (← fNats j "flags").map (· != 0)
    let g := fun k => f.getD k false
    let e ← match kind with
      | "recv" => pure (Event.recv (g 0) (g 1) (g 2))
      | "send" => pure (Event.send (g 0) (g 1) (g 2) (g 3) (g 4) (g 5))
      | "listen" => pure Event.listenMode
      | "restart" => pure Event.restart
      | k => throw s!"bad event kind {k}"
    pure (Json.mkObj [("bytes", jNats (encode e))])
  | "dec" =>
    let v ← fNat j "byte"
    match kind with
    | "recv" => pure (jEvent (decodeRecv v))
    | "send" => pure (jEvent (decodeSend v))
    | "listen" => pure (match decodeListen v with | some e => jEvent e | none => Json.mkObj [("err", Json.str "param")])
    | "restart" => pure (match decodeRestart v with | some e => jEvent e | none => Json.mkObj [("err", Json.str "param")])
    | k => throw s!"bad event kind {k}"
  | d => throw s!"bad dir {d}"

/-- `eventlog`: {"events": [{"kind": k, "flags": [..]}, ..]} (calls of addEvent, oldest first) -> {"bytes": getEvents(), "n": len} -/
def parseEvent (j : Json) : P Event := do
  let f := (← fNats j "flags").map (· != 0)
  let g := fun k => f.getD k false
  match (← fStr j "kind") with
  | "recv" => pure (Event.recv (g 0) (g 1) (g 2))
  | "send" => pure (Event.send (g 0) (g 1) (g 2) (g 3) (g 4) (g 5))
  | "listen" => pure Event.listenMode
  | "restart" => pure Event.restart
  | k => throw s!"bad event kind {k}"

def opEventLog (j : Json) : P Json := do
  let es ← (← (← fld j "events").getArr?).toList.mapM parseEvent
  let log := runLog [] es
  pure (Json.mkObj [("bytes", jNats (getEvents log)), ("n", jNat log.length)])

end Driver
