import Driver.ExecOps
import Pymodbus.Model.Server
open Lean Pymodbus Pymodbus.Server

namespace Driver

def parseFramerKind : String → P FramerKind
  | "tcp" => pure .tcp | "rtu" => pure .rtu | "ascii" => pure .ascii | "binary" => pure .binary | "tls" => pure .tls
  | f => throw s!"bad framer {f}"

def parseFrontend : String → P Frontend
  | "syncTcp" => pure .syncTcp | "syncSerial" => pure .syncSerial | "syncUdp" => pure .syncUdp
  | "aioTcp" => pure .aioTcp | "aioUdp" => pure .aioUdp | "twistedTcp" => pure .twistedTcp
  | "twistedUdp" => pure .twistedUdp
  | f => throw s!"bad frontend {f}"

/-- `server`: one connection of a front-end receiving a chunk sequence over a multi-unit context -/
def opServer (j : Json) : P Json := do
  let cfg : Cfg := { framer := ← parseFramerKind (← fStr j "framer"), frontend := ← parseFrontend (← fStr j "frontend"),
                     ignoreMissing := ← fBool j "ignore_missing", broadcast := ← fBool j "broadcast" }
  let single ← fBool j "single"
  let units ← (← fArr j "units").mapM (fun kv => do
    let l ← arr kv
    pure ((← int (← nth l 0)), (← parseSlaveB (← nth l 1))))
  -- either one connection receiving `chunks`, or `schedule` = [[connection index, chunk], ...] over several connections
  -- a chunk `null` = the receive call of that connection ended with socket.timeout; `{"del": u}` = the application
  -- removes unit u from the server context at this point (`del context[u]`)
  -- `{"add": u, "layout": slave}` = the application registers (or replaces) unit u at this point (`context[u] = slave`)
  let chunkOf : Json → P (Option Bytes ⊕ (Int × Option SlaveCtx)) := fun c => match c with
    | .null => pure (.inl none)
    | .obj _ => match optFld c "add" with
      | some _ => do pure (.inr ((← fInt c "add"), some (← parseSlaveB (← fld c "layout"))))
      | none => do pure (.inr ((← fInt c "del"), none))
    | c => do pure (.inl (some (← nats c)))
  let sched : List (Nat × (Option Bytes ⊕ (Int × Option SlaveCtx))) ← match j.getObjVal? "schedule" with
    | .ok (.arr a) => a.toList.mapM (fun st => do
        let l ← arr st
        pure ((← nat (← nth l 0)), (← chunkOf (← nth l 1))))
    | _ => do pure ((← (← fArr j "chunks").mapM chunkOf).map (fun c => (0, c)))
  -- the process-wide control block as the harness found it (counters, listen-only, identity, ...)
  let ctl : Control ← match optFld j "control" with
    | some c => do
        let ident : DevId.Ident ← (← fArr c "ident").mapM (fun kv => do
          let l ← arr kv
          pure ((← nat (← nth l 0)), (← nats (← nth l 1))))
        pure ({ counters := ← fNats c "counters", listenOnly := ← fBool c "listen_only",
                diagReg := (← fNats c "diagreg").map (· != 0), events := ← fNats c "events",
                plus := ← fNats c "plus", ident := ident } : Control)
    | none => pure { counters := List.replicate 9 0, diagReg := List.replicate 16 false, plus := List.replicate 54 0, ident := [] }
  let mut ctx : World := ⟨⟨single, units⟩, ctl⟩
  let conn0 := openConn cfg ctx        -- every connection is open before the first step
  let mut conns : Nat → Conn := fun _ => conn0
  let mut calls : List Json := []
  for (i, oc) in sched do
    let (conn', ctx', outs, esc) := match oc with
      | .inl (some c) => connStep cfg (conns i) ctx c
      | .inl none => (connTimeout cfg (conns i) ctx, ctx, [], none)
      | .inr (u, none) =>
        match ctx.units.delItem u with
        | .ok us => (conns i, { ctx with units := us }, [], none)
        | .error e => (conns i, ctx, [], some e)
      | .inr (u, some sl) =>
        match ctx.units.setItem u sl with
        | .ok us => (conns i, { ctx with units := us }, [], none)
        | .error e => (conns i, ctx, [], some e)
    let old := conns
    conns := fun k => if k = i then conn' else old k
    ctx := ctx'
    calls := Json.mkObj [("out", jArr (outs.map jNats)),
      ("escaped", match esc with | some e => Json.str e.name | none => Json.null),
      ("running", Json.bool conn'.running)] :: calls
  pure (Json.mkObj [("calls", jArr calls.reverse),
    ("dumps", jArr (ctx.units.slaves.map (fun kv => jArr [jInt kv.1, jSlaveDump kv.2]))),
    ("control", Json.mkObj [("counters", jNats ctx.ctl.counters), ("listen_only", Json.bool ctx.ctl.listenOnly)])])

end Driver
