import Driver.ExecOps
import Pymodbus.Model.Server
import Pymodbus.Spec.RegisterFile
open Lean Pymodbus Pymodbus.Server

namespace Driver

def parseFramerKind : String → P FramerKind
  | "tcp" => pure .tcp | "rtu" => pure .rtu | "ascii" => pure .ascii | "binary" => pure .binary | "tls" => pure .tls
  | f => throw s!"bad framer {f}"

def parseFrontend : String → P Frontend
  | "syncTcp" => pure .syncTcp | "syncSerial" => pure .syncSerial | "syncUdp" => pure .syncUdp
  | "aioTcp" => pure .aioTcp | "aioUdp" => pure .aioUdp | "twistedTcp" => pure .twistedTcp
  | "twistedUdp" => pure .twistedUdp
  | f => throw s!"bad frontend {f}"

/-- `server`: one connection of a front-end receiving a chunk sequence over a multi-unit context -/
def opServer (j : Json) : P Json := do
  let cfg : Cfg := { framer := ← parseFramerKind (← fStr j "framer"), frontend := ← parseFrontend (← fStr j "frontend"),
                     ignoreMissing := ← fBool j "ignore_missing", broadcast := ← fBool j "broadcast" }
  let single ← fBool j "single"
  let units ← (← fArr j "units").mapM (fun kv => do
    let l ← arr kv
    pure ((← int (← nth l 0)), (← parseSlaveB (← nth l 1))))
  -- either one connection receiving `chunks`, or `schedule` = [[connection index, chunk], ...] over several connections
  let sched : List (Nat × Bytes) ← match j.getObjVal? "schedule" with
    | .ok (.arr a) => a.toList.mapM (fun st => do
        let l ← arr st
        pure ((← nat (← nth l 0)), (← nats (← nth l 1))))
    | _ => do pure ((← (← fArr j "chunks").mapM nats).map (fun c => (0, c)))
  let mut ctx : Units := ⟨single, units⟩
  let mut conns : Nat → Conn := fun _ => { buf := [] }
  let mut calls : List Json := []
  for (i, c) in sched do
    let (conn', ctx', outs, esc) := connStep cfg (conns i) ctx c
    -- `opaque`: a request outside the modelled execute methods (diagnostics, identification, file records, ...) was
    -- delivered in this call; the model answers those with SlaveFailure, the harness does not compare those bytes
    let units := acceptedUnits cfg ctx
    let evs := if cfg.framer = .tls then (Framer.tlsFeed decServer units ctx.single (conns i).buf c).1
               else (Framer.feed (stepFor cfg.framer) decServer units ctx.single (conns i).buf c).1
    let isOpaque := (conns i).running && evs.any (fun e => match e with
      | .deliver r _ _ _ => !(decide (RegisterFile.InScope r))
      | _ => false)
    let old := conns
    conns := fun k => if k = i then conn' else old k
    ctx := ctx'
    calls := Json.mkObj [("out", jArr (outs.map jNats)),
      ("escaped", match esc with | some e => Json.str e.name | none => Json.null),
      ("running", Json.bool conn'.running), ("opaque", Json.bool isOpaque)] :: calls
  pure (Json.mkObj [("calls", jArr calls.reverse),
    ("dumps", jArr (ctx.slaves.map (fun kv => jArr [jInt kv.1, jSlaveDump kv.2])))])

end Driver
