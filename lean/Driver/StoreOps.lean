import Driver.Json
import Pymodbus.Model.Store
import Pymodbus.Spec.StoreSpec
open Lean Pymodbus

namespace Driver

def parseBlock (j : Json) : P Block := do
  match (← fStr j "kind") with
  | "seq" => pure (.seq ⟨← fInt j "address", ← fNats j "values"⟩)
  -- the block `ModbusSlaveContext` creates for a table the caller leaves out: `ModbusSequentialDataBlock.create()`
  | "default" => pure (.seq ⟨0, List.replicate 65536 0⟩)
  | "sparse" =>
    let items ← (← fArr j "items").mapM (fun kv => do
      let l ← arr kv
      pure ((← int (← nth l 0)), (← nat (← nth l 1))))
    pure (.sparse ⟨items⟩)
  | k => throw s!"bad block kind {k}"

def jDump (l : List (Int × Nat)) : Json := jArr (l.map (fun kv => jArr [jInt kv.1, jNat kv.2]))

/-- raw block operations (unguarded, as the Python methods are) -/
def blockOp (b : Block) (j : Json) : P (Block × Json) := do
  let l ← arr j
  match (← str (← nth l 0)) with
  | "validate" => pure (b, Json.bool (b.validate (← int (← nth l 1)) (← int (← nth l 2))))
  | "get" => pure (b, jPyM jNats (b.get (← int (← nth l 1)) (← int (← nth l 2))))
  | "set" => pure (b.set (← int (← nth l 1)) (← nats (← nth l 2)), Json.null)
  | "reset" => pure (b.reset, Json.null)
  | "dump" => pure (b, jDump b.dump)
  | o => throw s!"bad block op {o}"

def parseSpecOp (j : Json) : P (Option StoreSpec.Op) := do
  let l ← arr j
  match (← str (← nth l 0)) with
  | "validate" => pure (some (.validate (← int (← nth l 1)) (← int (← nth l 2))))
  | "get" => pure (some (.get (← int (← nth l 1)) (← int (← nth l 2))))
  | "set" => pure (some (.set (← int (← nth l 1)) (← nats (← nth l 2))))
  | "reset" => pure (some .reset)
  | _ => pure none

def jOut : StoreSpec.Out → Json
  | .bool b => Json.bool b
  | .vals r => jPyM jNats r
  | .unit => Json.null

def jCells (m : StoreSpec.Cells) (lo hi : Int) : Json :=
  jArr ((List.range (hi - lo + 1).toNat).filterMap (fun (k : Nat) =>
    match m (lo + Int.ofNat k) with
    | some v => some (jArr [jInt (lo + Int.ofNat k), jNat v])
    | none => none))

/-- `store`: run the op list on the model block (raw, unguarded, as the Python methods are) and,
    as long as every op so far is in the property's scope, on the abstract partial map. -/
def opStore (j : Json) : P Json := do
  let b0 ← parseBlock (← fld j "block")
  let mut b := b0
  let mut m : StoreSpec.Cells := b0.cell
  let mut inScope := true
  let mut outs : List Json := []
  let mut specOuts : List Json := []
  for o in (← fArr j "ops") do
    if inScope then
      match (← parseSpecOp o) with
      | some op =>
        if decide (StoreSpec.OpOK b op) then
          let r := StoreSpec.Spec.step m op
          m := r.1
          specOuts := jOut r.2 :: specOuts
        else
          inScope := false
      | none => specOuts := Json.null :: specOuts
    let (b', out) ← blockOp b o
    b := b'
    outs := out :: outs
  let win ← ints (← fld j "window")
  let lo ← nth win 0
  let hi ← nth win 1
  pure (Json.mkObj [("outs", jArr outs.reverse), ("dump", jDump b.dump),
    ("spec_outs", jArr specOuts.reverse), ("in_scope", Json.bool inScope),
    ("spec_cells", jCells m lo hi), ("model_cells", jCells b.cell lo hi)])

def parseSlave (j : Json) : P SlaveCtx := do
  let blocks ← (← fArr j "blocks").mapM parseBlock
  pure ⟨blocks, ← fNat j "d", ← fNat j "c", ← fNat j "i", ← fNat j "h", ← fBool j "zero"⟩

def jSlaveDump (s : SlaveCtx) : Json := jArr (s.dump.map jDump)

def slaveOp (s : SlaveCtx) (j : Json) : P (SlaveCtx × Json) := do
  let l ← arr j
  match (← str (← nth l 0)) with
  | "validate" =>
    pure (s, jPyM Json.bool (s.validate (← nat (← nth l 1)) (← int (← nth l 2)) (← int (← nth l 3))))
  | "get" =>
    pure (s, jPyM jNats (s.getValues (← nat (← nth l 1)) (← int (← nth l 2)) (← int (← nth l 3))))
  | "set" =>
    match s.setValues (← nat (← nth l 1)) (← int (← nth l 2)) (← nats (← nth l 3)) with
    | .ok s' => pure (s', Json.null)
    | .error e => pure (s, jErr e)
  | "reset" => pure (s.reset, Json.null)
  | o => throw s!"bad slave op {o}"

def opSlave (j : Json) : P Json := do
  let mut s ← parseSlave (← fld j "ctx")
  let mut outs : List Json := []
  for o in (← fArr j "ops") do
    let (s', out) ← slaveOp s o
    s := s'
    outs := out :: outs
  pure (Json.mkObj [("outs", jArr outs.reverse), ("dump", jSlaveDump s)])

/-- server context over opaque context ids -/
def opServerCtx (j : Json) : P Json := do
  let single ← fBool j "single"
  let init ← (← fArr j "slaves").mapM (fun kv => do
      let l ← arr kv
      pure ((← int (← nth l 0)), (← nat (← nth l 1))))
  let mut s : ServerCtx Nat := ⟨single, init⟩
  let mut outs : List Json := []
  for o in (← fArr j "ops") do
    let l ← arr o
    let u ← int (← nth l 1)
    match (← str (← nth l 0)) with
    | "get" => outs := jPyM jNat (s.getItem u) :: outs
    | "contains" => outs := Json.bool (s.contains u) :: outs
    | "set" =>
      match s.setItem u (← nat (← nth l 2)) with
      | .ok s' => s := s'; outs := Json.null :: outs
      | .error e => outs := jErr e :: outs
    | "del" =>
      match s.delItem u with
      | .ok s' => s := s'; outs := Json.null :: outs
      | .error e => outs := jErr e :: outs
    | o => throw s!"bad sctx op {o}"
  pure (Json.mkObj [("outs", jArr outs.reverse),
    ("slaves", jArr (s.slaves.map (fun kv => jArr [jInt kv.1, jNat kv.2])))])

end Driver
