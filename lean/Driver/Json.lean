import Lean.Data.Json
import Pymodbus.Model.Prelude
open Lean

namespace Driver
abbrev P := Except String

def fld (j : Json) (k : String) : P Json := j.getObjVal? k
def int (j : Json) : P Int := j.getInt?
def nat (j : Json) : P Nat := j.getNat?
def str (j : Json) : P String := j.getStr?
def bool (j : Json) : P Bool := j.getBool?
def arr (j : Json) : P (List Json) := do let a ← j.getArr?; pure a.toList
def fInt (j : Json) (k : String) : P Int := do int (← fld j k)
def fNat (j : Json) (k : String) : P Nat := do nat (← fld j k)
def fStr (j : Json) (k : String) : P String := do str (← fld j k)
def fBool (j : Json) (k : String) : P Bool := do bool (← fld j k)
def fArr (j : Json) (k : String) : P (List Json) := do arr (← fld j k)
def nats (j : Json) : P (List Nat) := do (← arr j).mapM nat
def ints (j : Json) : P (List Int) := do (← arr j).mapM int
def fNats (j : Json) (k : String) : P (List Nat) := do nats (← fld j k)
def optFld (j : Json) (k : String) : Option Json := (j.getObjVal? k).toOption

def jNats (l : List Nat) : Json := Json.arr (l.map (fun n => Json.num (JsonNumber.fromNat n))).toArray
def jInt (i : Int) : Json := Json.num (JsonNumber.fromInt i)
def jNat (n : Nat) : Json := Json.num (JsonNumber.fromNat n)
def jArr (l : List Json) : Json := Json.arr l.toArray
def jErr (e : Pymodbus.PyErr) : Json := Json.mkObj [("err", Json.str e.name)]
def jPyM {α} (f : α → Json) : Pymodbus.PyM α → Json
  | .ok a => f a
  | .error e => jErr e

/-- list element by index in the `P` monad -/
def nth {α} (l : List α) (i : Nat) : P α :=
  match l[i]? with
  | some a => pure a
  | none => throw s!"index {i} out of range"
end Driver
