import Pymodbus.Model.Prelude
import Pymodbus.Model.Store
import Pymodbus.Model.Pdu
import Pymodbus.Model.Exec
import Pymodbus.Spec.StoreSpec
import Pymodbus.Spec.RegisterFile
