import Pymodbus.Model.Prelude
import Pymodbus.Model.Store
