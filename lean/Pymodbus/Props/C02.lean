/-
  C02 — Encode/decode are mutual inverses and encoding is pure.
-/
import Pymodbus.Props.C01
namespace Pymodbus.Props.C02
open Pymodbus PduSpec Props.C01

/-- Decoding the bytes produced by encoding any in-range request yields the same request. -/
theorem roundtrip_req (r : Req) (hp : Plain r) (h : WFReq r) (hd : DiagOneWord r) :
    ∃ bs, Impl.encReq r = .ok bs ∧ Impl.decReq (r.fc :: bs) = .ok (normReq r) :=
  ⟨_, enc_req_conforms r hp h, dec_req_conforms r hp h hd⟩

/-- … and the same for responses and exception responses through the client decoder, bit lists
    compared up to zero padding to a byte boundary (`normResp`). -/
theorem roundtrip_resp (r : Resp) (h : WFResp r) :
    ∃ bs, Impl.encResp r = .ok bs ∧ Impl.decResp (r.fc :: bs) = some (normResp r) :=
  ⟨_, enc_resp_conforms r h, dec_resp_conforms r h⟩

/-! ### encoding is pure: the object after `encode()` encodes to the same bytes, for EVERY object
    state (no well-formedness needed) -/

theorem encode_pure_req (r : Req) :
    Impl.encReq (Impl.postEncReq r) = Impl.encReq r ∧ Impl.postEncReq (Impl.postEncReq r) = Impl.postEncReq r := by
  cases r <;> exact ⟨rfl, rfl⟩

theorem encode_pure_resp (r : Resp) :
    Impl.encResp (Impl.postEncResp r) = Impl.encResp r ∧
    Impl.postEncResp (Impl.postEncResp r) = Impl.postEncResp r := by
  cases r
  case readDeviceInfo rc conf mf nxt num info =>
    simp only [Impl.postEncResp]
    cases he : Impl.encObjects info 247 0 with
    | error e => simp [Impl.encResp, Impl.postEncResp, he]
    | ok x =>
      obtain ⟨objs, num', out⟩ := x
      cases out with
      | none => simp [Impl.encResp, Impl.postEncResp, he]
      | some oid =>
        constructor
        · simp only [Impl.encResp, he, bind, Except.bind]
        · simp [Impl.postEncResp, he]
  all_goals exact ⟨rfl, rfl⟩

/-! ### encoding a freshly decoded object yields identical bytes -/

theorem truthy_b2n (v : Nat) : Impl.truthy (PduSpec.b2n (PduSpec.truthy v)) = PduSpec.truthy v := by
  unfold PduSpec.b2n PduSpec.truthy Impl.truthy
  by_cases h : v = 0 <;> simp [h]

theorem padBits_pack (bits : List Nat) :
    packBits ((padBits (bits.map (fun v => PduSpec.b2n (PduSpec.truthy v)))).map Impl.truthy) =
      packBits (bits.map Impl.truthy) := by
  have hm : (padBits (bits.map (fun v => PduSpec.b2n (PduSpec.truthy v)))).map Impl.truthy =
      bits.map Impl.truthy ++ List.replicate (8 * nbytes (bits.map Impl.truthy).length - (bits.map Impl.truthy).length) false := by
    simp only [padBits, List.map_append, List.map_map, List.length_map, List.map_replicate]
    congr 1
    apply List.map_congr_left
    intro v _
    simp only [Function.comp]
    rw [truthy_b2n, truthy_eq]
  rw [hm, packBits_eq_spec, packBits_eq_spec, spec_packBits_pad]

theorem reencode_decoded_resp (r : Resp) (h : WFResp r) :
    Impl.encResp (normResp r) = Impl.encResp r := by
  cases r <;> simp only [WFResp] at h <;> try rfl
  case readCoils bits => simp only [normResp, Impl.encResp, padBits_pack]
  case readDiscrete bits => simp only [normResp, Impl.encResp, padBits_pack]
  case writeCoil a v =>
    have := truthy_b2n v
    rw [truthy_eq] at this
    simp only [normResp, Impl.encResp, truthy_eq, this]
  case diag sub m =>
    cases m <;> simp only [WFResp] at h <;> try rfl
    case int n =>
      simp [normResp, Impl.encResp, Impl.encDiag, Impl.packHs, bind, Except.bind, pure, Except.pure]
      cases Impl.packH sub <;> cases Impl.packH n <;> simp

theorem reencode_decoded_req (r : Req) : Impl.encReq (normReq r) = Impl.encReq r := by
  unfold normReq
  split
  · rename_i sub n
    simp [Impl.encReq, Impl.encDiag, Impl.packHs, bind, Except.bind, pure, Except.pure]
    cases Impl.packH sub <;> cases Impl.packH n <;> simp
  · rfl

/-- decode(encode(decode(encode m))) is a fixed point -/
theorem decode_encode_fixed_point (r : Resp) (h : WFResp r) :
    ∃ bs, Impl.encResp (normResp r) = .ok bs ∧ Impl.decResp (r.fc :: bs) = some (normResp r) := by
  rw [reencode_decoded_resp r h]; exact roundtrip_resp r h

/-! ### decoding into an object does not accumulate state from an earlier decode -/

/-- the one class whose `decode` appends (known finding `readwrite-response-accumulates`, pinned by
    testRegisterReadResponseDecode) -/
def Accumulates : Resp → Prop
  | .readWrite _ => True
  | _ => False

def C02_history_full : Prop :=
  ∀ (o₁ o₂ : Resp) (d : Bytes), o₁.fc = o₂.fc → Impl.decodeIntoResp o₁ d = Impl.decodeIntoResp o₂ d

theorem decode_history_independent_partial (o₁ o₂ : Resp) (d : Bytes) (hfc : o₁.fc = o₂.fc)
    (h1 : ¬ Accumulates o₁) (h2 : ¬ Accumulates o₂) (hx : ∀ fc c, o₁ ≠ .exception fc c)
    (hy : ∀ fc c, o₂ ≠ .exception fc c) :
    Impl.decodeIntoResp o₁ d = Impl.decodeIntoResp o₂ d := by
  have e1 : Impl.decodeIntoResp o₁ d = Impl.decRespBody o₁.fc d := by
    cases o₁ <;> first | rfl | (exfalso; exact h1 trivial) | (exfalso; exact hx _ _ rfl)
  have e2 : Impl.decodeIntoResp o₂ d = Impl.decRespBody o₂.fc d := by
    cases o₂ <;> first | rfl | (exfalso; exact h2 trivial) | (exfalso; exact hy _ _ rfl)
  rw [e1, e2, hfc]

theorem decode_accumulation_counterexample :
    Impl.decodeIntoResp (.readWrite [1, 2]) [4, 0, 1, 0, 2] = .ok (.readWrite [1, 2, 1, 2]) ∧
    Impl.decodeIntoResp (.readWrite []) [4, 0, 1, 0, 2] = .ok (.readWrite [1, 2]) := ⟨rfl, rfl⟩

theorem not_C02_history_full : ¬ C02_history_full := by
  intro h
  have := h (.readWrite [1, 2]) (.readWrite []) [4, 0, 1, 0, 2] rfl
  rw [decode_accumulation_counterexample.1, decode_accumulation_counterexample.2] at this
  simp at this

example : WFResp (.readCoils [1, 0, 1]) := by show nbytes 3 < 256; decide

end Pymodbus.Props.C02
