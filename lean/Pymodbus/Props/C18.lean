/-
  C18 — Datastore blocks and contexts address exactly their cells.
  Property theorems only; helper lemmas live in Pymodbus/Lemmas/Store.lean.
-/
import Pymodbus.Lemmas.Store
import Pymodbus.Spec.StoreSpec
import Pymodbus.Generated.Tables
namespace Pymodbus.Props.C18
open Pymodbus Pymodbus.StoreSpec

/-- "all `n` cells starting at `a` lie within the populated addresses" -/
def AllPopulated (b : Block) (a n : Int) : Prop :=
  ∀ k : Int, 0 ≤ k → k < n → (b.cell (a + k)).isSome = true

/-- For any count ≥ 1 a block accepts `(a, n)` exactly when all `n` cells are populated. -/
theorem validate_iff (b : Block) (a n : Int) (hn : 1 ≤ n) :
    b.validate a n = true ↔ AllPopulated b a n := by
  unfold AllPopulated
  cases b with
  | seq b =>
    simp only [Block.validate, seq_cell_isSome, SeqBlock.validate, Bool.and_eq_true, decide_eq_true_eq]
    constructor
    · intro h k h0 h1; omega
    · intro h
      have h0 := h 0 (by omega) (by omega)
      have h1 := h (n-1) (by omega) (by omega)
      omega
  | sparse b =>
    have hn0 : ¬ (n = 0) := by omega
    simp only [Block.validate, SparseBlock.validate, hn0, if_false, Block.cell, validateFrom_iff]
    constructor
    · intro h k h0 h1; exact h k h0 (by omega)
    · intro h k h0 h1; exact h k h0 (by omega)

/-- A read of an accepted range returns exactly `n` values, in address order. -/
theorem get_spec (b : Block) (a n : Int) (hn : 1 ≤ n) (hv : b.validate a n = true) :
    ∃ vs, b.get a n = .ok vs ∧ vs.length = n.toNat ∧
      ∀ k : Nat, k < n.toNat → b.cell (a + k) = vs[k]? := by
  cases b with
  | seq b =>
    simp only [Block.validate, SeqBlock.validate, Bool.and_eq_true, decide_eq_true_eq] at hv
    obtain ⟨h1, h2⟩ := hv
    have hs := pySlice_nat b.values (a - b.address) (a - b.address + n) (a - b.address).toNat n.toNat
      (by omega) (by omega) (by omega)
    refine ⟨b.get a n, rfl, ?_, ?_⟩
    · unfold SeqBlock.get; rw [hs]; simp; omega
    · intro k hk
      unfold SeqBlock.get; rw [hs]
      simp only [Block.cell]
      have : b.address ≤ a + k ∧ a + k < b.address + b.values.length := by omega
      simp only [this, and_self, if_true]
      rw [List.getElem?_take]
      simp only [hk, if_true, List.getElem?_drop]
      congr 1; omega
  | sparse b =>
    have hn0 : ¬ (n = 0) := by omega
    simp only [Block.validate, SparseBlock.validate, hn0, if_false] at hv
    exact getFrom_spec b.items a n.toNat hv

/-- A write of `vs` to an accepted range changes exactly those cells (and nothing else:
    every other address keeps its value, unpopulated addresses stay unpopulated). -/
theorem set_spec (b : Block) (a : Int) (vs : List Nat) (hv : b.validate a vs.length = true) (i : Int) :
    (b.set a vs).cell i =
      if a ≤ i ∧ i < a + vs.length then vs[(i - a).toNat]? else b.cell i := by
  cases b with
  | seq b =>
    have hv' := hv
    simp only [Block.validate, SeqBlock.validate, Bool.and_eq_true, decide_eq_true_eq] at hv'
    obtain ⟨h1, h2⟩ := hv'
    have hle : (a - b.address).toNat + vs.length ≤ b.values.length := by omega
    have hvals := seq_set_values b a vs hv
    have haddr : (b.set a vs).address = b.address := rfl
    have hlen : (b.set a vs).values.length = b.values.length := by
      rw [hvals]; exact splice_length _ _ _ hle
    simp only [Block.set, Block.cell, haddr, hlen]
    split
    · rename_i hin
      rw [hvals, splice_getElem? _ _ _ _ hle]
      split
      · rename_i hc; rw [if_pos (by omega)]; congr 1; omega
      · rename_i hc; rw [if_neg (by omega)]
    · rename_i hout
      rw [if_neg (by omega)]
  | sparse b =>
    simp only [Block.set, Block.cell, SparseBlock.set, setFrom_get]

/-- The extent of a block (its populated addresses, in iteration order) is unchanged by a
    write to an accepted range. -/
theorem set_extent (b : Block) (a : Int) (vs : List Nat) (hv : b.validate a vs.length = true) (i : Int) :
    ((b.set a vs).cell i).isSome = (b.cell i).isSome := by
  rw [set_spec b a vs hv i]
  split
  · rename_i h
    by_cases hn : 1 ≤ (vs.length : Int)
    · have hp := (validate_iff b a vs.length hn).1 hv (i - a) (by omega) (by omega)
      have e : a + (i - a) = i := by omega
      rw [e] at hp
      rw [hp]
      have : (i - a).toNat < vs.length := by omega
      rw [List.getElem?_eq_getElem this]; rfl
    · exfalso; omega
  · rfl

/-- A write is visible to a subsequent read of the same range. -/
theorem get_after_set (b : Block) (a : Int) (vs : List Nat) (hne : 1 ≤ (vs.length : Int))
    (hv : b.validate a vs.length = true) :
    (b.set a vs).validate a vs.length = true ∧ (b.set a vs).get a vs.length = .ok vs := by
  have hv2 : (b.set a vs).validate a vs.length = true := by
    rw [validate_iff _ _ _ hne]
    intro k h0 h1
    rw [set_extent b a vs hv]
    exact (validate_iff b a vs.length hne).1 hv k h0 h1
  refine ⟨hv2, ?_⟩
  obtain ⟨ws, e1, e2, e3⟩ := get_spec _ a vs.length hne hv2
  rw [e1]; congr 1
  apply List.ext_getElem?
  intro k
  by_cases hk : k < vs.length
  · have := e3 k (by omega)
    rw [← this, set_spec b a vs hv]
    rw [if_pos (by omega)]; congr 1; omega
  · rw [List.getElem?_eq_none (by omega), List.getElem?_eq_none (by omega)]

/-- `reset` puts every populated cell back to the default and keeps the extent. -/
theorem reset_spec (b : Block) (i : Int) : b.reset.cell i = (b.cell i).map (fun _ => 0) := by
  cases b with
  | seq b =>
    simp only [Block.reset, Block.cell, SeqBlock.reset, List.length_replicate]
    split
    · rename_i h
      rw [List.getElem?_replicate, List.getElem?_eq_getElem (by omega)]
      simp; omega
    · rfl
  | sparse b =>
    simp only [Block.reset, Block.cell, SparseBlock.reset]
    induction b.items with
    | nil => rfl
    | cons kv r ih =>
      simp only [List.map_cons, dictGet]
      split
      · rfl
      · exact ih

/-! ### operation sequences refine a partial map -/

theorem populated_iff (m : Cells) (a : Int) (n : Nat) :
    Spec.populated m a n = true ↔ ∀ k : Int, 0 ≤ k → k < n → (m (a + k)).isSome = true := by
  simp only [Spec.populated, List.all_eq_true, List.mem_range]
  constructor
  · intro h k h0 h1
    have := h k.toNat (by omega)
    have e : Int.ofNat k.toNat = k := by simp; omega
    rwa [e] at this
  · intro h k hk
    exact h (Int.ofNat k) (by simp) (by simp; omega)

theorem step_refines (b : Block) (op : Op) (hok : OpOK b op) :
    (step b op).2 = (Spec.step b.cell op).2 ∧ (step b op).1.cell = (Spec.step b.cell op).1 := by
  cases op with
  | validate a n =>
    simp only [step, Spec.step, and_true]
    congr 1
    simp only [OpOK] at hok
    rw [Bool.eq_iff_iff, validate_iff b a n hok, populated_iff]
    unfold AllPopulated
    constructor
    · intro h k h0 h1; exact h k h0 (by omega)
    · intro h k h0 h1; exact h k h0 (by omega)
  | get a n =>
    simp only [step, Spec.step, and_true]
    obtain ⟨hn, hv⟩ := hok
    obtain ⟨vs, e1, e2, e3⟩ := get_spec b a n hn hv
    rw [e1]; congr 2
    apply List.ext_getElem?
    intro k
    have hfm : ∀ (n : Nat) (vs : List Nat), vs.length = n →
        (∀ k : Nat, k < n → b.cell (a + k) = vs[k]?) →
        (List.range n).filterMap (fun (k : Nat) => b.cell (a + Int.ofNat k)) = vs := by
      intro n
      induction n with
      | zero => intro vs h _; simp at h; simp [h]
      | succ n ih =>
        intro vs hl hc
        have hsplit : vs = vs.take n ++ [vs[n]'(by omega)] := by
          rw [← List.take_succ_eq_append_getElem (by omega)]
          rw [List.take_of_length_le (by omega)]
        rw [List.range_succ, List.filterMap_append]
        rw [ih (vs.take n) (by simp; omega) (by
          intro k hk
          rw [hc k (by omega), List.getElem?_take]; simp [hk])]
        have := hc n (by omega)
        simp only [List.filterMap_cons, List.filterMap_nil]
        have e : Int.ofNat n = (n : Int) := rfl
        rw [e, this, List.getElem?_eq_getElem (by omega)]
        exact hsplit.symm
    rw [hfm n.toNat vs e2 e3]
  | set a vs =>
    simp only [step, Spec.step, true_and]
    funext i
    exact set_spec b a vs hok.2 i
  | reset =>
    simp only [step, Spec.step, true_and]
    funext i
    exact reset_spec b i

/-- Any sequence of in-scope operations on a block behaves like the same sequence on the
    partial map `address ↦ value` (unbounded length, by induction on the sequence). -/
theorem blocks_refine_map (b : Block) (ops : List Op) (hok : OpsOK b ops) :
    (run b ops).2 = (Spec.run b.cell ops).2 ∧ (run b ops).1.cell = (Spec.run b.cell ops).1 := by
  induction ops generalizing b with
  | nil => exact ⟨rfl, rfl⟩
  | cons op ops ih =>
    obtain ⟨h1, h2⟩ := hok
    obtain ⟨s1, s2⟩ := step_refines b op h1
    obtain ⟨r1, r2⟩ := ih (step b op).1 h2
    simp only [run, Spec.run]
    rw [← s2]
    exact ⟨by rw [s1, r1], r2⟩

/-! ### slave context: one-based offset unless zero-mode -/

theorem context_offset (s : SlaveCtx) (fx : Nat) (a n : Int) (k : Nat) (blk : Block)
    (hb : s.blockOf fx = .ok (k, blk)) :
    s.validate fx a n = .ok (blk.validate (if s.zeroMode then a else a + 1) n) ∧
    s.getValues fx a n = blk.get (if s.zeroMode then a else a + 1) n := by
  cases hz : s.zeroMode <;>
    simp [SlaveCtx.validate, SlaveCtx.getValues, hb, SlaveCtx.off, hz, bind, Except.bind, pure, Except.pure]

theorem context_set (s : SlaveCtx) (fx : Nat) (a : Int) (vs : List Nat) (k : Nat) (blk : Block)
    (hb : s.blockOf fx = .ok (k, blk)) :
    s.setValues fx a vs =
      .ok { s with blocks := s.blocks.set k (blk.set (if s.zeroMode then a else a + 1) vs) } := by
  cases hz : s.zeroMode <;>
    simp [SlaveCtx.setValues, hb, SlaveCtx.off, hz, bind, Except.bind, pure, Except.pure]

/-- Frame rule of the slave context: a write through one function code changes only the block that
    code selects — every other table of the context, and its addressing mode, stay as they were. -/
theorem context_set_frame (s : SlaveCtx) (fx : Nat) (a : Int) (vs : List Nat) (k : Nat) (blk : Block)
    (hb : s.blockOf fx = .ok (k, blk)) (k' : Nat) (hk : k' ≠ k) :
    ∃ s', s.setValues fx a vs = .ok s' ∧ s'.blocks[k']? = s.blocks[k']? ∧ s'.zeroMode = s.zeroMode ∧
      s'.blocks.length = s.blocks.length := by
  refine ⟨_, context_set s fx a vs k blk hb, ?_, rfl, ?_⟩
  · simp only [List.getElem?_set]
    rw [if_neg (by omega)]
  · simp

/-- The function-code → table map is the documented one. -/
theorem fx_tables :
    fxTable 1 = some .c ∧ fxTable 5 = some .c ∧ fxTable 15 = some .c ∧ fxTable 2 = some .d ∧
    fxTable 4 = some .i ∧ fxTable 3 = some .h ∧ fxTable 6 = some .h ∧ fxTable 16 = some .h ∧
    fxTable 22 = some .h ∧ fxTable 23 = some .h := by decide

def tableLetter : Table → String
  | .d => "d" | .c => "c" | .i => "i" | .h => "h"

/-- Tie to the source: the mapper read from `IModbusSlaveContext` on this run is the model's. -/
theorem generated_fx_mapper :
    Generated.fxMapper.map (·.1) = [1, 2, 3, 4, 5, 6, 15, 16, 22, 23] ∧
    Generated.fxMapper.all (fun p => (fxTable p.1).map tableLetter == some p.2) = true ∧
    Generated.zeroModeDefault = false ∧ Generated.defaultUnitId = 0 := by decide

/-! ### server context routing -/

variable {σ : Type}

theorem single_routes_all (c : σ) (u : Int) : (ServerCtx.mkSingle c).getItem u = .ok c := by
  simp [ServerCtx.mkSingle, ServerCtx.getItem, ServerCtx.lookup]

theorem multi_routes_registered (s : ServerCtx σ) (hs : s.single = false) (u : Int) :
    s.getItem u = match ServerCtx.lookup s.slaves u with
      | some c => .ok c
      | none => .error .noSlave := by
  unfold ServerCtx.getItem
  simp only [hs, Bool.false_eq_true, if_false]
  cases ServerCtx.lookup s.slaves u <;> rfl

theorem lookup_insert (l : List (Int × σ)) (k k' : Int) (v : σ) :
    ServerCtx.lookup (ServerCtx.insert l k v) k' =
      if k' = k then some v else ServerCtx.lookup l k' := by
  induction l with
  | nil => simp only [ServerCtx.insert, ServerCtx.lookup]; split <;> simp_all [eq_comm]
  | cons kv r ih =>
    obtain ⟨k0, v0⟩ := kv
    simp only [ServerCtx.insert]
    by_cases h : k0 = k
    · subst h
      simp only [if_true, ServerCtx.lookup]
      by_cases h2 : k0 = k'
      · subst h2; simp
      · have : ¬ (k' = k0) := fun e => h2 e.symm
        simp [h2, this]
    · simp only [h, if_false, ServerCtx.lookup, ih]
      by_cases h2 : k0 = k'
      · subst h2; simp [h]
      · simp [h2]

/-- Registration outside 0..247 is refused; inside, the id then routes to the new context and
    every other id is unaffected. -/
theorem setItem_spec (s : ServerCtx σ) (hs : s.single = false) (u : Int) (c : σ) :
    (¬ (0 ≤ u ∧ u ≤ 247) → s.setItem u c = .error .noSlave) ∧
    ((0 ≤ u ∧ u ≤ 247) → ∃ s', s.setItem u c = .ok s' ∧ s'.single = false ∧
        ∀ v, ServerCtx.lookup s'.slaves v = if v = u then some c else ServerCtx.lookup s.slaves v) := by
  constructor
  · intro h; simp [ServerCtx.setItem, hs, h]
  · intro h
    refine ⟨{ s with slaves := ServerCtx.insert s.slaves u c }, ?_, hs, ?_⟩
    · simp [ServerCtx.setItem, hs, h]
    · intro v; exact lookup_insert _ _ _ _

/-! ### Algebra of writes (corollaries of `set_spec`, observed through `cell`) -/

/-- A write never changes which ranges a block accepts: the set of addressable cells is a
    property of the block's construction, not of its history. -/
theorem validate_after_set (b : Block) (a : Int) (vs : List Nat) (hv : b.validate a vs.length = true)
    (a' n : Int) (hn : 1 ≤ n) :
    (b.set a vs).validate a' n = b.validate a' n := by
  have h : (b.set a vs).validate a' n = true ↔ b.validate a' n = true := by
    rw [validate_iff _ _ _ hn, validate_iff _ _ _ hn]
    unfold AllPopulated
    constructor
    · intro h k h0 h1; rw [← set_extent b a vs hv]; exact h k h0 h1
    · intro h k h0 h1; rw [set_extent b a vs hv]; exact h k h0 h1
  cases h1 : (b.set a vs).validate a' n <;> cases h2 : b.validate a' n <;> simp_all

/-- Writing the same values to the same range twice leaves every cell as after the first write. -/
theorem set_idempotent (b : Block) (a : Int) (vs : List Nat) (hne : 1 ≤ (vs.length : Int))
    (hv : b.validate a vs.length = true) (i : Int) :
    ((b.set a vs).set a vs).cell i = (b.set a vs).cell i := by
  have hv2 := (get_after_set b a vs hne hv).1
  rw [set_spec _ a vs hv2 i, set_spec b a vs hv i]
  split <;> rfl

/-- The last write to a range wins: nothing of an earlier write to the same range survives. -/
theorem set_overwrite (b : Block) (a : Int) (vs ws : List Nat) (hl : ws.length = vs.length)
    (hne : 1 ≤ (vs.length : Int)) (hv : b.validate a vs.length = true) (i : Int) :
    ((b.set a vs).set a ws).cell i = (b.set a ws).cell i := by
  have hv2 : (b.set a vs).validate a ws.length = true := by
    rw [hl]; exact (get_after_set b a vs hne hv).1
  have hvw : b.validate a ws.length = true := by rw [hl]; exact hv
  rw [set_spec _ a ws hv2 i, set_spec b a ws hvw i, set_spec b a vs hv i]
  split
  · rfl
  · rename_i h; rw [if_neg (by omega)]

/-- Writes to disjoint accepted ranges commute: every cell ends up the same in either order. -/
theorem set_commute_disjoint (b : Block) (a₁ a₂ : Int) (vs ws : List Nat)
    (h₁ : 1 ≤ (vs.length : Int)) (h₂ : 1 ≤ (ws.length : Int))
    (hv₁ : b.validate a₁ vs.length = true) (hv₂ : b.validate a₂ ws.length = true)
    (hd : a₁ + vs.length ≤ a₂ ∨ a₂ + ws.length ≤ a₁) (i : Int) :
    ((b.set a₁ vs).set a₂ ws).cell i = ((b.set a₂ ws).set a₁ vs).cell i := by
  have hv₂' : (b.set a₁ vs).validate a₂ ws.length = true := by
    rw [validate_after_set b a₁ vs hv₁ a₂ ws.length h₂]; exact hv₂
  have hv₁' : (b.set a₂ ws).validate a₁ vs.length = true := by
    rw [validate_after_set b a₂ ws hv₂ a₁ vs.length h₁]; exact hv₁
  rw [set_spec _ a₂ ws hv₂' i, set_spec _ a₁ vs hv₁' i, set_spec b a₁ vs hv₁ i, set_spec b a₂ ws hv₂ i]
  by_cases c₁ : a₁ ≤ i ∧ i < a₁ + vs.length <;> by_cases c₂ : a₂ ≤ i ∧ i < a₂ + ws.length
  · exfalso; omega
  · rw [if_neg c₂, if_pos c₁, if_pos c₁]
  · rw [if_pos c₂, if_neg c₁, if_pos c₂]
  · rw [if_neg c₂, if_neg c₁, if_neg c₁, if_neg c₂]

/-- A write outside a range is invisible to a read of that range (no bleed into neighbours). -/
theorem get_unaffected_by_disjoint_set (b : Block) (a₁ a₂ n : Int) (vs : List Nat)
    (hn : 1 ≤ n) (hv₁ : b.validate a₁ vs.length = true) (hv₂ : b.validate a₂ n = true)
    (hd : a₁ + vs.length ≤ a₂ ∨ a₂ + n ≤ a₁) :
    (b.set a₁ vs).get a₂ n = b.get a₂ n := by
  have hv₂' : (b.set a₁ vs).validate a₂ n = true := by
    rw [validate_after_set b a₁ vs hv₁ a₂ n hn]; exact hv₂
  obtain ⟨xs, e1, e2, e3⟩ := get_spec _ a₂ n hn hv₂'
  obtain ⟨ys, f1, f2, f3⟩ := get_spec b a₂ n hn hv₂
  rw [e1, f1]; congr 1
  apply List.ext_getElem?
  intro k
  by_cases hk : k < n.toNat
  · rw [← e3 k hk, ← f3 k hk, set_spec b a₁ vs hv₁]
    rw [if_neg (by omega)]
  · rw [List.getElem?_eq_none (by omega), List.getElem?_eq_none (by omega)]

/-- Non-vacuity: a concrete block, an accepted range, an in-scope op sequence. -/
example : OpsOK (.seq ⟨5, [1, 2, 3]⟩) [.validate 6 2, .set 6 [9, 8], .get 5 3, .reset, .get 7 1] := by
  decide
example : (Block.sparse ⟨[(3, 1), (4, 2), (9, 7)]⟩).validate 3 2 = true ∧
    (Block.sparse ⟨[(3, 1), (4, 2), (9, 7)]⟩).validate 4 2 = false := by decide

/-- Non-vacuity of the write algebra: two disjoint accepted ranges of one block (sequential and
    sparse), i.e. the hypotheses of `set_commute_disjoint` / `get_unaffected_by_disjoint_set`. -/
example : (Block.seq ⟨5, [1, 2, 3, 4]⟩).validate 5 ([7, 8] : List Nat).length = true ∧
    (Block.seq ⟨5, [1, 2, 3, 4]⟩).validate 7 ([9] : List Nat).length = true ∧
    ((5 : Int) + ([7, 8] : List Nat).length ≤ 7) := by decide
example : (Block.sparse ⟨[(3, 1), (4, 2), (9, 7)]⟩).validate 3 ([5, 6] : List Nat).length = true ∧
    (Block.sparse ⟨[(3, 1), (4, 2), (9, 7)]⟩).validate 9 ([1] : List Nat).length = true := by decide

end Pymodbus.Props.C18
