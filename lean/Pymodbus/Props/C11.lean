/-
  C11 — Receivers resynchronise after noise and never go deaf.
  ASCII / binary (delimited framings): WHATEVER the receiver holds after any noise, once one valid frame has
  arrived whole its buffer is empty again, so every later valid frame is delivered (noise costs at most the one
  frame that overlaps it) and the backlog is zero between frames.  RTU (no delimiters): the server-side length
  oracle never asks for more than 268 bytes, so a decision is taken by then; a failed CRC empties the buffer and
  the next frame boundary is a synchronisation point.  The client-side oracle is not bounded that way (known
  finding, counterexample below).
-/
import Pymodbus.Lemmas.FramerResync
import Pymodbus.Props.C06
namespace Pymodbus.Props.C11
open Pymodbus Pymodbus.Framer Pymodbus.Props.C06

variable {μ : Type}

def NoRaise (evs : List (Ev μ)) : Prop := ∀ e ∈ evs, ∀ err, e ≠ Ev.raised err

/-- ASCII: after ANY buffer contents `b`, a whole valid frame leaves the receiver with an empty buffer -/
theorem ascii_resync (decode : Bytes → PyM (Option μ)) (units : List Nat) (single : Bool) (b : Bytes)
    (uid fc : Nat) (data : Bytes) :
    EndsCRLF (feed asciiStep decode units single b (asciiFrame uid fc data)).2 ∧
    (NoRaise (feed asciiStep decode units single b (asciiFrame uid fc data)).1 →
      (feed asciiStep decode units single b (asciiFrame uid fc data)).2 = []) := by
  have hT : EndsCRLF (b ++ asciiFrame uid fc data) := by
    right
    refine ⟨b ++ [58] ++ b2aHexUpper ([uid, fc] ++ data ++ [asciiLrc uid fc data]), ?_⟩
    simp [asciiFrame]
  exact run_drains asciiStep decode units single EndsCRLF ascii_T_wait ascii_T_skip ascii_T_frame (Or.inl rfl)
    _ _ (Nat.lt_succ_self _) hT

/-- binary: the same, for frames without delimiter bytes inside (see known finding `binary-framer-escaping`) -/
theorem binary_resync (decode : Bytes → PyM (Option μ)) (units : List Nat) (single : Bool) (b : Bytes)
    (uid fc : Nat) (data : Bytes) (hn : NoDelim (binBody uid fc data)) :
    EndsBrace (feed binaryStep decode units single b (binFrame uid fc data)).2 ∧
    (NoRaise (feed binaryStep decode units single b (binFrame uid fc data)).1 →
      (feed binaryStep decode units single b (binFrame uid fc data)).2 = []) := by
  have hlast : (Impl.computeCRC ([uid, fc] ++ data) % 256) ≠ 0x7D := by
    have := hn (Impl.computeCRC ([uid, fc] ++ data) % 256) (by simp [binBody])
    exact this.2
  have hT : EndsBrace (b ++ binFrame uid fc data) := by
    right
    refine ⟨b ++ [0x7B] ++ [uid, fc] ++ data ++ [Impl.computeCRC ([uid, fc] ++ data) / 256],
      Impl.computeCRC ([uid, fc] ++ data) % 256, ?_, hlast⟩
    simp [binFrame, binBody]
  exact run_drains binaryStep decode units single EndsBrace binary_T_wait binary_T_skip binary_T_frame (Or.inl rfl)
    _ _ (Nat.lt_succ_self _) hT

/-- … hence every valid frame that arrives afterwards (one per read or several per read, any chunking) is
    delivered, in order, and the backlog returns to zero: a resynchronised receiver is a fresh receiver -/
theorem later_frames_delivered (F : Framing) (decode : Bytes → PyM (Option μ)) (units : List Nat) (single : Bool)
    (fs : List (VFrame μ)) (hfs : ∀ f ∈ fs, IsBuilt F decode units single f)
    (chunks : List Bytes) (hc : chunks.flatten = stream fs) :
    (feedAll (stepOf F) decode units single [] chunks).1.flatten =
        fs.map (fun f => Ev.deliver f.msg f.uid f.tid f.pid) ∧
    (feedAll (stepOf F) decode units single [] chunks).2 = [] :=
  C06.chunking_independent F decode units single fs hfs chunks hc

/-- ASCII, put together: noise `b`, then a valid frame `f0`, then valid frames `fs` one per read — all of `fs`
    are delivered, whatever `b` was -/
theorem ascii_never_deaf (decode : Bytes → PyM (Option μ)) (units : List Nat) (single : Bool) (b : Bytes)
    (uid fc : Nat) (data : Bytes)
    (fs : List (VFrame μ)) (hfs : ∀ f ∈ fs, IsBuilt .ascii decode units single f)
    (hnr : NoRaise (feed asciiStep decode units single b (asciiFrame uid fc data)).1) :
    (feedAll asciiStep decode units single b (asciiFrame uid fc data :: fs.map (·.bytes))).1.flatten =
      (feed asciiStep decode units single b (asciiFrame uid fc data)).1 ++
        fs.map (fun f => Ev.deliver f.msg f.uid f.tid f.pid) ∧
    (feedAll asciiStep decode units single b (asciiFrame uid fc data :: fs.map (·.bytes))).2 = [] := by
  have h0 := (ascii_resync decode units single b uid fc data).2 hnr
  have h1 := later_frames_delivered .ascii decode units single fs hfs (fs.map (·.bytes)) rfl
  simp only [feedAll, h0, List.flatten_cons]
  exact ⟨by rw [show stepOf .ascii = asciiStep from rfl] at h1; rw [h1.1], by
    rw [show stepOf .ascii = asciiStep from rfl] at h1; exact h1.2⟩

/-! ### RTU -/

/-- the RTU receiver never skips: it waits, delivers a frame or flushes -/
theorem rtu_step_kinds (rule : Nat → RtuRule) (buf : Bytes) (n : Nat) : rtuStep rule buf ≠ .skip n := by
  unfold rtuStep
  split
  · intro h; cases h
  · split
    · intro h; cases h
    · split
      · intro h; cases h
      · simp only []
        split <;> intro h <;> cases h

/-- server direction: the length oracle never asks for more than 268 bytes, so with 268 bytes buffered a
    decision (frame or flush) is taken — the backlog of a waiting receiver is below 268 bytes -/
theorem server_rule_cases (fc : Nat) :
    (∃ n, rtuRuleServer fc = .fixed n ∧ n ≤ 10) ∨ (∃ pos, rtuRuleServer fc = .byteCount pos ∧ pos ≤ 10) := by
  unfold rtuRuleServer
  split <;> simp

theorem rtu_server_decides (buf : Bytes) (hw : Bytes.WF buf) (hl : 268 ≤ buf.length) :
    rtuStep rtuRuleServer buf ≠ .wait := by
  have hsize : ∃ n, rtuSize rtuRuleServer buf = .ok n ∧ n ≤ 268 := by
    unfold rtuSize
    have h1 : buf[1]? = some buf[1] := List.getElem?_eq_getElem (by omega)
    rw [h1]
    simp only []
    rcases server_rule_cases buf[1] with ⟨n, hr, hn⟩ | ⟨pos, hr, hp⟩
    · rw [hr]; exact ⟨n, rfl, by omega⟩
    · rw [hr]
      have e : buf[pos]? = some buf[pos] := List.getElem?_eq_getElem (by omega)
      have hlt : buf[pos] < 256 := hw _ (List.getElem_mem _)
      simp only [e]
      exact ⟨_, rfl, by omega⟩
  obtain ⟨n, hn, hle⟩ := hsize
  unfold rtuStep
  rw [if_neg (by omega), hn]
  simp only []
  rw [if_neg (by omega)]
  split <;> intro h <;> cases h

/-- a flush leaves an empty buffer: the next frame boundary is a synchronisation point -/
theorem rtu_flush_resync (rule : Nat → RtuRule) (decode : Bytes → PyM (Option μ)) (units : List Nat) (single : Bool)
    (buf : Bytes) (fuel : Nat) (h : rtuStep rule buf = .flush) :
    run (rtuStep rule) decode units single (fuel + 1) buf = ([], []) := by
  simp [run, h]

/-- known finding `rtu-client-oracle-unbounded`: in the client direction four bytes of noise can make the
    receiver wait for 65 541 bytes (FIFO rule), far more than two maximum-size frames -/
theorem rtu_client_counterexample :
    rtuSize rtuRuleClient [1, 24, 255, 255] = .ok 65541 ∧
    rtuStep rtuRuleClient ([1, 24, 255, 255] ++ List.replicate 60 0) = .wait := ⟨rfl, rfl⟩

/-- Non-vacuity: noise that looks like the start of a frame, then a valid frame, then the receiver is empty. -/
example : (feed asciiStep (fun pdu => (.ok (some pdu) : PyM (Option Bytes))) [1] false [58, 48, 49, 13]
    (asciiFrame 1 3 [0, 0, 0, 2])).2 = [] := by rfl

end Pymodbus.Props.C11
