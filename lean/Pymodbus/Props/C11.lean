/-
  C11 — Receivers resynchronise after noise and never go deaf.
  ASCII / binary (delimited framings): WHATEVER the receiver holds after any noise, once one valid frame has
  arrived whole its buffer is empty again, so every later valid frame is delivered (noise costs at most the one
  frame that overlaps it) and the backlog is zero between frames.  RTU (no delimiters): the server-side length
  oracle never asks for more than 268 bytes, so the backlog after EVERY call is below 268 bytes
  (`rtu_server_backlog_bounded`), and a waiting receiver that sees 268 bytes flushes and is aligned, after which
  every valid frame is delivered (`rtu_server_resync`, `rtu_server_never_deaf`; hypothesis: no false frame starts
  in the noise).  The flush takes the whole read with it (`rtu_flush_discards_read_counterexample`, known finding).  The client-side oracle is not bounded that way (known
  finding, counterexample below).
-/
import Pymodbus.Lemmas.FramerResync
import Pymodbus.Props.C06
namespace Pymodbus.Props.C11
open Pymodbus Pymodbus.Framer Pymodbus.Props.C06

variable {μ : Type}

def NoRaise (evs : List (Ev μ)) : Prop := ∀ e ∈ evs, ∀ err, e ≠ Ev.raised err

/-- ASCII: after ANY buffer contents `b`, a whole valid frame leaves the receiver with an empty buffer -/
theorem ascii_resync (decode : Bytes → PyM (Option μ)) (units : List Nat) (single : Bool) (b : Bytes)
    (uid fc : Nat) (data : Bytes) :
    EndsCRLF (feed asciiStep decode units single b (asciiFrame uid fc data)).2 ∧
    (NoRaise (feed asciiStep decode units single b (asciiFrame uid fc data)).1 →
      (feed asciiStep decode units single b (asciiFrame uid fc data)).2 = []) := by
  have hT : EndsCRLF (b ++ asciiFrame uid fc data) := by
    right
    refine ⟨b ++ [58] ++ b2aHexUpper ([uid, fc] ++ data ++ [asciiLrc uid fc data]), ?_⟩
    simp [asciiFrame]
  exact run_drains asciiStep decode units single EndsCRLF ascii_T_wait ascii_T_skip ascii_T_frame (Or.inl rfl)
    _ _ (Nat.lt_succ_self _) hT

/-- binary: the same, for frames without an END delimiter between the braces (a 0x7B there is an ordinary byte to the
    receiver; see known finding `binary-framer-escaping` for the rest) -/
theorem binary_resync (decode : Bytes → PyM (Option μ)) (units : List Nat) (single : Bool) (b : Bytes)
    (uid fc : Nat) (data : Bytes) (hn : NoEnd (binBody uid fc data)) :
    EndsBrace (feed binaryStep decode units single b (binFrame uid fc data)).2 ∧
    (NoRaise (feed binaryStep decode units single b (binFrame uid fc data)).1 →
      (feed binaryStep decode units single b (binFrame uid fc data)).2 = []) := by
  have hlast : (Impl.computeCRC ([uid, fc] ++ data) % 256) ≠ 0x7D := by
    have := hn (Impl.computeCRC ([uid, fc] ++ data) % 256) (by simp [binBody])
    exact this
  have hT : EndsBrace (b ++ binFrame uid fc data) := by
    right
    refine ⟨b ++ [0x7B] ++ [uid, fc] ++ data ++ [Impl.computeCRC ([uid, fc] ++ data) / 256],
      Impl.computeCRC ([uid, fc] ++ data) % 256, ?_, hlast⟩
    simp [binFrame, binBody]
  exact run_drains binaryStep decode units single EndsBrace binary_T_wait binary_T_skip binary_T_frame (Or.inl rfl)
    _ _ (Nat.lt_succ_self _) hT

/-- … hence every valid frame that arrives afterwards (one per read or several per read, any chunking) is
    delivered, in order, and the backlog returns to zero: a resynchronised receiver is a fresh receiver -/
theorem later_frames_delivered (F : Framing) (decode : Bytes → PyM (Option μ)) (units : List Nat) (single : Bool)
    (fs : List (VFrame μ)) (hfs : ∀ f ∈ fs, IsBuilt F decode units single f)
    (chunks : List Bytes) (hc : chunks.flatten = stream fs) :
    (feedAll (stepOf F) decode units single [] chunks).1.flatten =
        fs.map (fun f => Ev.deliver f.msg f.uid f.tid f.pid) ∧
    (feedAll (stepOf F) decode units single [] chunks).2 = [] :=
  C06.chunking_independent F decode units single fs hfs chunks hc

/-- ASCII, put together: noise `b`, then a valid frame `f0`, then valid frames `fs` one per read — all of `fs`
    are delivered, whatever `b` was -/
theorem ascii_never_deaf (decode : Bytes → PyM (Option μ)) (units : List Nat) (single : Bool) (b : Bytes)
    (uid fc : Nat) (data : Bytes)
    (fs : List (VFrame μ)) (hfs : ∀ f ∈ fs, IsBuilt .ascii decode units single f)
    (hnr : NoRaise (feed asciiStep decode units single b (asciiFrame uid fc data)).1) :
    (feedAll asciiStep decode units single b (asciiFrame uid fc data :: fs.map (·.bytes))).1.flatten =
      (feed asciiStep decode units single b (asciiFrame uid fc data)).1 ++
        fs.map (fun f => Ev.deliver f.msg f.uid f.tid f.pid) ∧
    (feedAll asciiStep decode units single b (asciiFrame uid fc data :: fs.map (·.bytes))).2 = [] := by
  have h0 := (ascii_resync decode units single b uid fc data).2 hnr
  have h1 := later_frames_delivered .ascii decode units single fs hfs (fs.map (·.bytes)) rfl
  simp only [feedAll, h0, List.flatten_cons]
  exact ⟨by rw [show stepOf .ascii = asciiStep from rfl] at h1; rw [h1.1], by
    rw [show stepOf .ascii = asciiStep from rfl] at h1; exact h1.2⟩

/-! ### RTU -/

/-- the RTU receiver never skips: it waits, delivers a frame or flushes -/
theorem rtu_step_kinds (rule : Nat → RtuRule) (buf : Bytes) (n : Nat) : rtuStep rule buf ≠ .skip n := by
  unfold rtuStep
  split
  · intro h; cases h
  · split
    · intro h; cases h
    · split
      · intro h; cases h
      · simp only []
        split <;> intro h <;> cases h

/-- server direction: the length oracle never asks for more than 268 bytes, so with 268 bytes buffered a
    decision (frame or flush) is taken — the backlog of a waiting receiver is below 268 bytes -/
theorem server_rule_cases (fc : Nat) :
    (∃ n, rtuRuleServer fc = .fixed n ∧ n ≤ 10) ∨ (∃ pos, rtuRuleServer fc = .byteCount pos ∧ pos ≤ 10) := by
  unfold rtuRuleServer
  split <;> simp

theorem rtu_server_decides (buf : Bytes) (hw : Bytes.WF buf) (hl : 268 ≤ buf.length) :
    rtuStep rtuRuleServer buf ≠ .wait := by
  have hsize : ∃ n, rtuSize rtuRuleServer buf = .ok n ∧ n ≤ 268 := by
    unfold rtuSize
    have h1 : buf[1]? = some buf[1] := List.getElem?_eq_getElem (by omega)
    rw [h1]
    simp only []
    rcases server_rule_cases buf[1] with ⟨n, hr, hn⟩ | ⟨pos, hr, hp⟩
    · rw [hr]; exact ⟨n, rfl, by omega⟩
    · rw [hr]
      have e : buf[pos]? = some buf[pos] := List.getElem?_eq_getElem (by omega)
      have hlt : buf[pos] < 256 := hw _ (List.getElem_mem _)
      simp only [e]
      exact ⟨_, rfl, by omega⟩
  obtain ⟨n, hn, hle⟩ := hsize
  unfold rtuStep
  rw [if_neg (by omega), hn]
  simp only []
  rw [if_neg (by omega)]
  split <;> intro h <;> cases h

/-- a frame recognised by the RTU receiver is at least two bytes long (so every iteration of the loop consumes) -/
theorem rtu_frame_len (rule : Nat → RtuRule) (buf : Bytes) (n : Nat) (pdu : Bytes) (uid tid pid : Nat)
    (h : rtuStep rule buf = .frame n pdu uid tid pid) : 2 ≤ n ∧ n ≤ buf.length := by
  unfold rtuStep at h
  split at h
  · cases h
  · split at h
    · cases h
    · split at h
      · cases h
      · simp only [] at h
        split at h
        · next hc => cases h; exact ⟨hc.1, by omega⟩
        · cases h

theorem wf_drop (buf : Bytes) (n : Nat) (h : Bytes.WF buf) : Bytes.WF (buf.drop n) :=
  fun b hb => h b (List.mem_of_mem_drop hb)

/-- server direction, run level, EVERY input: unless a decoder exception escaped from the call (the serial handler
    then resets the framer), the receive loop stops only on an empty buffer or on fewer than 268 buffered bytes -/
theorem rtu_server_run_backlog (decode : Bytes → PyM (Option μ)) (units : List Nat) (single : Bool)
    (fuel : Nat) (buf : Bytes) (hf : buf.length < fuel) (hw : Bytes.WF buf)
    (hn : NoRaise (run (rtuStep rtuRuleServer) decode units single fuel buf).1) :
    (run (rtuStep rtuRuleServer) decode units single fuel buf).2.length < 268 := by
  induction fuel generalizing buf with
  | zero => omega
  | succ fuel ih =>
    rw [run] at hn ⊢
    split at hn
    · next hs =>
      simp only [hs]
      by_cases hl : 268 ≤ buf.length
      · exact absurd hs (rtu_server_decides buf hw hl)
      · omega
    · next hs => simp [hs]
    · next n hs => exact absurd hs (rtu_step_kinds _ _ _)
    · next n pdu uid tid pid hs =>
      obtain ⟨h2, hle⟩ := rtu_frame_len _ _ _ _ _ _ _ hs
      have hlen : (buf.drop n).length < fuel := by simp only [List.length_drop]; omega
      simp only [hs]
      split at hn
      · next hv =>
        simp only [hv, if_true]
        split at hn
        · next e he => exact absurd rfl (hn (.raised e) (by simp) e)
        · next he => exact absurd rfl (hn (.raised .modbusIO) (by simp) .modbusIO)
        · next m he =>
          simp only [he]
          exact ih _ hlen (wf_drop _ _ hw) (fun e hm => hn e (List.mem_cons_of_mem _ hm))
      · next hv =>
        simp only [hv]
        exact ih _ hlen (wf_drop _ _ hw) hn

/-- … as a statement about `processIncomingPacket`: whatever is buffered and whatever arrives, in whatever chunking,
    the backlog after the call is below 268 bytes (the unconditional "backlog stays bounded" clause, server side) -/
theorem rtu_server_backlog_bounded (decode : Bytes → PyM (Option μ)) (units : List Nat) (single : Bool)
    (buf chunk : Bytes) (hw : Bytes.WF (buf ++ chunk))
    (hn : NoRaise (feed (rtuStep rtuRuleServer) decode units single buf chunk).1) :
    (feed (rtuStep rtuRuleServer) decode units single buf chunk).2.length < 268 :=
  rtu_server_run_backlog decode units single _ _ (Nat.lt_succ_self _) hw hn

def _root_.Pymodbus.Framer.Step.isFrame : Step → Bool
  | .frame .. => true
  | _ => false

/-- the hypothesis RTU needs (no delimiters): along the reads `cs`, the window that starts at the head of the noise
    `b` never passes the CRC ("no false frame starts in the garbage"; probability about 2^-16 per window, evaluated
    and counted by the harness on every generated case) -/
def NoFalseFrame (rule : Nat → RtuRule) : Bytes → List Bytes → Prop
  | _, [] => True
  | b, c :: cs => (rtuStep rule (b ++ c)).isFrame = false ∧ NoFalseFrame rule (b ++ c) cs

instance instDecNoFalseFrame (rule : Nat → RtuRule) : (b : Bytes) → (cs : List Bytes) → Decidable (NoFalseFrame rule b cs)
  | _, [] => isTrue trivial
  | b, c :: cs =>
    have := instDecNoFalseFrame rule (b ++ c) cs
    by unfold NoFalseFrame; exact inferInstance

/-- one read on top of noise: nothing is delivered, and the receiver either keeps waiting (buffer = noise + read,
    still shorter than 268 bytes) or has flushed (empty buffer) -/
theorem rtu_noise_read (decode : Bytes → PyM (Option μ)) (units : List Nat) (single : Bool) (b c : Bytes)
    (hnf : (rtuStep rtuRuleServer (b ++ c)).isFrame = false) (hw : Bytes.WF (b ++ c)) :
    (feed (rtuStep rtuRuleServer) decode units single b c = ([], b ++ c) ∧ (b ++ c).length < 268) ∨
    feed (rtuStep rtuRuleServer) decode units single b c = ([], []) := by
  unfold feed
  rw [run]
  split
  · next hs =>
    left
    refine ⟨rfl, ?_⟩
    by_cases hl : 268 ≤ (b ++ c).length
    · exact absurd hs (rtu_server_decides _ hw hl)
    · omega
  · right; rfl
  · next n hs => exact absurd hs (rtu_step_kinds _ _ _)
  · next n pdu uid tid pid hs => rw [hs] at hnf; cases hnf

/-- RTU, server direction, resynchronisation: after noise `b` on which the receiver waits, ANY traffic `cs` — valid or
    not, in any chunking — that brings the total to 268 bytes makes the receiver flush, unless a false frame starts
    in the noise: some prefix of the reads ends with an empty buffer and nothing delivered before.  From there
    `later_frames_delivered` applies: every later valid frame is delivered.  (What is lost is everything up to the
    END of the read that triggers the flush — see `rtu_flush_discards_read_counterexample`.) -/
theorem rtu_server_resync (decode : Bytes → PyM (Option μ)) (units : List Nat) (single : Bool) (b : Bytes)
    (cs : List Bytes) (hnf : NoFalseFrame rtuRuleServer b cs) (hb : b.length < 268) (hw : Bytes.WF (b ++ cs.flatten))
    (hl : 268 ≤ (b ++ cs.flatten).length) :
    ∃ k, k ≤ cs.length ∧
      feedAll (rtuStep rtuRuleServer) decode units single b (cs.take k) = (List.replicate k [], []) := by
  induction cs generalizing b with
  | nil => simp at hl; omega
  | cons c cs ih =>
    have hw1 : Bytes.WF (b ++ c) := fun x hx => hw x (by
      simp only [List.flatten_cons, List.mem_append] at hx ⊢
      rcases hx with h | h
      · exact Or.inl h
      · exact Or.inr (Or.inl h))
    rcases rtu_noise_read decode units single b c hnf.1 hw1 with ⟨he, hlt⟩ | he
    · obtain ⟨k, hk, hfa⟩ := ih (b ++ c) hnf.2 hlt
        (by simpa [List.append_assoc] using hw) (by simpa [List.append_assoc] using hl)
      refine ⟨k + 1, by simp; omega, ?_⟩
      simp only [List.take_succ_cons, feedAll, he, hfa, List.replicate_succ]
    · refine ⟨1, by simp, ?_⟩
      simp [feedAll, he]

/-- the whole RTU statement, server side: noise, then reads totalling 268 bytes (no false frame), then ANY valid
    frames `fs` in ANY chunking `later`: all of `fs` are delivered, in order, and the backlog ends at zero -/
theorem rtu_server_never_deaf (decode : Bytes → PyM (Option μ)) (units : List Nat) (single : Bool) (b : Bytes)
    (cs : List Bytes) (hnf : NoFalseFrame rtuRuleServer b cs) (hb : b.length < 268) (hw : Bytes.WF (b ++ cs.flatten))
    (hl : 268 ≤ (b ++ cs.flatten).length)
    (fs : List (VFrame μ)) (hfs : ∀ f ∈ fs, IsBuilt (.rtu rtuRuleServer) decode units single f)
    (later : List Bytes) (hc : later.flatten = stream fs) :
    ∃ k, k ≤ cs.length ∧
      (feedAll (rtuStep rtuRuleServer) decode units single b (cs.take k)).1.flatten = [] ∧
      (feedAll (rtuStep rtuRuleServer) decode units single
        (feedAll (rtuStep rtuRuleServer) decode units single b (cs.take k)).2 later).1.flatten =
          fs.map (fun f => Ev.deliver f.msg f.uid f.tid f.pid) ∧
      (feedAll (rtuStep rtuRuleServer) decode units single
        (feedAll (rtuStep rtuRuleServer) decode units single b (cs.take k)).2 later).2 = [] := by
  obtain ⟨k, hk, hfa⟩ := rtu_server_resync decode units single b cs hnf hb hw hl
  refine ⟨k, hk, ?_, ?_⟩
  · rw [hfa]; simp
  · rw [hfa]
    exact later_frames_delivered (.rtu rtuRuleServer) decode units single fs hfs later hc

/-- Non-vacuity of `rtu_server_resync`: the noise head of the known finding, 30 valid requests in one read, 50 in the next -/
example : NoFalseFrame rtuRuleServer [1, 16, 0, 0, 0, 100, 247]
    [(List.replicate 30 [1, 3, 0, 1, 0, 1, 213, 202]).flatten, (List.replicate 50 [1, 3, 0, 1, 0, 1, 213, 202]).flatten] := by
  decide +kernel

/-- a flush leaves an empty buffer: the next frame boundary is a synchronisation point -/
theorem rtu_flush_resync (rule : Nat → RtuRule) (decode : Bytes → PyM (Option μ)) (units : List Nat) (single : Bool)
    (buf : Bytes) (fuel : Nat) (h : rtuStep rule buf = .flush) :
    run (rtuStep rule) decode units single (fuel + 1) buf = ([], []) := by
  simp [run, h]

/-- known finding `rtu-client-oracle-unbounded`: in the client direction four bytes of noise can make the
    receiver wait for 65 541 bytes (FIFO rule), far more than two maximum-size frames -/
theorem rtu_client_counterexample :
    rtuSize rtuRuleClient [1, 24, 255, 255] = .ok 65541 ∧
    rtuStep rtuRuleClient ([1, 24, 255, 255] ++ List.replicate 60 0) = .wait := ⟨rfl, rfl⟩

/-- known finding `rtu-flush-discards-read` in the model (either direction; here the server's): 7 bytes of noise
    announce a 256-byte frame; 240 bytes of valid requests arrive (the receiver waits: 247 < 256); then ONE read
    brings 50 more requests (400 bytes).  The window fails its CRC and the flush takes the whole buffer: nothing of
    that read is delivered — not even its last 16 requests, which start after 512 bytes of valid traffic.  The
    receiver is empty (aligned) afterwards. -/
theorem rtu_flush_discards_read_counterexample :
    let dec : Bytes → PyM (Option Bytes) := fun pdu => .ok (some pdu)
    let req : Bytes := [1, 3, 0, 1, 0, 1, 213, 202]
    let noise : Bytes := [1, 16, 0, 0, 0, 100, 247]
    let r1 := feed (rtuStep rtuRuleServer) dec [1] false noise ((List.replicate 30 req).flatten)
    let r2 := feed (rtuStep rtuRuleServer) dec [1] false r1.2 ((List.replicate 50 req).flatten)
    let r3 := feed (rtuStep rtuRuleServer) dec [1] false r2.2 req
    r1.1 = [] ∧ r1.2.length = 247 ∧ r2.1 = [] ∧ r2.2 = [] ∧ r3.1.length = 1 ∧ r3.2 = [] := by
  decide +kernel

/-- Non-vacuity: noise that looks like the start of a frame, then a valid frame, then the receiver is empty. -/
example : (feed asciiStep (fun pdu => (.ok (some pdu) : PyM (Option Bytes))) [1] false [58, 48, 49, 13]
    (asciiFrame 1 3 [0, 0, 0, 2])).2 = [] := by rfl

end Pymodbus.Props.C11
