/-
  Checksum theory for C03 (frames carry the specified checksum) and C07 (corrupted frames are
  not delivered): the table-driven `computeCRC` of pymodbus/utilities.py is the bit-serial
  CRC-16/MODBUS with its bytes exchanged, `computeLRC` is the two's-complement byte sum, frames
  built the way the RTU / ASCII framers build them pass the framers' checks, and the error
  classes a CRC-16 with generator x^16 + x^15 + x^2 + 1 is specified to detect are detected:
  single-bit, bursts up to 16 bits, every odd number of bit errors, and double-bit errors in
  messages of up to 4095 bytes.

  Property theorems only; helper lemmas live in Pymodbus/Lemmas/Checksum.lean.
  Bits are numbered in transmission order: bit `t` is bit `t % 8` of byte `t / 8`
  (`Spec.bitAt`); `Spec.xorBytes a e` is the message `a` hit by the error pattern `e`,
  `Spec.flipBit a t` is `a` with bit `t` inverted.
-/
import Pymodbus.Lemmas.Checksum
namespace Pymodbus.Props.Checksum
open Pymodbus Pymodbus.Spec Pymodbus.Checksum

/-! ## The implementation computes the specified checksums -/

/-- Every entry of the generated lookup table is "8 shift steps applied to the index". -/
theorem crc_table_entries : ∀ i, i < 256 → Impl.crcTable[i]? = some (crcBits 8 i) := by
  intro i hi
  simp [Impl.crcTable, hi, crcTableEntry_spec i hi]

theorem crc_table_length : Impl.crcTable.length = 256 := by simp [Impl.crcTable]

/-- The same fact by brute force over the whole finite table (independent of the loop
    invariant used above). -/
theorem crc_table_entries_decide :
    ∀ i : Fin 256, Impl.crcTable.getD i.val 0 = crcBits 8 i.val := by decide +kernel

/-- Table-driven `computeCRC` = bit-serial CRC-16/MODBUS, bytes exchanged — all messages. -/
theorem crc_eq_spec (bs : Bytes) (h : Bytes.WF bs) :
    Impl.computeCRC bs = swap16 (crc16 bs) := computeCRC_spec bs h

example : Bytes.WF [1, 3, 0, 0, 0, 10] := by decide

/-- `computeCRC` is a 16-bit word, so `struct.pack('>H', …)` cannot fail. -/
theorem crc_lt (bs : Bytes) : Impl.computeCRC bs < 65536 := by
  unfold Impl.computeCRC; simp only []; rw [swap_spec]; exact swap16_lt _

/-- `struct.pack('>H', computeCRC(data))` puts the LOW byte of the CRC register first, as the
    Modbus serial line specification demands. -/
theorem crc_wire_order (bs : Bytes) (h : Bytes.WF bs) :
    packH (Impl.computeCRC bs) = .ok (crcWire bs) := by
  have hlt := crc16_lt bs h
  unfold packH
  rw [if_pos (crc_lt bs), crc_eq_spec bs h]
  unfold be16 swap16 crcWire
  have h1 : (crc16 bs % 256 * 256 + crc16 bs / 256 % 256) / 256 = crc16 bs % 256 := by omega
  have h2 : (crc16 bs % 256 * 256 + crc16 bs / 256 % 256) % 256 = crc16 bs / 256 := by omega
  rw [h1, h2]

/-- `computeLRC` = two's complement of the byte sum — all inputs. -/
theorem lrc_eq_spec (bs : Bytes) : Impl.computeLRC bs = lrc bs := computeLRC_spec bs

/-- the LRC is one byte (printed as two hex digits by the ASCII framer) -/
theorem lrc_lt (bs : Bytes) : Impl.computeLRC bs < 256 := by
  rw [lrc_eq_spec]; exact Pymodbus.Checksum.lrc_lt bs

/-! ## Linearity -/

/-- The CRC register after `a` hit by an error pattern `e` of the same length equals the
    register after `a` XOR the register after `e` started from 0 (for any two start values). -/
theorem crc_linear (s t : Nat) (a e : Bytes) (hlen : e.length = a.length) :
    crcReg (s ^^^ t) (xorBytes a e) = crcReg s a ^^^ crcReg t e := crcReg_xor s t a e hlen

/-- in particular for the Modbus start value -/
theorem crc16_linear (a e : Bytes) (hlen : e.length = a.length) :
    crc16 (xorBytes a e) = crc16 a ^^^ crcReg 0 e := crc16_xor a e hlen

/-- An error pattern is detected by `computeCRC` exactly when it leaves a non-zero register. -/
theorem crc_detects_iff (a e : Bytes) (ha : Bytes.WF a) (he : Bytes.WF e)
    (hlen : e.length = a.length) :
    Impl.computeCRC (xorBytes a e) ≠ Impl.computeCRC a ↔ crcReg 0 e ≠ 0 := by
  constructor
  · intro h hz
    apply h
    rw [computeCRC_spec _ (wf_xorBytes a e ha he), computeCRC_spec _ ha, crc16_xor a e hlen, hz,
      Nat.xor_zero]
  · exact detect a e ha he hlen

/-! ## Detection -/

/-- Flipping any single bit of a message of any length changes the CRC. -/
theorem crc_detects_single_bit (a : Bytes) (t : Nat) (ha : Bytes.WF a) (ht : t < 8 * a.length) :
    Impl.computeCRC (flipBit a t) ≠ Impl.computeCRC a := by
  apply detect a _ ha (wf_bitErr _ _) (length_bitErr _ _)
  rw [crcReg_bitErr _ _ ht]
  exact crcBits_ne_zero _ (by decide) (by decide)

example : Bytes.WF [1, 3] ∧ 9 < 8 * [1, 3].length := by decide

/-- Any non-zero error pattern whose flipped bits all lie within 16 consecutive bit positions
    (`t0 ≤ t < t0 + 16`) is detected, whatever the message and its length. -/
theorem crc_detects_burst16 (a e : Bytes) (ha : Bytes.WF a) (he : Bytes.WF e)
    (hlen : e.length = a.length) (t0 : Nat) (hne : ∃ t, bitAt e t = true)
    (hb : ∀ t, bitAt e t = true → t0 ≤ t ∧ t < t0 + 16) :
    Impl.computeCRC (xorBytes a e) ≠ Impl.computeCRC a :=
  detect a e ha he hlen (crcReg_burst_ne_zero e he t0 hne hb)

/-- Any error pattern with an odd number of flipped bits is detected (the generator polynomial
    x^16 + x^15 + x^2 + 1 has the factor x + 1), whatever the message and its length. -/
theorem crc_detects_odd (a e : Bytes) (ha : Bytes.WF a) (he : Bytes.WF e)
    (hlen : e.length = a.length) (hw : weight e % 2 = 1) :
    Impl.computeCRC (xorBytes a e) ≠ Impl.computeCRC a :=
  detect a e ha he hlen (crcReg_zero_ne_zero_of_odd e hw)

/-- hence any three bit flips (positions need not even be distinct) are detected -/
theorem crc_detects_triple_bit (a : Bytes) (t1 t2 t3 : Nat) (ha : Bytes.WF a)
    (h1 : t1 < 8 * a.length) (h2 : t2 < 8 * a.length) (h3 : t3 < 8 * a.length) :
    Impl.computeCRC (flipBit (flipBit (flipBit a t1) t2) t3) ≠ Impl.computeCRC a := by
  have l1 : (flipBit a t1).length = a.length := length_xorBytes _ _ (length_bitErr _ _)
  have l2 : (flipBit (flipBit a t1) t2).length = a.length := by
    unfold flipBit at l1 ⊢; rw [length_xorBytes _ _ (by rw [length_bitErr]), l1]
  have e : flipBit (flipBit (flipBit a t1) t2) t3 =
      xorBytes a (xorBytes (bitErr a.length t1) (xorBytes (bitErr a.length t2) (bitErr a.length t3))) := by
    unfold flipBit at l1 l2 ⊢
    rw [l2, l1, xorBytes_assoc, xorBytes_assoc]
  rw [e]
  have len23 : (xorBytes (bitErr a.length t2) (bitErr a.length t3)).length = a.length := by
    rw [length_xorBytes _ _ (by rw [length_bitErr, length_bitErr]), length_bitErr]
  apply crc_detects_odd a _ ha
    (wf_xorBytes _ _ (wf_bitErr _ _) (wf_xorBytes _ _ (wf_bitErr _ _) (wf_bitErr _ _)))
  · rw [length_xorBytes _ _ (by rw [len23, length_bitErr]), length_bitErr]
  · have w1 := weight_bitErr_odd a.length t1 h1
    have w2 := weight_bitErr_odd a.length t2 h2
    have w3 := weight_bitErr_odd a.length t3 h3
    have x1 := weight_xor (bitErr a.length t1) (xorBytes (bitErr a.length t2) (bitErr a.length t3))
      (by rw [len23, length_bitErr])
    have x2 := weight_xor (bitErr a.length t2) (bitErr a.length t3) (by rw [length_bitErr, length_bitErr])
    omega

/-- Flipping any two different bits of a message of at most 4095 bytes changes the CRC
    (x has order 32767 modulo the generator; 8 · 4095 = 32760 ≤ 32767). -/
theorem crc_detects_double_bit (a : Bytes) (t1 t2 : Nat) (ha : Bytes.WF a)
    (hlen : a.length ≤ 4095) (h1 : t1 < 8 * a.length) (h2 : t2 < 8 * a.length) (hne : t1 ≠ t2) :
    Impl.computeCRC (flipBit (flipBit a t1) t2) ≠ Impl.computeCRC a := by
  have l1 : (flipBit a t1).length = a.length := length_xorBytes _ _ (length_bitErr _ _)
  have e : flipBit (flipBit a t1) t2 =
      xorBytes a (xorBytes (bitErr a.length t1) (bitErr a.length t2)) := by
    unfold flipBit at l1 ⊢
    rw [l1, xorBytes_assoc]
  rw [e]
  apply detect a _ ha (wf_xorBytes _ _ (wf_bitErr _ _) (wf_bitErr _ _))
    (by rw [length_xorBytes _ _ (by rw [length_bitErr, length_bitErr]), length_bitErr])
  rcases Nat.lt_or_gt_of_ne hne with h | h
  · exact two_bit_reg_ne_zero _ t1 t2 h h2 (by omega)
  · rw [xorBytes_comm]
    exact two_bit_reg_ne_zero _ t2 t1 h h1 (by omega)

example : Bytes.WF [0x11, 0x22, 0x33] ∧ [0x11, 0x22, 0x33].length ≤ 4095 ∧ (3 : Nat) ≠ 20 := by decide

/-- more generally: any two flipped bits less than 32767 positions apart, any message length -/
theorem crc_detects_double_bit_dist (a : Bytes) (t1 t2 : Nat) (ha : Bytes.WF a)
    (h12 : t1 < t2) (h2 : t2 < 8 * a.length) (hd : t2 - t1 ≤ 32766) :
    Impl.computeCRC (flipBit (flipBit a t1) t2) ≠ Impl.computeCRC a := by
  have l1 : (flipBit a t1).length = a.length := length_xorBytes _ _ (length_bitErr _ _)
  have e : flipBit (flipBit a t1) t2 =
      xorBytes a (xorBytes (bitErr a.length t1) (bitErr a.length t2)) := by
    unfold flipBit at l1 ⊢
    rw [l1, xorBytes_assoc]
  rw [e]
  exact detect a _ ha (wf_xorBytes _ _ (wf_bitErr _ _) (wf_bitErr _ _))
    (by rw [length_xorBytes _ _ (by rw [length_bitErr, length_bitErr]), length_bitErr])
    (two_bit_reg_ne_zero _ t1 t2 h12 h2 hd)

/-- The bound is sharp (a property of CRC-16, not a defect of the code): two flipped bits
    exactly 32767 positions apart are NOT detected, in any message long enough (≥ 4096 bytes;
    Modbus serial frames are at most 256 bytes). -/
theorem crc_double_bit_limit (a : Bytes) (t1 : Nat) (ha : Bytes.WF a)
    (h2 : t1 + 32767 < 8 * a.length) :
    Impl.computeCRC (flipBit (flipBit a t1) (t1 + 32767)) = Impl.computeCRC a := by
  have l1 : (flipBit a t1).length = a.length := length_xorBytes _ _ (length_bitErr _ _)
  have e : flipBit (flipBit a t1) (t1 + 32767) =
      xorBytes a (xorBytes (bitErr a.length t1) (bitErr a.length (t1 + 32767))) := by
    unfold flipBit at l1 ⊢
    rw [l1, xorBytes_assoc]
  have hw := wf_xorBytes _ _ (wf_bitErr a.length t1) (wf_bitErr a.length (t1 + 32767))
  have hl : (xorBytes (bitErr a.length t1) (bitErr a.length (t1 + 32767))).length = a.length := by
    rw [length_xorBytes _ _ (by rw [length_bitErr, length_bitErr]), length_bitErr]
  rw [e, computeCRC_spec _ (wf_xorBytes a _ ha hw), computeCRC_spec _ ha, crc16_xor a _ hl,
    two_bit_reg_eq_zero _ _ h2, Nat.xor_zero]

/-- Changing exactly one byte of a message changes the LRC. -/
theorem lrc_detects_single_byte (a : Bytes) (k v : Nat) (ha : Bytes.WF a) (hk : k < a.length)
    (hv : v < 256) (hne : v ≠ a[k]) :
    Impl.computeLRC (a.set k v) ≠ Impl.computeLRC a := by
  rw [lrc_eq_spec, lrc_eq_spec]
  have hs := sum_set a k v hk
  have hak : a[k] < 256 := ha _ (List.getElem_mem hk)
  unfold lrc
  omega

example : Bytes.WF [1, 2, 3] ∧ (1 : Nat) < [1, 2, 3].length ∧ (7 : Nat) < 256 ∧ (7 : Nat) ≠ [1, 2, 3][1] := by
  decide

/-! ## Frames built by the framers pass the framers' checks -/

/-- RTU: `packet = data + struct.pack('>H', computeCRC(data))` (buildPacket) always packs, and
    `checkFrame`, which takes `data = frame[:n-2]` and the big-endian word
    `(frame[n-2] << 8) + frame[n-1]`, accepts it.  (Holds for every `bs`; no well-formedness
    hypothesis is needed.) -/
theorem append_crc_checks (bs : Bytes) :
    ∃ tail, packH (Impl.computeCRC bs) = .ok tail ∧ tail.length = 2 ∧ Bytes.WF tail ∧
      let frame := bs ++ tail
      Impl.checkCRC (frame.take (frame.length - 2))
        ((frame.getD (frame.length - 2) 0 <<< 8) + frame.getD (frame.length - 1) 0) = true := by
  have hlt := crc_lt bs
  refine ⟨be16 (Impl.computeCRC bs), ?_, rfl, ?_, ?_⟩
  · unfold packH; rw [if_pos hlt]
  · intro b hb
    simp only [be16, List.mem_cons, List.not_mem_nil, or_false] at hb
    rcases hb with hb | hb <;> omega
  · simp only [be16, List.length_append, List.length_cons, List.length_nil, Nat.zero_add,
      Nat.reduceAdd, Nat.add_sub_cancel]
    rw [List.take_left' rfl, List.getD_eq_getElem?_getD, List.getD_eq_getElem?_getD,
      List.getElem?_append_right (Nat.le_refl _), List.getElem?_append_right (by omega)]
    simp only [Nat.sub_self, List.getElem?_cons_zero, Option.getD_some,
      show bs.length + 2 - 1 - bs.length = 1 by omega, List.getElem?_cons_succ]
    simp only [Impl.checkCRC, beq_iff_eq, Nat.shiftLeft_eq]
    omega

/-- the classic residue form of the same fact, on the specification side: running the register
    over data followed by its CRC (low byte first) ends in 0 -/
theorem crc_residue (bs : Bytes) : crcReg 0xFFFF (bs ++ crcWire bs) = 0 :=
  crcReg_residue 0xFFFF bs

/-- ASCII: `buildPacket` computes `computeLRC(encoded + header)` while `checkFrame` checks the
    decoded bytes in frame order `header + encoded`; the check accepts (the sum does not depend
    on the order), and message plus LRC sum to 0 modulo 256. -/
theorem append_lrc_checks (hdr enc : Bytes) :
    Impl.checkLRC (hdr ++ enc) (Impl.computeLRC (enc ++ hdr)) = true ∧
    ((hdr ++ enc).sum + Impl.computeLRC (enc ++ hdr)) % 256 = 0 := by
  have hs : (enc ++ hdr).sum = (hdr ++ enc).sum := by rw [sum_append, sum_append, Nat.add_comm]
  have e : Impl.computeLRC (enc ++ hdr) = Impl.computeLRC (hdr ++ enc) := by
    rw [lrc_eq_spec, lrc_eq_spec]; unfold lrc; rw [hs]
  refine ⟨by simp [Impl.checkLRC, e], ?_⟩
  rw [e, lrc_eq_spec]
  exact lrc_residue _

/-- and a frame whose LRC byte is anything else is rejected -/
theorem lrc_check_iff (bs : Bytes) (c : Nat) : Impl.checkLRC bs c = true ↔ c = lrc bs := by
  simp only [Impl.checkLRC, beq_iff_eq, lrc_eq_spec]
  exact eq_comm

theorem crc_check_iff (bs : Bytes) (h : Bytes.WF bs) (c : Nat) :
    Impl.checkCRC bs c = true ↔ c = swap16 (crc16 bs) := by
  simp only [Impl.checkCRC, beq_iff_eq, crc_eq_spec bs h]
  exact eq_comm

end Pymodbus.Props.Checksum
