/-
  C04 — The server executes data-access requests as a Modbus register file.
  `Impl.serverExecute` (model of `request.execute(context)` + the front-ends' catch-all) refines
  `RegisterFile.step` for every request, every context layout, every history.
-/
import Pymodbus.Lemmas.Exec
import Pymodbus.Props.C18
namespace Pymodbus.Props.C04
open Pymodbus StoreSpec RegisterFile Props.C18

theorem lift_match (s : SlaveCtx) (R : Resp) (e : PyM (SlaveCtx × Resp)) :
    (match e with
      | .ok x => (absMem x.1, x.2)
      | .error _ => (absMem s, R)) =
    (absMem (match e with | .ok x => x | .error _ => (s, R)).1,
      (match e with | .ok x => x | .error _ => (s, R)).2) := by
  cases e <;> rfl

theorem access_reject (L : Layout) (m : Mem) (fc : Nat) (rs : List (Int × Nat)) (eff) :
    access L m fc false rs eff = (m, .exception fc 3) := rfl

/-- One request: same response, same abstract memory afterwards. -/
theorem exec_refines (s : SlaveCtx) (r : Req) (hr : InScope r) :
    RegisterFile.step (layoutOf s) (absMem s) r =
      (absMem (Impl.serverExecute s r).1, (Impl.serverExecute s r).2) := by
  cases r <;> simp only [InScope] at hr
  case readCoils a n =>
    have := readN_refines s 1 2000 a n .readCoils .c (by decide) rfl
    simp only [RegisterFile.step, Impl.serverExecute, Impl.execute, Req.fc]; rw [this]
    exact lift_match _ _ _
  case readDiscrete a n =>
    have := readN_refines s 2 2000 a n .readDiscrete .d (by decide) rfl
    simp only [RegisterFile.step, Impl.serverExecute, Impl.execute, Req.fc]; rw [this]
    exact lift_match _ _ _
  case readHolding a n =>
    have := readN_refines s 3 125 a n .readHolding .h (by decide) rfl
    simp only [RegisterFile.step, Impl.serverExecute, Impl.execute, Req.fc]; rw [this]
    exact lift_match _ _ _
  case readInput a n =>
    have := readN_refines s 4 125 a n .readInput .i (by decide) rfl
    simp only [RegisterFile.step, Impl.serverExecute, Impl.execute, Req.fc]; rw [this]
    exact lift_match _ _ _
  case writeCoil a w =>
    simp only [RegisterFile.step, Impl.serverExecute, Impl.execute, Req.fc]
    by_cases hw : w = 0xFF00 ∨ w = 0
    · have := writeOne_refines s 5 a (bit (w = 0xFF00)) (.writeCoil a) .c (by decide) rfl
      rw [decide_eq_true hw, if_neg (not_not_intro hw)]
      simp only [b2n, bit] at this ⊢
      rw [this]
      exact lift_match _ _ _
    · rw [decide_eq_false hw, if_pos hw, access_reject]; rfl
  case writeRegister a v =>
    simp only [RegisterFile.step, Impl.serverExecute, Impl.execute, Req.fc]
    by_cases hv : v ≤ 0xFFFF
    · have := writeOne_refines s 6 a v (.writeRegister a) .h (by decide) rfl
      rw [decide_eq_true hv, if_neg (not_not_intro hv), this]
      exact lift_match _ _ _
    · rw [decide_eq_false hv, if_pos hv, access_reject]; rfl
  case writeCoils a cnt bc vs =>
    simp only [RegisterFile.step, Impl.serverExecute, Impl.execute, Req.fc]
    by_cases hok : 1 ≤ cnt ∧ cnt ≤ 1968 ∧ bc = (cnt + 7) / 8 ∧ vs.length = cnt
    · obtain ⟨h1, h2, h3, h4⟩ := hok
      subst h4
      rw [decide_eq_true (⟨h1, h2, h3, rfl⟩ : 1 ≤ vs.length ∧ vs.length ≤ 1968 ∧ bc = (vs.length + 7) / 8 ∧ vs.length = vs.length)]
      rw [if_neg (by omega), if_neg (by omega), if_neg (by omega)]
      have := writeN_refines s 15 a (vs.map bit) (.writeCoils a vs.length) .c (by decide) rfl (by simp; omega)
      simp only [List.length_map] at this
      have hb : List.map b2n vs = List.map bit vs := by
        apply List.map_congr_left; intro x _; cases x <;> rfl
      rw [hb, this]
      exact lift_match _ _ _
    · rw [decide_eq_false hok, access_reject]
      by_cases c1 : ¬ (1 ≤ vs.length ∧ vs.length ≤ 0x7b0)
      · rw [if_pos c1]; rfl
      · rw [if_neg c1]
        by_cases c2 : bc ≠ (vs.length + 7) / 8
        · rw [if_pos c2]; rfl
        · rw [if_neg c2]
          have c3 : cnt ≠ vs.length := by omega
          rw [if_pos c3]; rfl
  case writeRegisters a cnt bc vs =>
    simp only [RegisterFile.step, Impl.serverExecute, Impl.execute, Req.fc]
    by_cases hok : 1 ≤ cnt ∧ cnt ≤ 123 ∧ bc = 2 * cnt ∧ vs.length = cnt
    · obtain ⟨h1, h2, h3, h4⟩ := hok
      subst h4
      rw [decide_eq_true (⟨h1, h2, h3, rfl⟩ : 1 ≤ vs.length ∧ vs.length ≤ 123 ∧ bc = 2 * vs.length ∧ vs.length = vs.length)]
      rw [if_neg (by omega), if_neg (by omega), if_neg (by omega)]
      rw [writeN_refines s 16 a vs (.writeRegisters a vs.length) .h (by decide) rfl (by omega)]
      exact lift_match _ _ _
    · rw [decide_eq_false hok, access_reject]
      by_cases c1 : ¬ (1 ≤ cnt ∧ cnt ≤ 0x7b)
      · rw [if_pos c1]; rfl
      · rw [if_neg c1]
        by_cases c2 : bc ≠ cnt * 2
        · rw [if_pos c2]; rfl
        · rw [if_neg c2]
          have c3 : vs.length ≠ cnt := by omega
          rw [if_pos c3]; rfl
  case maskWrite a am om =>
    simp only [RegisterFile.step, Impl.serverExecute, Impl.execute, Req.fc]
    by_cases hok : am ≤ 0xFFFF ∧ om ≤ 0xFFFF
    · rw [decide_eq_true hok, if_neg (by omega), if_neg (by omega), maskWrite_refines s a am om hok.1]
      exact lift_match _ _ _
    · rw [decide_eq_false hok, access_reject]
      by_cases c1 : ¬ (am ≤ 0xFFFF)
      · rw [if_pos c1]; rfl
      · rw [if_neg c1]
        have c2 : ¬ (om ≤ 0xFFFF) := by omega
        rw [if_pos c2]; rfl
  case readWrite ra rn wa wn wbc wregs =>
    simp only [RegisterFile.step, Impl.serverExecute, Impl.execute, Req.fc]
    by_cases hok : 1 ≤ rn ∧ rn ≤ 125 ∧ 1 ≤ wn ∧ wn ≤ 121 ∧ wbc = 2 * wn ∧ wregs.length = wn
    · obtain ⟨h1, h2, h3, h4, h5, h6⟩ := hok
      subst h6
      rw [decide_eq_true (⟨h1, h2, h3, h4, h5, rfl⟩ : 1 ≤ rn ∧ rn ≤ 125 ∧ 1 ≤ wregs.length ∧ wregs.length ≤ 121 ∧
          wbc = 2 * wregs.length ∧ wregs.length = wregs.length)]
      rw [if_neg (by omega), if_neg (by omega), if_neg (by omega), if_neg (by omega)]
      rw [readWrite_refines s ra rn wa wregs h1 h3]
      exact lift_match _ _ _
    · rw [decide_eq_false hok, access_reject]
      by_cases c1 : ¬ (1 ≤ rn ∧ rn ≤ 0x7d)
      · rw [if_pos c1]; rfl
      · rw [if_neg c1]
        by_cases c2 : ¬ (1 ≤ wn ∧ wn ≤ 0x79)
        · rw [if_pos c2]; rfl
        · rw [if_neg c2]
          by_cases c3 : wbc ≠ wn * 2
          · rw [if_pos c3]; rfl
          · rw [if_neg c3]
            have c4 : wregs.length ≠ wn := by omega
            rw [if_pos c4]; rfl
  case illegalFunction fc =>
    simp [RegisterFile.step, Impl.serverExecute, Impl.execute, excIllegalFunction]

/-- The layout (table → block map, zero-mode, which blocks are broken) never changes. -/
theorem layout_preserved (s : SlaveCtx) (r : Req) : layoutOf (Impl.serverExecute s r).1 = layoutOf s := by
  unfold Impl.serverExecute
  cases h : Impl.execute s r with
  | error e => rfl
  | ok x => exact layoutOf_of_shape (execute_shape (s' := x.1) (resp := x.2) h)

/-- model of a server handling a request history on one unit context -/
def runImpl (s : SlaveCtx) : List Req → SlaveCtx × List Resp
  | [] => (s, [])
  | r :: rs => let x := Impl.serverExecute s r; let y := runImpl x.1 rs; (y.1, x.2 :: y.2)

def AllInScope : List Req → Prop
  | [] => True
  | r :: rs => InScope r ∧ AllInScope rs

/-- After ANY sequence of data-access requests the responses are those of the register file and the
    tables hold what the register file holds (induction on the history; no bound on its length). -/
theorem run_refines (s : SlaveCtx) (rs : List Req) (h : AllInScope rs) :
    RegisterFile.run (layoutOf s) (absMem s) rs = (absMem (runImpl s rs).1, (runImpl s rs).2) := by
  induction rs generalizing s with
  | nil => rfl
  | cons r rs ih =>
    obtain ⟨h1, h2⟩ := h
    simp only [RegisterFile.run, runImpl, exec_refines s r h1]
    have := ih (Impl.serverExecute s r).1 h2
    rw [layout_preserved] at this
    rw [this]

/-! ### histories in which the application resets the unit -/

theorem reset_blocks_get (s : SlaveCtx) (k : Nat) :
    s.reset.blocks[k]? = (s.blocks[k]?).map (fun b => if k = s.d ∨ k = s.c ∨ k = s.i ∨ k = s.h then b.reset else b) := by
  simp only [SlaveCtx.reset]
  by_cases hk : k < s.blocks.length
  · rw [List.getElem?_eq_getElem (by simp [hk]), List.getElem?_eq_getElem hk]
    simp
  · rw [List.getElem?_eq_none (by simp; omega), List.getElem?_eq_none (by omega)]
    rfl

/-- `ModbusSlaveContext.reset()` refines the register file's reset: same cells afterwards, same layout -/
theorem reset_refines (s : SlaveCtx) :
    absMem s.reset = (absMem s).reset (layoutOf s) ∧ layoutOf s.reset = layoutOf s := by
  constructor
  · funext k a
    have hL : (k = (layoutOf s).tbl .d ∨ k = (layoutOf s).tbl .c ∨ k = (layoutOf s).tbl .i ∨ k = (layoutOf s).tbl .h) ↔
        (k = s.d ∨ k = s.c ∨ k = s.i ∨ k = s.h) := Iff.rfl
    by_cases hk : k = s.d ∨ k = s.c ∨ k = s.i ∨ k = s.h
    · rw [show (absMem s).reset (layoutOf s) k a = ((absMem s) k a).map (fun _ => 0) from by
        simp only [Mem.reset]; rw [if_pos (hL.2 hk)]]
      simp only [absMem, reset_blocks_get]
      cases hb : s.blocks[k]? with
      | none => rfl
      | some b => simp only [Option.map_some, if_pos hk]; exact C18.reset_spec b a
    · rw [show (absMem s).reset (layoutOf s) k a = (absMem s) k a from by
        simp only [Mem.reset]; rw [if_neg (fun h => hk (hL.1 h))]]
      simp only [absMem, reset_blocks_get]
      cases hb : s.blocks[k]? with
      | none => rfl
      | some b => simp only [Option.map_some, if_neg hk]
  · simp only [layoutOf]
    congr 1
    funext k
    rw [reset_blocks_get]
    cases s.blocks[k]? <;> rfl

def runImplH (s : SlaveCtx) : List HOp → SlaveCtx × List Resp
  | [] => (s, [])
  | .req r :: rs => let x := Impl.serverExecute s r; let y := runImplH x.1 rs; (y.1, x.2 :: y.2)
  | .reset :: rs => runImplH s.reset rs

def AllInScopeH : List HOp → Prop
  | [] => True
  | .req r :: rs => InScope r ∧ AllInScopeH rs
  | .reset :: rs => AllInScopeH rs

/-- … and so does every history of data-access requests with application-level resets anywhere in between -/
theorem run_refines_with_resets (s : SlaveCtx) (ops : List HOp) (h : AllInScopeH ops) :
    RegisterFile.runH (layoutOf s) (absMem s) ops = (absMem (runImplH s ops).1, (runImplH s ops).2) := by
  induction ops generalizing s with
  | nil => rfl
  | cons op rs ih =>
    cases op with
    | req r =>
      obtain ⟨h1, h2⟩ := h
      simp only [RegisterFile.runH, runImplH, exec_refines s r h1]
      have := ih (Impl.serverExecute s r).1 h2
      rw [layout_preserved] at this
      rw [this]
    | reset =>
      simp only [RegisterFile.runH, runImplH]
      have := ih s.reset h
      rw [(reset_refines s).2, (reset_refines s).1] at this
      exact this

/-! ### what the register file guarantees (corollaries visible at the spec level) -/

/-- frame rule: a request changes no block other than the one its function code selects -/
theorem other_blocks_untouched (L : Layout) (m : Mem) (r : Req) (t : Table) (ht : tableOf r.fc = some t)
    (k : Nat) (hk : k ≠ L.tbl t) : (RegisterFile.step L m r).1 k = m k := by
  cases r <;> simp only [Req.fc] at ht <;>
    simp only [RegisterFile.step, access, effRead, effWrite, effMask, effReadWrite, ht] <;>
    (repeat' split) <;> simp_all [Mem.update]

/-- frame rule inside the block: cells outside the written range keep their value -/
theorem writeCells_outside (m : Cells) (a : Int) (vs : List Nat) (i : Int) (h : i < a ∨ a + vs.length ≤ i) :
    writeCells m a vs i = m i := by
  unfold writeCells; rw [if_neg (by omega)]

/-- read-your-writes inside the block -/
theorem writeCells_inside (m : Cells) (a : Int) (vs : List Nat) (k : Nat) (h : k < vs.length) :
    writeCells m a vs (a + k) = some vs[k] := by
  unfold writeCells
  rw [if_pos (by omega)]
  have : (a + (k : Int) - a).toNat = k := by omega
  rw [this, List.getElem?_eq_getElem h]

/-! ### algebra of writes inside a block (spec level; the block-level counterparts are C18.set_commute_disjoint etc.) -/
private theorem filterMap_congr' {α β : Type} (l : List α) (f g : α → Option β) (h : ∀ x ∈ l, f x = g x) :
    l.filterMap f = l.filterMap g := by
  induction l with
  | nil => rfl
  | cons x xs ih =>
    have hx := h x (List.mem_cons_self ..)
    have ih' := ih (fun y hy => h y (List.mem_cons_of_mem _ hy))
    simp only [List.filterMap_cons, hx, ih']

/-- writes to disjoint ranges of a block commute -/
theorem writeCells_commute_disjoint (m : Cells) (a₁ a₂ : Int) (vs ws : List Nat)
    (hd : a₁ + vs.length ≤ a₂ ∨ a₂ + ws.length ≤ a₁) :
    writeCells (writeCells m a₁ vs) a₂ ws = writeCells (writeCells m a₂ ws) a₁ vs := by
  funext i
  unfold writeCells
  by_cases c₁ : a₁ ≤ i ∧ i < a₁ + vs.length <;> by_cases c₂ : a₂ ≤ i ∧ i < a₂ + ws.length
  · exfalso; omega
  · rw [if_neg c₂, if_pos c₁, if_pos c₁]
  · rw [if_pos c₂, if_neg c₁, if_pos c₂]
  · rw [if_neg c₂, if_neg c₁, if_neg c₁, if_neg c₂]

/-- the last write to a range wins -/
theorem writeCells_overwrite (m : Cells) (a : Int) (vs ws : List Nat) (hl : ws.length = vs.length) :
    writeCells (writeCells m a vs) a ws = writeCells m a ws := by
  funext i
  unfold writeCells
  by_cases c : a ≤ i ∧ i < a + ws.length
  · rw [if_pos c, if_pos c]
  · rw [if_neg c, if_neg c, if_neg (by omega)]

/-- read-your-writes for a whole range: reading back the written range returns exactly the written values -/
theorem readCells_after_write (m : Cells) (a : Int) (vs : List Nat) :
    readCells (writeCells m a vs) a vs.length = vs := by
  unfold readCells
  have h : ∀ k ∈ List.range vs.length, writeCells m a vs (a + Int.ofNat k) = some (vs.getD k 0) := by
    intro k hk
    have hk' : k < vs.length := List.mem_range.mp hk
    have := writeCells_inside m a vs k hk'
    simp only [Int.ofNat_eq_natCast]
    rw [this]; simp [List.getD, List.getElem?_eq_getElem hk']
  rw [filterMap_congr' _ _ _ h, List.filterMap_eq_map']
  apply List.ext_getElem
  · simp
  · intro k h1 h2
    simp [List.getD, List.getElem?_eq_getElem h2]

/-- a write outside a range is invisible to a read of that range -/
theorem readCells_after_disjoint_write (m : Cells) (a₁ a₂ : Int) (vs : List Nat) (n : Nat)
    (hd : a₁ + vs.length ≤ a₂ ∨ a₂ + n ≤ a₁) :
    readCells (writeCells m a₁ vs) a₂ n = readCells m a₂ n := by
  unfold readCells
  apply filterMap_congr'
  intro k hk
  have hk' : k < n := List.mem_range.mp hk
  apply writeCells_outside
  simp only [Int.ofNat_eq_natCast]; omega

/-- mask write result on 16 bits, with the worked example of the spec (v1.1b3 §6.16) -/
example : ((0x12 &&& 0xF2) ||| (0x25 &&& (0xFFFF - 0xF2))) = 0x17 := by decide

/-- Non-vacuity: a concrete context, history and its responses. -/
example :
    (runImpl ⟨[.seq ⟨1, [0, 0, 0, 0]⟩, .seq ⟨1, [5, 6, 7, 8]⟩], 0, 0, 1, 1, false⟩
      [.writeCoils 1 2 1 [true, true], .readCoils 0 4, .maskWrite 0 0xF2 0x25, .readHolding 0 1,
       .readWrite 0 2 1 1 2 [99], .writeCoil 0 0x1234, .readInput 3 2]).2 =
    [.writeCoils 1 2, .readCoils [0, 1, 1, 0], .maskWrite 0 0xF2 0x25, .readHolding [5],
     .readWrite [5, 99], .exception 5 3, .exception 4 2] := by decide

end Pymodbus.Props.C04
