/-
  C09 — The server sends exactly one matching response per accepted request.
  On the model of the front-ends (Model/Server.lean): the frames a connection writes for a received chunk are,
  in order, one frame per request the framer delivered and the callback answered; each carries the request's
  ids and its function code or that code | 0x80; nothing is written for broadcast / ignored requests and nothing
  at all when no request was delivered.  Which requests are delivered is settled by C06/C07 for the framers.
-/
import Pymodbus.Props.C14
import Pymodbus.Model.Server
namespace Pymodbus.Props.C09
open Pymodbus Pymodbus.Server Pymodbus.Framer RegisterFile

theorem spec_response_fc (L : Layout) (m : Mem) (r : Req) (hr : InScope r) :
    (RegisterFile.step L m r).2.fc = r.fc ∨ (RegisterFile.step L m r).2.fc = r.fc ||| 0x80 := by
  cases r <;> simp only [InScope] at hr
  all_goals
    simp only [RegisterFile.step, access, effRead, effWrite, effMask, effReadWrite]
    repeat' split
    all_goals first | (left; rfl) | (right; rfl)

theorem impl_response_fc (s : SlaveCtx) (r : Req) (hr : InScope r) :
    (Impl.serverExecute s r).2.fc = r.fc ∨ (Impl.serverExecute s r).2.fc = r.fc ||| 0x80 := by
  rw [C05.impl_response_is_spec s r hr]
  exact spec_response_fc _ _ r hr

/-- whatever the callback answers carries the request's function code or that code | 0x80 -/
theorem response_matches_request (cfg : Cfg) (ctx : Units) (r : Req) (uid : Nat) (resp : Resp) (hr : InScope r)
    (h : (callback cfg ctx r uid).2 = some resp) : resp.fc = r.fc ∨ resp.fc = r.fc ||| 0x80 := by
  unfold callback at h
  split at h
  · cases h
  · split at h
    · split at h
      · cases h
      · injection h with h; subst h; right; rfl
    · rename_i s hs
      simp only [Option.some.injEq] at h
      subst h
      exact impl_response_fc s r hr

/-- nothing is sent for a broadcast request, nor for an absent unit when configured to ignore them -/
theorem silent_cases (cfg : Cfg) (ctx : Units) (r : Req) (uid : Nat) :
    ((cfg.broadcast && hasBroadcast cfg.frontend && uid == 0) = true → (callback cfg ctx r uid).2 = none) ∧
    ((cfg.broadcast && hasBroadcast cfg.frontend && uid == 0) = false → (∀ s, ctx.getItem uid ≠ .ok s) →
      cfg.ignoreMissing = true → (callback cfg ctx r uid).2 = none) := by
  constructor
  · intro h; unfold callback; rw [if_pos h]
  · intro h hmiss hign
    unfold callback
    rw [if_neg (by simp [h])]
    cases hg : ctx.getItem uid with
    | error e => simp [hign]
    | ok s => exact absurd hg (hmiss s)

/-- the frames written for one receive call: one per answered delivery, in order, and none without a delivery -/
def answered (cfg : Cfg) : Units → List (Ev Req) → Nat
  | _, [] => 0
  | _, .raised _ :: _ => 0
  | ctx, .deliver r uid _ _ :: rest =>
    (if (callback cfg ctx r uid).2.isSome then 1 else 0) + answered cfg (callback cfg ctx r uid).1 rest

theorem frames_le_answered (cfg : Cfg) (ctx : Units) (evs : List (Ev Req)) :
    (handleEvents cfg ctx evs).2.1.length ≤ answered cfg ctx evs := by
  induction evs generalizing ctx with
  | nil => simp [handleEvents, answered]
  | cons e rest ih =>
    cases e with
    | raised err => simp [handleEvents, answered]
    | deliver r uid tid pid =>
      simp only [handleEvents, answered]
      cases hc : (callback cfg ctx r uid).2 with
      | none =>
        have := ih (callback cfg ctx r uid).1
        simp only [hc, Option.isSome_none, Bool.false_eq_true, if_false, Nat.zero_add]
        rcases hcb : callback cfg ctx r uid with ⟨c1, c2⟩
        simp only [hcb] at hc this ⊢
        subst hc
        exact this
      | some rp =>
        rcases hcb : callback cfg ctx r uid with ⟨c1, c2⟩
        simp only [hcb] at hc ⊢
        subst hc
        simp only [Option.isSome_some, if_true]
        cases hf : frameResp cfg rp uid tid pid with
        | error e => simp
        | ok f =>
          have := ih c1
          simp only [List.length_cons]
          exact Nat.succ_le_of_lt (Nat.lt_of_le_of_lt this (by omega))

/-- … exactly one per answered delivery when nothing went wrong in the receive call (no undecodable frame, every
    response could be framed): the count is exact, not just bounded -/
theorem frames_eq_answered (cfg : Cfg) (ctx : Units) (evs : List (Ev Req))
    (hok : (handleEvents cfg ctx evs).2.2 = none) :
    (handleEvents cfg ctx evs).2.1.length = answered cfg ctx evs := by
  induction evs generalizing ctx with
  | nil => simp [handleEvents, answered]
  | cons e rest ih =>
    cases e with
    | raised err => simp [handleEvents] at hok
    | deliver r uid tid pid =>
      simp only [handleEvents, answered] at hok ⊢
      rcases hcb : callback cfg ctx r uid with ⟨c1, c2⟩
      simp only [hcb] at hok ⊢
      cases c2 with
      | none =>
        simp only [] at hok ⊢
        simpa using ih c1 hok
      | some rp =>
        simp only [] at hok ⊢
        cases hf : frameResp cfg rp uid tid pid with
        | error e => simp [hf] at hok
        | ok f =>
          simp only [hf] at hok ⊢
          simp only [List.length_cons, Option.isSome_some, if_true]
          have := ih c1 hok
          show (handleEvents cfg c1 rest).snd.fst.length + 1 = 1 + answered cfg c1 rest
          rw [this, Nat.add_comm]

/-- it never emits bytes that are not a response to a received request -/
theorem no_spontaneous_output (cfg : Cfg) (ctx : Units) (evs : List (Ev Req))
    (h : ∀ e ∈ evs, ∀ r u t p, e ≠ .deliver r u t p) : (handleEvents cfg ctx evs).2.1 = [] := by
  cases evs with
  | nil => rfl
  | cons e rest =>
    cases e with
    | raised err => rfl
    | deliver r uid tid pid => exact absurd rfl (h _ (by simp) r uid tid pid)

/-- every frame written is the framing of a response with the request's unit, transaction and protocol ids -/
theorem frames_carry_request_ids (cfg : Cfg) (ctx : Units) (evs : List (Ev Req)) :
    ∀ f ∈ (handleEvents cfg ctx evs).2.1, ∃ r uid tid pid c rp,
      Ev.deliver r uid tid pid ∈ evs ∧ (callback cfg c r uid).2 = some rp ∧ frameResp cfg rp uid tid pid = .ok f := by
  induction evs generalizing ctx with
  | nil => intro f hf; simp [handleEvents] at hf
  | cons e rest ih =>
    cases e with
    | raised err => intro f hf; simp [handleEvents] at hf
    | deliver r uid tid pid =>
      intro f hf
      simp only [handleEvents] at hf
      rcases hcb : callback cfg ctx r uid with ⟨c1, c2⟩
      simp only [hcb] at hf
      cases c2 with
      | none =>
        simp only [] at hf
        obtain ⟨r', u', t', p', c, rp, h1, h2, h3⟩ := ih c1 f hf
        exact ⟨r', u', t', p', c, rp, by simp [h1], h2, h3⟩
      | some rp =>
        simp only [] at hf
        cases hfr : frameResp cfg rp uid tid pid with
        | error e => simp [hfr] at hf
        | ok g =>
          simp only [hfr, List.mem_cons] at hf
          rcases hf with rfl | hf
          · exact ⟨r, uid, tid, pid, ctx, rp, by simp, by rw [hcb], hfr⟩
          · obtain ⟨r', u', t', p', c, rp', h1, h2, h3⟩ := ih c1 f hf
            exact ⟨r', u', t', p', c, rp', by simp [h1], h2, h3⟩

end Pymodbus.Props.C09
