/-
  C09 — The server sends exactly one matching response per accepted request.
  On the model of the front-ends (Model/Server.lean): the frames a connection writes for a received chunk are,
  in order, one frame per request the framer delivered and the callback answered; each carries the request's
  ids and its function code or that code | 0x80; nothing is written for broadcast / ignored requests and nothing
  at all when no request was delivered.  Which requests are delivered is settled by C06/C07 for the framers.
-/
import Pymodbus.Props.C14
import Pymodbus.Model.Server
import Pymodbus.Generated.Tables
namespace Pymodbus.Props.C09
open Pymodbus Pymodbus.Server Pymodbus.Framer RegisterFile

theorem spec_response_fc (L : Layout) (m : Mem) (r : Req) (hr : InScope r) :
    (RegisterFile.step L m r).2.fc = r.fc ∨ (RegisterFile.step L m r).2.fc = r.fc ||| 0x80 := by
  cases r <;> simp only [InScope] at hr
  all_goals
    simp only [RegisterFile.step, access, effRead, effWrite, effMask, effReadWrite]
    repeat' split
    all_goals first | (left; rfl) | (right; rfl)

theorem impl_response_fc (s : SlaveCtx) (r : Req) (hr : InScope r) :
    (Impl.serverExecute s r).2.fc = r.fc ∨ (Impl.serverExecute s r).2.fc = r.fc ||| 0x80 := by
  rw [C05.impl_response_is_spec s r hr]
  exact spec_response_fc _ _ r hr

/-- a data-access request is never answered with the (unsent) listen-only acknowledgement -/
theorem impl_should_respond (s : SlaveCtx) (r : Req) (hr : InScope r) :
    shouldRespond (Impl.serverExecute s r).2 = true := by
  rw [C05.impl_response_is_spec s r hr]
  cases r <;> simp only [InScope] at hr
  all_goals
    simp only [RegisterFile.step, access, effRead, effWrite, effMask, effReadWrite]
    repeat' split
    all_goals rfl

/-- data-access requests: `execAny` is `serverExecute` (the catch-all sits in the same place) -/
theorem execAny_dataAccess (ctl : Control) (s : SlaveCtx) (r : Req) (h : isDataAccess r = true) :
    execAny ctl s r = (ctl, (Impl.serverExecute s r).1, (Impl.serverExecute s r).2) := by
  unfold execAny execRaw Impl.serverExecute
  rw [if_pos h]
  cases Impl.execute s r with
  | error e => rfl
  | ok x => rfl

theorem isDataAccess_iff (r : Req) : isDataAccess r = true ↔ InScope r := by
  cases r <;> simp [isDataAccess, InScope]

/-- the requests that do not touch the datastore are answered with their own function code as well (or with an
    exception for it) -/
theorem executeOther_fc (ctl : Control) (r : Req) (x : Control × Resp) (h : Impl.executeOther ctl r = .ok x) :
    x.2.fc = r.fc ∨ x.2.fc = r.fc ||| 0x80 := by
  cases r <;> simp only [Impl.executeOther] at h
  case diag sub msg =>
    unfold Impl.executeDiag at h
    split at h
    · cases h
    · split at h
      · cases h
      · injection h with h; subst h; left; rfl
  case readExceptionStatus => injection h with h; subst h; left; rfl
  case getCommEventCounter => injection h with h; subst h; left; rfl
  case getCommEventLog => injection h with h; subst h; left; rfl
  case reportSlaveId => injection h with h; subst h; left; rfl
  case readFileRecord => injection h with h; subst h; left; rfl
  case writeFileRecord => injection h with h; subst h; left; rfl
  case readFifo a =>
    split at h <;> (injection h with h; subst h)
    · right; rfl
    · left; rfl
  case readDeviceInfo sub rc oid =>
    split at h
    · cases h
    · injection h with h; subst h; right; rfl
    · injection h with h; subst h; left; rfl
  all_goals cases h

/-- every request class: what `execute` (under the catch-all) answers carries the request's function code or
    that code | 0x80 -/
theorem execAny_fc (ctl : Control) (s : SlaveCtx) (r : Req) :
    (execAny ctl s r).2.2.fc = r.fc ∨ (execAny ctl s r).2.2.fc = r.fc ||| 0x80 := by
  by_cases hd : isDataAccess r = true
  · rw [execAny_dataAccess ctl s r hd]
    exact impl_response_fc s r ((isDataAccess_iff r).1 hd)
  · unfold execAny execRaw
    rw [if_neg hd]
    cases ho : Impl.executeOther ctl r with
    | error e => right; rfl
    | ok x => exact executeOther_fc ctl r x ho

/-- whatever the callback answers carries the request's function code or that code | 0x80 — every request type -/
theorem response_matches_request (cfg : Cfg) (w : World) (r : Req) (uid : Nat) (resp : Resp)
    (h : (callback cfg w r uid).2 = some resp) : resp.fc = r.fc ∨ resp.fc = r.fc ||| 0x80 := by
  unfold callback at h
  split at h
  · cases h
  · split at h
    · split at h
      · cases h
      · injection h with h; subst h; right; rfl
    · rename_i s hs
      simp only [Option.some.injEq] at h
      subst h
      exact execAny_fc w.ctl s r

/-- nothing is sent for a broadcast request, nor for an absent unit when configured to ignore them -/
theorem silent_cases (cfg : Cfg) (w : World) (r : Req) (uid : Nat) :
    ((cfg.broadcast && hasBroadcast cfg.frontend && uid == 0) = true → (callback cfg w r uid).2 = none) ∧
    ((cfg.broadcast && hasBroadcast cfg.frontend && uid == 0) = false → (∀ s, w.units.getItem uid ≠ .ok s) →
      cfg.ignoreMissing = true → (callback cfg w r uid).2 = none) := by
  constructor
  · intro h; unfold callback; rw [if_pos h]
  · intro h hmiss hign
    unfold callback
    rw [if_neg (by simp [h])]
    cases hg : w.units.getItem uid with
    | error e => simp [hign]
    | ok s => exact absurd hg (hmiss s)

/-- is this delivery answered with a frame: the callback returns a response and the response class is one that is
    sent (everything but the listen-only acknowledgement) -/
def isAnswered (cfg : Cfg) (w : World) (r : Req) (uid : Nat) : Bool :=
  match (callback cfg w r uid).2 with
  | some rp => shouldRespond rp
  | none => false

/-- the world after one delivery has been handled (callback, then the Twisted message counter) -/
def afterDelivery (cfg : Cfg) (w : World) (r : Req) (uid : Nat) : World :=
  if isAnswered cfg w r uid then countMessage cfg (callback cfg w r uid).1 else (callback cfg w r uid).1

/-- the frames written for one receive call: one per answered delivery, in order, and none without a delivery -/
def answered (cfg : Cfg) : World → List (Ev Req) → Nat
  | _, [] => 0
  | _, .raised _ :: _ => 0
  | w, .deliver r uid _ _ :: rest =>
    (if isAnswered cfg w r uid then 1 else 0) + answered cfg (afterDelivery cfg w r uid) rest

/-! the four ways one delivery is handled -/

theorem handle_cons_none {cfg : Cfg} {w c1 : World} {r : Req} {uid : Nat} (tid pid : Nat) (rest : List (Ev Req))
    (h : callback cfg w r uid = (c1, none)) :
    handleEvents cfg w (.deliver r uid tid pid :: rest) = handleEvents cfg c1 rest := by
  simp only [handleEvents, h]

theorem handle_cons_silent {cfg : Cfg} {w c1 : World} {r : Req} {uid : Nat} {rp : Resp} (tid pid : Nat)
    (rest : List (Ev Req)) (h : callback cfg w r uid = (c1, some rp)) (hs : shouldRespond rp = false) :
    handleEvents cfg w (.deliver r uid tid pid :: rest) = handleEvents cfg c1 rest := by
  simp only [handleEvents, h, hs, Bool.not_false, if_true]

theorem handle_cons_err {cfg : Cfg} {w c1 : World} {r : Req} {uid tid pid : Nat} {rp : Resp} {e : PyErr}
    (rest : List (Ev Req)) (h : callback cfg w r uid = (c1, some rp)) (hs : shouldRespond rp = true)
    (hf : frameResp cfg rp uid tid pid = .error e) :
    handleEvents cfg w (.deliver r uid tid pid :: rest) = (countMessage cfg c1, [], some e) := by
  simp only [handleEvents, h, hs, Bool.not_true, Bool.false_eq_true, if_false, hf]

theorem handle_cons_ok {cfg : Cfg} {w c1 : World} {r : Req} {uid tid pid : Nat} {rp : Resp} {f : Bytes}
    (rest : List (Ev Req)) (h : callback cfg w r uid = (c1, some rp)) (hs : shouldRespond rp = true)
    (hf : frameResp cfg rp uid tid pid = .ok f) :
    handleEvents cfg w (.deliver r uid tid pid :: rest) =
      ((handleEvents cfg (countMessage cfg c1) rest).1, f :: (handleEvents cfg (countMessage cfg c1) rest).2.1,
       (handleEvents cfg (countMessage cfg c1) rest).2.2) := by
  simp only [handleEvents, h, hs, Bool.not_true, Bool.false_eq_true, if_false, hf]

theorem answered_cons_no {cfg : Cfg} {w c1 : World} {r : Req} {uid : Nat} (tid pid : Nat) (rest : List (Ev Req))
    {c2 : Option Resp} (h : callback cfg w r uid = (c1, c2)) (hn : ∀ rp, c2 = some rp → shouldRespond rp = false) :
    answered cfg w (.deliver r uid tid pid :: rest) = answered cfg c1 rest := by
  have hi : isAnswered cfg w r uid = false := by
    unfold isAnswered; rw [h]
    cases c2 with
    | none => rfl
    | some rp => exact hn rp rfl
  simp only [answered, afterDelivery, hi, Bool.false_eq_true, if_false, Nat.zero_add, h]

theorem answered_cons_yes {cfg : Cfg} {w c1 : World} {r : Req} {uid : Nat} (tid pid : Nat) (rest : List (Ev Req))
    {rp : Resp} (h : callback cfg w r uid = (c1, some rp)) (hs : shouldRespond rp = true) :
    answered cfg w (.deliver r uid tid pid :: rest) = 1 + answered cfg (countMessage cfg c1) rest := by
  have hi : isAnswered cfg w r uid = true := by
    unfold isAnswered; rw [h]; exact hs
  simp only [answered, afterDelivery, hi, if_true, h]

theorem frames_le_answered (cfg : Cfg) (w : World) (evs : List (Ev Req)) :
    (handleEvents cfg w evs).2.1.length ≤ answered cfg w evs := by
  induction evs generalizing w with
  | nil => simp [handleEvents, answered]
  | cons e rest ih =>
    cases e with
    | raised err => simp [handleEvents, answered]
    | deliver r uid tid pid =>
      cases hcb : callback cfg w r uid with
      | mk c1 c2 =>
        cases c2 with
        | none =>
          rw [handle_cons_none tid pid rest hcb, answered_cons_no tid pid rest hcb (by intro rp h; cases h)]
          exact ih c1
        | some rp =>
          cases hs : shouldRespond rp with
          | false =>
            rw [handle_cons_silent tid pid rest hcb hs,
              answered_cons_no tid pid rest hcb (by intro rp' h; injection h with h; subst h; exact hs)]
            exact ih c1
          | true =>
            rw [answered_cons_yes tid pid rest hcb hs]
            cases hf : frameResp cfg rp uid tid pid with
            | error e => rw [handle_cons_err rest hcb hs hf]; simp
            | ok f =>
              rw [handle_cons_ok rest hcb hs hf]
              have := ih (countMessage cfg c1)
              simp only [List.length_cons]
              omega

/-- … exactly one per answered delivery when nothing went wrong in the receive call (no undecodable frame, every
    response could be framed): the count is exact, not just bounded -/
theorem frames_eq_answered (cfg : Cfg) (w : World) (evs : List (Ev Req))
    (hok : (handleEvents cfg w evs).2.2 = none) :
    (handleEvents cfg w evs).2.1.length = answered cfg w evs := by
  induction evs generalizing w with
  | nil => simp [handleEvents, answered]
  | cons e rest ih =>
    cases e with
    | raised err => simp [handleEvents] at hok
    | deliver r uid tid pid =>
      cases hcb : callback cfg w r uid with
      | mk c1 c2 =>
        cases c2 with
        | none =>
          rw [handle_cons_none tid pid rest hcb] at hok ⊢
          rw [answered_cons_no tid pid rest hcb (by intro rp h; cases h)]
          exact ih c1 hok
        | some rp =>
          cases hs : shouldRespond rp with
          | false =>
            rw [handle_cons_silent tid pid rest hcb hs] at hok ⊢
            rw [answered_cons_no tid pid rest hcb (by intro rp' h; injection h with h; subst h; exact hs)]
            exact ih c1 hok
          | true =>
            rw [answered_cons_yes tid pid rest hcb hs]
            cases hf : frameResp cfg rp uid tid pid with
            | error e => rw [handle_cons_err rest hcb hs hf] at hok; cases hok
            | ok f =>
              rw [handle_cons_ok rest hcb hs hf] at hok ⊢
              have := ih (countMessage cfg c1) hok
              simp only [List.length_cons]
              omega

/-- it never emits bytes that are not a response to a received request -/
theorem no_spontaneous_output (cfg : Cfg) (w : World) (evs : List (Ev Req))
    (h : ∀ e ∈ evs, ∀ r u t p, e ≠ .deliver r u t p) : (handleEvents cfg w evs).2.1 = [] := by
  cases evs with
  | nil => rfl
  | cons e rest =>
    cases e with
    | raised err => rfl
    | deliver r uid tid pid => exact absurd rfl (h _ (by simp) r uid tid pid)

/-- every frame written is the framing of a response with the request's unit, transaction and protocol ids -/
theorem frames_carry_request_ids (cfg : Cfg) (w : World) (evs : List (Ev Req)) :
    ∀ f ∈ (handleEvents cfg w evs).2.1, ∃ r uid tid pid c rp,
      Ev.deliver r uid tid pid ∈ evs ∧ (callback cfg c r uid).2 = some rp ∧ frameResp cfg rp uid tid pid = .ok f := by
  induction evs generalizing w with
  | nil => intro f hf; simp [handleEvents] at hf
  | cons e rest ih =>
    cases e with
    | raised err => intro f hf; simp [handleEvents] at hf
    | deliver r uid tid pid =>
      intro f hf
      have lift : (∃ r' u' t' p' c rp, Ev.deliver r' u' t' p' ∈ rest ∧ (callback cfg c r' u').2 = some rp ∧
            frameResp cfg rp u' t' p' = .ok f) →
          ∃ r' u' t' p' c rp, Ev.deliver r' u' t' p' ∈ Ev.deliver r uid tid pid :: rest ∧
            (callback cfg c r' u').2 = some rp ∧ frameResp cfg rp u' t' p' = .ok f := by
        rintro ⟨r', u', t', p', c, rp, h1, h2, h3⟩
        exact ⟨r', u', t', p', c, rp, by simp [h1], h2, h3⟩
      cases hcb : callback cfg w r uid with
      | mk c1 c2 =>
        cases c2 with
        | none =>
          rw [handle_cons_none tid pid rest hcb] at hf
          exact lift (ih c1 f hf)
        | some rp =>
          cases hs : shouldRespond rp with
          | false =>
            rw [handle_cons_silent tid pid rest hcb hs] at hf
            exact lift (ih c1 f hf)
          | true =>
            cases hfr : frameResp cfg rp uid tid pid with
            | error e => rw [handle_cons_err rest hcb hs hfr] at hf; simp at hf
            | ok g =>
              rw [handle_cons_ok rest hcb hs hfr] at hf
              simp only [List.mem_cons] at hf
              rcases hf with rfl | hf
              · exact ⟨r, uid, tid, pid, w, rp, by simp, by rw [hcb], hfr⟩
              · exact lift (ih (countMessage cfg c1) f hf)


/-- tie to the source: the structure of the seven front-ends as read off the source files on this run (by ast: which
    receive methods append unit 0 when broadcast is enabled, what each catch-all does with an exception out of the
    receive call, who counts sent messages, who is gated by listen-only mode, that sending is gated by
    `should_respond` and that `execute` copies transaction id and unit id to the response) is the one the model encodes -/
theorem generated_server_structure :
    Generated.serverStructure = allFrontends.map (fun f =>
      (f.name, addsBroadcastUnit f, f.onErrorSrc, isTwisted f, isTwisted f, true, true)) := by rfl

end Pymodbus.Props.C09
