/-
  C14 — Predicted reply length equals the length the server really sends (PDU level; the per-framing
  overhead is proved with the framer models in Props/C03).
-/
import Pymodbus.Props.C05
import Pymodbus.Props.C01
import Pymodbus.Model.Diag
import Pymodbus.Model.Txn
import Pymodbus.Generated.Tables
namespace Pymodbus.Props.C14
open Pymodbus StoreSpec RegisterFile Props.C18 Props.C04 PduSpec

theorem readCells_length (m : Cells) (a : Int) (n : Nat) (h : Spec.populated m a n = true) :
    (readCells m a n).length = n := by
  unfold readCells
  have hp := (populated_iff m a n).1 h
  induction n with
  | zero => rfl
  | succ n ih =>
    rw [List.range_succ, List.filterMap_append, List.length_append]
    have h1 : ∀ k : Int, 0 ≤ k → k < (n : Int) → (m (a + k)).isSome = true := fun k h0 h1 => hp k h0 (by omega)
    have hn := hp (n : Int) (by omega) (by omega)
    have := ih ((populated_iff m a n).2 h1) h1
    rw [this]
    have hn' : (m (a + Int.ofNat n)).isSome = true := hn
    cases hc : m (a + Int.ofNat n) with
    | none => rw [hc] at hn'; cases hn'
    | some v =>
      have hc' : m (a + (n : Int)) = some v := hc
      simp [List.filterMap_cons, hc']

theorem packHs_length {vs : List Nat} {bs : Bytes} (h : Impl.packHs vs = .ok bs) : bs.length = 2 * vs.length := by
  induction vs generalizing bs with
  | nil => simp [Impl.packHs] at h; subst h; rfl
  | cons v vs ih =>
    simp only [Impl.packHs, bind, Except.bind] at h
    cases hv : Impl.packH v with
    | error e => simp [hv] at h
    | ok a =>
      cases hr : Impl.packHs vs with
      | error e => simp [hv, hr] at h
      | ok r =>
        simp only [hv, hr, pure, Except.pure, Except.ok.injEq] at h
        subst h
        have ha : a.length = 2 := by
          unfold Impl.packH at hv; split at hv <;> simp at hv; subst hv; rfl
        simp [ha, ih hr]; omega

theorem enc_bits_length {bits : List Nat} {bs : Bytes} (h : Impl.encResp (.readCoils bits) = .ok bs) :
    bs.length = 1 + (bits.length + 7) / 8 := by
  simp only [Impl.encResp, bind, Except.bind] at h
  cases hp : Impl.packB (packBits (bits.map Impl.truthy)).length with
  | error e => simp [hp] at h
  | ok a =>
    simp only [hp, pure, Except.pure, Except.ok.injEq] at h
    subst h
    have ha : a.length = 1 := by unfold Impl.packB at hp; split at hp <;> simp at hp; subst hp; rfl
    simp [ha, C01.packBits_length]

theorem enc_bits_length' {bits : List Nat} {bs : Bytes} (h : Impl.encResp (.readDiscrete bits) = .ok bs) :
    bs.length = 1 + (bits.length + 7) / 8 := enc_bits_length (bits := bits) h

theorem enc_regs_length {regs : List Nat} {bs : Bytes}
    (h : Impl.encResp (.readHolding regs) = .ok bs) : bs.length = 1 + 2 * regs.length := by
  simp only [Impl.encResp, bind, Except.bind] at h
  cases hp : Impl.int2byte (regs.length * 2) with
  | error e => simp [hp] at h
  | ok a =>
    cases hr : Impl.packHs regs with
    | error e => simp [hp, hr] at h
    | ok r =>
      simp only [hp, hr, pure, Except.pure, Except.ok.injEq] at h
      subst h
      have ha : a.length = 1 := by unfold Impl.int2byte at hp; split at hp <;> simp at hp; subst hp; rfl
      simp [ha, packHs_length hr]

/-- a non-exception answer of `access` means every guard passed and the effect was applied -/
theorem access_normal (L : Layout) (m : Mem) (fc : Nat) (ok : Bool) (ranges : List (Int × Nat))
    (eff : Nat → Int → Mem × Resp) (h : (access L m fc ok ranges eff).2.isException = false) :
    ∃ t, tableOf fc = some t ∧
      (ranges.all (fun r => Spec.populated (m (L.tbl t)) (r.1 + (bif L.zeroMode then 0 else 1)) r.2)) = true ∧
      access L m fc ok ranges eff = eff (L.tbl t) (bif L.zeroMode then 0 else 1) := by
  unfold access at h ⊢
  cases ok with
  | false => simp [Resp.isException] at h
  | true =>
    simp only [Bool.not_true, Bool.false_eq_true, if_false] at h ⊢
    cases ht : tableOf fc with
    | none => simp [ht, Resp.isException] at h
    | some t =>
      simp only [ht] at h ⊢
      cases hb : L.broken (L.tbl t) with
      | true => simp [hb, Resp.isException] at h
      | false =>
        simp only [hb, Bool.false_eq_true, if_false] at h ⊢
        cases hp : (ranges.all (fun r => Spec.populated (m (L.tbl t)) (r.1 + (bif L.zeroMode then 0 else 1)) r.2)) with
        | false => simp [hp, Resp.isException] at h
        | true => exact ⟨t, rfl, hp, by simp⟩

/-- number of values in a normal read response = the requested quantity -/
theorem read_response_length (L : Layout) (m : Mem) (r : Req)
    (hn : (RegisterFile.step L m r).2.isException = false) :
    match r with
    | .readCoils _ n => ∃ bits, (RegisterFile.step L m r).2 = .readCoils bits ∧ bits.length = n
    | .readDiscrete _ n => ∃ bits, (RegisterFile.step L m r).2 = .readDiscrete bits ∧ bits.length = n
    | .readHolding _ n => ∃ regs, (RegisterFile.step L m r).2 = .readHolding regs ∧ regs.length = n
    | .readInput _ n => ∃ regs, (RegisterFile.step L m r).2 = .readInput regs ∧ regs.length = n
    | .readWrite _ rn _ _ _ _ => ∃ regs, (RegisterFile.step L m r).2 = .readWrite regs ∧ regs.length = rn
    | _ => True := by
  cases r <;> try trivial
  case readCoils a n =>
    obtain ⟨t, _, hp, he⟩ := access_normal _ _ _ _ _ _ hn
    simp only [RegisterFile.step, he, effRead]
    exact ⟨_, rfl, readCells_length _ _ _ (by simpa using hp)⟩
  case readDiscrete a n =>
    obtain ⟨t, _, hp, he⟩ := access_normal _ _ _ _ _ _ hn
    simp only [RegisterFile.step, he, effRead]
    exact ⟨_, rfl, readCells_length _ _ _ (by simpa using hp)⟩
  case readHolding a n =>
    obtain ⟨t, _, hp, he⟩ := access_normal _ _ _ _ _ _ hn
    simp only [RegisterFile.step, he, effRead]
    exact ⟨_, rfl, readCells_length _ _ _ (by simpa using hp)⟩
  case readInput a n =>
    obtain ⟨t, _, hp, he⟩ := access_normal _ _ _ _ _ _ hn
    simp only [RegisterFile.step, he, effRead]
    exact ⟨_, rfl, readCells_length _ _ _ (by simpa using hp)⟩
  case readWrite ra rn wa wn wbc ws =>
    obtain ⟨t, _, hp, he⟩ := access_normal _ _ _ _ _ _ hn
    simp only [RegisterFile.step, he, effReadWrite]
    refine ⟨_, rfl, readCells_length _ _ _ ?_⟩
    simp only [List.all_cons, List.all_nil, Bool.and_true, Bool.and_eq_true] at hp
    obtain ⟨hw, hr⟩ := hp
    -- the write keeps every populated cell populated
    rw [populated_iff] at hr ⊢
    intro k h0 h1
    have := hr k h0 h1
    unfold writeCells
    split
    · rename_i hc
      have hlt : (↑ra + (bif L.zeroMode then (0 : Int) else 1) + k - (↑wa + bif L.zeroMode then (0 : Int) else 1)).toNat < ws.length := by omega
      rw [List.getElem?_eq_getElem hlt]; rfl
    · exact this

theorem ceil8 (n : Nat) : n / 8 + (if n % 8 ≠ 0 then 1 else 0) = (n + 7) / 8 := by
  split <;> omega

/-- the read requests (FC 1-4, 23) -/
def IsRead : Req → Prop
  | .readCoils .. | .readDiscrete .. | .readHolding .. | .readInput .. | .readWrite .. => True
  | _ => False

/-- For every read request (FC 1-4, 23) that the server accepts, the predicted reply PDU size equals
    1 + the length of the encoded normal response — for every context, quantity and content. -/
theorem read_size_exact (s : SlaveCtx) (r : Req) (hr : InScope r) (k p : Nat)
    (hp : Impl.respPduSize k r = some p)
    (hread : IsRead r)
    (hne : (Impl.serverExecute s r).2.isException = false)
    (bs : Bytes) (he : Impl.encResp (Impl.serverExecute s r).2 = .ok bs) : p = 1 + bs.length := by
  have hspec := C05.impl_response_is_spec s r hr
  rw [hspec] at hne he
  have hshape := read_response_length (layoutOf s) (absMem s) r hne
  cases r <;> simp only [IsRead] at hread
  case readCoils a n =>
    obtain ⟨bits, e, hl⟩ := hshape
    rw [e] at he
    simp only [Impl.respPduSize, Option.some.injEq] at hp
    rw [enc_bits_length he, hl, ← hp, ceil8]; omega
  case readDiscrete a n =>
    obtain ⟨bits, e, hl⟩ := hshape
    rw [e] at he
    simp only [Impl.respPduSize, Option.some.injEq] at hp
    rw [enc_bits_length' he, hl, ← hp, ceil8]; omega
  case readHolding a n =>
    obtain ⟨regs, e, hl⟩ := hshape
    rw [e] at he
    simp only [Impl.respPduSize, Option.some.injEq] at hp
    rw [enc_regs_length he, hl, ← hp]; omega
  case readInput a n =>
    obtain ⟨regs, e, hl⟩ := hshape
    rw [e] at he
    simp only [Impl.respPduSize, Option.some.injEq] at hp
    have he' : Impl.encResp (.readHolding regs) = .ok bs := he
    rw [enc_regs_length he', hl, ← hp]; omega
  case readWrite ra rn wa wn wbc ws =>
    obtain ⟨regs, e, hl⟩ := hshape
    rw [e] at he
    simp only [Impl.respPduSize, Option.some.injEq] at hp
    have he' : Impl.encResp (.readHolding regs) = .ok bs := he
    rw [enc_regs_length he', hl, ← hp]; omega

/-! ### from the PDU to the ADU: what the client's transaction manager expects (`expected_response_length`) -/

/-- For every read request (FC 1-4, 23) the server accepts, on every serial framing: the ADU length the client's
    transaction manager computes before it reads (`_calculate_response_length`: base ADU size + predicted PDU
    size, doubled for ASCII) is exactly the length of the frame the server's framer builds around the normal
    response — every context, quantity and content.  (This discharges the `ExpectedOk` hypothesis of C08's
    conformant-reply theorems for these requests.) -/
theorem expected_adu_exact (cfg : Txn.Cfg) (hne : cfg.framer ≠ .tcp) (hudp : cfg.transport ≠ .udp)
    (s : SlaveCtx) (r : Req) (hr : InScope r)
    (hread : IsRead r)
    (hok : (Impl.serverExecute s r).2.isException = false)
    (bs : Bytes) (he : Impl.encResp (Impl.serverExecute s r).2 = .ok bs) :
    Txn.expectedLen cfg r = some (Int.ofNat (match cfg.framer with
      | .rtu => bs.length + 4 | .ascii => 2 * bs.length + 9 | .binary => bs.length + 6 | .tcp => 0)) := by
  have hp : ∃ p, Impl.respPduSize cfg.plusWords r = some p := by
    cases r <;> simp only [IsRead] at hread <;> exact ⟨_, rfl⟩
  obtain ⟨p, hp⟩ := hp
  have hsz := read_size_exact s r hr cfg.plusWords p hp hread hok bs he
  unfold Txn.expectedLen
  simp only [hne, if_false, hp, hudp]
  cases hf : cfg.framer with
  | tcp => exact absurd hf hne
  | rtu =>
    have h0 : ¬ p = 0 := by omega
    simp only [reduceCtorEq, if_false, h0, Txn.baseAdu]
    congr 2; omega
  | ascii =>
    have h0 : ¬ p * 2 = 0 := by omega
    simp only [if_true, h0, if_false, Txn.baseAdu]
    congr 2; omega
  | binary =>
    have h0 : ¬ p = 0 := by omega
    simp only [reduceCtorEq, if_false, h0, Txn.baseAdu]
    congr 2; omega


/-- Write requests (FC 5, 6, 15, 16): the prediction is 5 and every normal write response encodes to
    4 bytes after the function code. -/
theorem write_size_exact (a x : Nat) (bs : Bytes) :
    (Impl.encResp (.writeCoil a x) = .ok bs → bs.length = 4) ∧
    (Impl.encResp (.writeRegister a x) = .ok bs → bs.length = 4) ∧
    (Impl.encResp (.writeCoils a x) = .ok bs → bs.length = 4) ∧
    (Impl.encResp (.writeRegisters a x) = .ok bs → bs.length = 4) ∧
    (∀ k c d e f, Impl.respPduSize k (.writeCoil c d) = some 5 ∧ Impl.respPduSize k (.writeRegister c d) = some 5 ∧
      Impl.respPduSize k (.writeCoils c d e f) = some 5) := by
  have hH : ∀ n b, Impl.packH n = .ok b → b.length = 2 := by
    intro n b h; unfold Impl.packH at h; split at h <;> simp at h; subst h; rfl
  refine ⟨?_, ?_, ?_, ?_, fun _ _ _ _ _ => ⟨rfl, rfl, rfl⟩⟩
  · intro h
    simp only [Impl.encResp, bind, Except.bind] at h
    cases h1 : Impl.packH a with
    | error e => simp [h1] at h
    | ok u => simp only [h1, pure, Except.pure, Except.ok.injEq] at h; subst h; simp [hH _ _ h1]; split <;> rfl
  all_goals
    intro h
    simp only [Impl.encResp, bind, Except.bind] at h
    cases h1 : Impl.packH a with
    | error e => simp [h1] at h
    | ok u =>
      cases h2 : Impl.packH x with
      | error e => simp [h1, h2] at h
      | ok w => simp only [h1, h2, pure, Except.pure, Except.ok.injEq] at h; subst h; simp [hH _ _ h1, hH _ _ h2]

/-- Diagnostic replies (FC 8): for every sub-function class that answers, the prediction made from the
    decoded one-word request equals 1 + the encoded reply, for any counter values and any statistics. -/
theorem diag_size_exact (sub m counter : Nat) (diagReg : Bytes) (plus : List Nat) (hreg : diagReg.length = 2)
    (msg : DiagMsg) (hrep : Impl.diagReply sub m counter diagReg plus = some (msg, true))
    (bs : Bytes) (he : Impl.encResp (.diag sub msg) = .ok bs) :
    Impl.respPduSize plus.length (.diag sub (.int m)) = some (1 + bs.length) := by
  have hH : ∀ n b, Impl.packH n = .ok b → b.length = 2 := by
    intro n b h; unfold Impl.packH at h; split at h <;> simp at h; subst h; rfl
  have hint : ∀ v, Impl.encResp (.diag sub (.int v)) = .ok bs → bs.length = 4 := by
    intro v h
    simp only [Impl.encResp, Impl.encDiag, bind, Except.bind] at h
    cases h1 : Impl.packH sub with
    | error e => simp [h1] at h
    | ok u =>
      cases h2 : Impl.packH v with
      | error e => simp [h1, h2] at h
      | ok w => simp only [h1, h2, pure, Except.pure, Except.ok.injEq] at h; subst h; simp [hH _ _ h1, hH _ _ h2]
  have hlist : ∀ ws, Impl.encResp (.diag sub (.list ws)) = .ok bs → bs.length = 2 + 2 * ws.length := by
    intro ws h
    simp only [Impl.encResp, Impl.encDiag, bind, Except.bind] at h
    cases h1 : Impl.packH sub with
    | error e => simp [h1] at h
    | ok u =>
      cases h2 : Impl.packHs ws with
      | error e => simp [h1, h2] at h
      | ok w => simp only [h1, h2, pure, Except.pure, Except.ok.injEq] at h; subst h; simp [hH _ _ h1, packHs_length h2]
  have hbytes : ∀ b, Impl.encResp (.diag sub (.bytes b)) = .ok bs → bs.length = 2 + b.length := by
    intro b h
    simp only [Impl.encResp, Impl.encDiag, bind, Except.bind] at h
    cases h1 : Impl.packH sub with
    | error e => simp [h1] at h
    | ok u => simp only [h1, pure, Except.pure, Except.ok.injEq] at h; subst h; simp [hH _ _ h1]
  unfold Impl.diagReply at hrep
  split at hrep <;> simp at hrep
  all_goals (try subst hrep)
  · simp [Impl.respPduSize, hlist _ he]
  · simp [Impl.respPduSize, hlist _ he]
  · simp [Impl.respPduSize, hbytes _ he, hreg]
  · simp [Impl.respPduSize, hint _ he]
  · simp [Impl.respPduSize, hint _ he]
  · simp [Impl.respPduSize, hint _ he]
  · simp [Impl.respPduSize, hint _ he]
  · simp [Impl.respPduSize, hint _ he]
  · simp [Impl.respPduSize, hint _ he]
  · simp [Impl.respPduSize, hint _ he]
  · simp [Impl.respPduSize, hint _ he]
  · simp [Impl.respPduSize, hint _ he]
  · simp [Impl.respPduSize, hint _ he]
  · simp [Impl.respPduSize, hint _ he]
  · simp [Impl.respPduSize, hint _ he]
  · by_cases h4 : m = 4
    · subst h4; simp at he ⊢; simp [Impl.respPduSize, hint _ he]
    · simp only [h4, if_false] at he
      simp [Impl.respPduSize, h4, hlist _ he]; omega

/-- an exception reply is always function code + one byte, which is what the client adds (+2) -/
theorem exception_size (fc code : Nat) (bs : Bytes) (h : Impl.encResp (.exception fc code) = .ok bs) :
    1 + bs.length = 2 := by
  simp only [Impl.encResp] at h
  unfold Impl.int2byte at h; split at h <;> simp at h; subst h; rfl

/-- known finding: Force Listen Only Mode predicts a 5-byte reply that is never sent -/
theorem listen_only_counterexample :
    Impl.respPduSize 55 (.diag 4 (.int 0)) = some 5 ∧
    ∃ msg, Impl.diagReply 4 0 0 [0, 0] [] = some (msg, false) := ⟨rfl, _, rfl⟩

example : Impl.respPduSize 55 (.readCoils 0 9) = some 4 := rfl


/-- tie to the source: the per-framing constants of the transaction manager read from /repo on this run — base ADU
    size and exception ADU length (introspected on a stub client per framer) and the minimum first read of `_recv`
    (literals in the method body, read by ast) — are the model's, and `Defaults.ReadSize` is the 1024 of
    `expectedLen` -/
theorem generated_txn_sizes :
    Generated.txnSizes = [("tcp", Txn.baseAdu .tcp, Txn.excLen .tcp, Txn.minSize .tcp),
      ("rtu", Txn.baseAdu .rtu, Txn.excLen .rtu, Txn.minSize .rtu),
      ("ascii", Txn.baseAdu .ascii, Txn.excLen .ascii, Txn.minSize .ascii),
      ("binary", Txn.baseAdu .binary, Txn.excLen .binary, Txn.minSize .binary)] ∧
    Generated.defaultReadSize = 1024 := by
  constructor <;> rfl

/-! ### reading exactly the reply: `_recv` of the transaction manager on a serial transport

The size predictions above become reads here.  `recvReply` is the model of `ModbusTransactionManager._recv`
(compared with the real method call by call in C08/C13/C14: the sizes asked of the transport are part of the
observation). -/

section exact_read
open Pymodbus.Txn

theorem takeBytes_append (f rest : Bytes) (n : Net) (h : n.inbuf = f ++ rest) :
    takeBytes f.length n = (f, { n with inbuf := rest, rx := n.rx ++ f, reads := n.reads + 1 }) := by
  simp [takeBytes, h]

/-- **the client reads exactly the frame** (serial transports, not a `full` read): when the bytes of a reply frame `f`
    are what arrives — followed by anything — and `f` is a NORMAL reply (function code < 0x80) of the predicted length,
    `_recv` returns exactly `f`: two reads, `min_size` then the rest, nothing beyond the checksum is asked for -/
theorem recv_exact_normal (cfg : Cfg) (hs : cfg.transport = .serial) (hne : cfg.framer ≠ .tcp)
    (f rest : Bytes) (n : Net) (hin : n.inbuf = f ++ rest) (hmode : n.mode ≠ .oserror)
    (hlen : minSize cfg.framer < f.length) (fc : Int)
    (hfc : peekFc cfg.framer (f.take (minSize cfg.framer)) = some fc) (hnormal : fc < 128) :
    recvReply cfg (some (Int.ofNat f.length)) false n =
      (some f, { n with inbuf := rest, rx := n.rx ++ f, reads := n.reads + 2 }) := by
  have hm : 0 < minSize cfg.framer := by cases cfg.framer <;> simp [minSize]
  obtain ⟨k, hk⟩ : ∃ k, k = minSize cfg.framer := ⟨_, rfl⟩
  rw [← hk] at hm hlen hfc
  have hsplit : f = f.take k ++ f.drop k := (List.take_append_drop k f).symm
  have htl : (f.take k).length = k := by simp; omega
  have hin1 : n.inbuf = f.take k ++ (f.drop k ++ rest) := by rw [hin, ← List.append_assoc, List.take_append_drop]
  have hto : ∀ m : Nat, (Int.ofNat m).toNat = m := fun _ => rfl
  unfold recvReply
  simp only [Bool.false_eq_true, if_false, ← hk]
  have h1 : recvBytes cfg.transport (some (Int.ofNat k)) n =
      (some (f.take k), { n with inbuf := f.drop k ++ rest, rx := n.rx ++ f.take k, reads := n.reads + 1 }) := by
    rw [hs]; simp only [recvBytes]
    have : ¬ (Int.ofNat k ≤ 0) := by simp; omega
    simp only [this, if_false, hmode, hto]
    have := takeBytes_append (f.take k) (f.drop k ++ rest) n hin1
    rw [htl] at this; rw [this]
  rw [h1]
  simp only [htl, ne_eq, not_true_eq_false, if_false, hfc]
  have hrest : restSize cfg.framer (some (Int.ofNat f.length)) (f.take k) fc = some (Int.ofNat (f.drop k).length) := by
    unfold restSize; simp only [hnormal, if_true, hne, if_false, Option.map_some, ← hk]
    congr 1; simp; omega
  rw [hrest, hs]; simp only [recvBytes]
  have hpos : ¬ (Int.ofNat (f.drop k).length ≤ 0) := by simp; omega
  simp only [hpos, if_false, hmode, hto]
  have := takeBytes_append (f.drop k) rest { n with inbuf := f.drop k ++ rest, rx := n.rx ++ f.take k, reads := n.reads + 1 } rfl
  rw [this]
  simp only [List.append_assoc, List.take_append_drop]
  


/-- ... and when `f` is an EXCEPTION reply (function code ≥ 0x80, the exception ADU length of the framing), whatever
    length was predicted for the normal reply: exactly `f` is read, the port is not asked for the bytes of the normal
    reply that will never come -/
theorem recv_exact_exception (cfg : Cfg) (hs : cfg.transport = .serial)
    (f rest : Bytes) (n : Net) (hin : n.inbuf = f ++ rest) (hmode : n.mode ≠ .oserror)
    (hlen : f.length = excLen cfg.framer) (fc : Int)
    (hfc : peekFc cfg.framer (f.take (minSize cfg.framer)) = some fc) (hexc : ¬ fc < 128) (expected : Option Int) :
    recvReply cfg expected false n =
      (some f, { n with inbuf := rest, rx := n.rx ++ f, reads := n.reads + 2 }) := by
  have hm : 0 < minSize cfg.framer ∧ minSize cfg.framer < excLen cfg.framer := by cases cfg.framer <;> simp [minSize, excLen]
  obtain ⟨k, hk⟩ : ∃ k, k = minSize cfg.framer := ⟨_, rfl⟩
  rw [← hk] at hm hfc
  have htl : (f.take k).length = k := by simp; omega
  have hin1 : n.inbuf = f.take k ++ (f.drop k ++ rest) := by rw [hin, ← List.append_assoc, List.take_append_drop]
  have hto : ∀ m : Nat, (Int.ofNat m).toNat = m := fun _ => rfl
  unfold recvReply
  simp only [Bool.false_eq_true, if_false, ← hk]
  have h1 : recvBytes cfg.transport (some (Int.ofNat k)) n =
      (some (f.take k), { n with inbuf := f.drop k ++ rest, rx := n.rx ++ f.take k, reads := n.reads + 1 }) := by
    rw [hs]; simp only [recvBytes]
    have : ¬ (Int.ofNat k ≤ 0) := by simp; omega
    simp only [this, if_false, hmode, hto]
    have := takeBytes_append (f.take k) (f.drop k ++ rest) n hin1
    rw [htl] at this; rw [this]
  rw [h1]
  simp only [htl, ne_eq, not_true_eq_false, if_false, hfc]
  have hrest : restSize cfg.framer expected (f.take k) fc = some (Int.ofNat (f.drop k).length) := by
    unfold restSize; simp only [hexc, if_false, ← hk]
    congr 1; simp; omega
  rw [hrest, hs]; simp only [recvBytes]
  have hpos : ¬ (Int.ofNat (f.drop k).length ≤ 0) := by simp; omega
  simp only [hpos, if_false, hmode, hto]
  have := takeBytes_append (f.drop k) rest { n with inbuf := f.drop k ++ rest, rx := n.rx ++ f.take k, reads := n.reads + 1 } rfl
  rw [this]
  simp only [List.append_assoc, List.take_append_drop]

/-- the designed exception to exactness: a `full` read (the unit is on the list of units whose previous transaction got
    nothing, or the transport is a datagram socket) is ONE read of the predicted normal length, whatever arrives -/
theorem recv_full_is_one_read (cfg : Cfg) (expected : Option Int) (n : Net) :
    recvReply cfg expected true n = recvBytes cfg.transport expected n := rfl

/-- Non-vacuity: an RTU exception reply (unit 1, 0x83, code 2, CRC) followed by a stray byte, while a 25-byte normal reply
    was predicted: exactly the five bytes of the frame are read -/
example :
    let n : Net := { inbuf := [1, 0x83, 2, 0xC0, 0xF1, 7] }
    (recvReply { transport := .serial, framer := .rtu, retries := 3, retryOnEmpty := false, retryOnInvalid := false, broadcastEnable := false } (some 25) false n).1 = some [1, 0x83, 2, 0xC0, 0xF1] ∧
    (recvReply { transport := .serial, framer := .rtu, retries := 3, retryOnEmpty := false, retryOnInvalid := false, broadcastEnable := false } (some 25) false n).2.inbuf = [7] := by decide

/-! the bookkeeping that selects a `full` read: `_no_response_devices` after an attempt -/

/-- a unit is on the list of silent units after an attempt exactly when that attempt read nothing -/
theorem noteResp_self (unit : Nat) (resp : Bytes) (l : List Nat) (hl : l.Nodup) :
    unit ∈ noteResp unit resp l ↔ resp = [] := by
  unfold noteResp
  by_cases hr : resp = []
  · by_cases hm : unit ∈ l <;> simp [hr, hm]
  · by_cases hm : unit ∈ l
    · simp [hr, hm, hl.mem_erase_iff]
    · simp [hr, hm]

theorem noteResp_other (unit u : Nat) (resp : Bytes) (l : List Nat) (hu : u ≠ unit) :
    u ∈ noteResp unit resp l ↔ u ∈ l := by
  unfold noteResp
  split
  · simp [hu]
  · split
    · rw [List.mem_erase_of_ne hu]
    · rfl

theorem noteResp_nodup (unit : Nat) (resp : Bytes) (l : List Nat) (hl : l.Nodup) : (noteResp unit resp l).Nodup := by
  unfold noteResp
  split
  · rename_i h; exact List.nodup_append.mpr ⟨hl, by simp, by intro a ha b hb; simp at hb; subst hb; intro h'; subst h'; exact h.2 ha⟩
  · split
    · exact hl.erase _
    · exact hl

end exact_read

end Pymodbus.Props.C14
