/-
  C07 — Corrupted frames are never delivered as messages.
  (1) every delivery is justified by a frame, inside the bytes received, that passes the framing's integrity
      check (`*_frame_valid`, `delivery_justified`);
  (2) any corruption of a valid RTU/binary frame whose error pattern leaves a non-zero CRC register — every
      1-, 2- (frames up to 4095 bytes), 3-bit error and every burst within 16 bits, the CRC field included —
      fails the check (`corrupted_frame_rejected` and corollaries); any single changed byte breaks an LRC codeword;
  (3) a truncated frame makes the receiver wait (Props/C06 `partial_`).
-/
import Pymodbus.Props.C06
namespace Pymodbus.Props.C07
open Pymodbus Pymodbus.Framer Pymodbus.Spec Pymodbus.Checksum

variable {μ : Type}

/-- the RTU/binary integrity check as the receivers apply it to a complete frame `w`: CRC over all but the last
    two bytes against the big-endian word in the last two -/
def crcValid (w : Bytes) : Bool := 2 ≤ w.length && Impl.checkCRC (w.take (w.length - 2)) (be16at w (w.length - 2))

/-- a frame that passes the check is its data followed by the CRC of the data, low byte first -/
theorem crcValid_codeword (w : Bytes) (hw : Bytes.WF w) (h : crcValid w = true) :
    w = w.take (w.length - 2) ++ crcWire (w.take (w.length - 2)) := by
  simp only [crcValid, Bool.and_eq_true, decide_eq_true_eq] at h
  obtain ⟨h2, hc⟩ := h
  have hp : Bytes.WF (w.take (w.length - 2)) := fun x hx => hw x (List.mem_of_mem_take hx)
  rw [Props.Checksum.crc_check_iff _ hp] at hc
  have hlt := Pymodbus.Checksum.crc16_lt (w.take (w.length - 2)) hp
  -- the last two bytes
  have hsplit : w = w.take (w.length - 2) ++ w.drop (w.length - 2) := (List.take_append_drop _ _).symm
  have hlast : w.drop (w.length - 2) = [w.getD (w.length - 2) 0, w.getD (w.length - 1) 0] := by
    have hl : (w.drop (w.length - 2)).length = 2 := by simp; omega
    match hd : w.drop (w.length - 2), hl with
    | [a, b], _ =>
      have ha : w[w.length - 2]? = some a := by
        have := congrArg (fun l => l[0]?) hd; simpa using this
      have hb : w[w.length - 1]? = some b := by
        have := congrArg (fun l => l[1]?) hd
        simp only [List.getElem?_drop] at this
        have e : w.length - 2 + 1 = w.length - 1 := by omega
        rw [e] at this; simpa using this
      simp [List.getD_eq_getElem?_getD, ha, hb]
  have hb1 : w.getD (w.length - 2) 0 < 256 := by
    rw [List.getD_eq_getElem?_getD, List.getElem?_eq_getElem (by omega)]
    exact hw _ (List.getElem_mem _)
  have hb2 : w.getD (w.length - 1) 0 < 256 := by
    rw [List.getD_eq_getElem?_getD, List.getElem?_eq_getElem (by omega)]
    exact hw _ (List.getElem_mem _)
  have e1 : w.length - 2 + 1 = w.length - 1 := by omega
  simp only [be16at, e1, swap16] at hc
  have : [w.getD (w.length - 2) 0, w.getD (w.length - 1) 0] = crcWire (w.take (w.length - 2)) := by
    unfold crcWire
    congr 1
    · omega
    · congr 1; omega
  rw [← this, ← hlast]
  exact hsplit

/-- **Codeword-level detection**: if the error pattern `e` (any bits of the frame, CRC field included) leaves a
    non-zero CRC register, the corrupted frame fails the receiver's check. -/
theorem corrupted_frame_rejected (w e : Bytes) (hw : Bytes.WF w) (he : Bytes.WF e) (hlen : e.length = w.length)
    (hv : crcValid w = true) (hne : crcReg 0 e ≠ 0) : crcValid (xorBytes w e) = false := by
  cases hx : crcValid (xorBytes w e) with
  | false => rfl
  | true =>
    exfalso
    have hwx : Bytes.WF (xorBytes w e) := Pymodbus.Checksum.wf_xorBytes w e hw he
    have c1 := crcValid_codeword w hw hv
    have c2 := crcValid_codeword _ hwx hx
    have r1 : crcReg 0xFFFF w = 0 := by rw [c1]; exact Props.Checksum.crc_residue _
    have r2 : crcReg 0xFFFF (xorBytes w e) = 0 := by rw [c2]; exact Props.Checksum.crc_residue _
    have lin := Props.Checksum.crc_linear 0xFFFF 0 w e hlen
    rw [Nat.xor_zero, r1, r2, Nat.zero_xor] at lin
    exact hne lin.symm


/-- a single flipped bit anywhere in a valid frame (any length) -/
theorem single_bit_rejected (w : Bytes) (t : Nat) (hw : Bytes.WF w) (hv : crcValid w = true) (ht : t < 8 * w.length) :
    crcValid (flipBit w t) = false := by
  apply corrupted_frame_rejected w _ hw (wf_bitErr _ _) (length_bitErr _ _) hv
  rw [crcReg_bitErr _ _ ht]
  exact crcBits_ne_zero _ (by decide) (by decide)

/-- any error pattern with an odd number of flipped bits (so 1 and 3 bit errors), any length -/
theorem odd_weight_rejected (w e : Bytes) (hw : Bytes.WF w) (he : Bytes.WF e) (hlen : e.length = w.length)
    (hv : crcValid w = true) (hodd : weight e % 2 = 1) : crcValid (xorBytes w e) = false :=
  corrupted_frame_rejected w e hw he hlen hv (crcReg_zero_ne_zero_of_odd e hodd)

/-- any burst confined to 16 consecutive bit positions, any length -/
theorem burst16_rejected (w e : Bytes) (hw : Bytes.WF w) (he : Bytes.WF e) (hlen : e.length = w.length)
    (hv : crcValid w = true) (t0 : Nat) (hne : ∃ t, bitAt e t = true)
    (hb : ∀ t, bitAt e t = true → t0 ≤ t ∧ t < t0 + 16) : crcValid (xorBytes w e) = false :=
  corrupted_frame_rejected w e hw he hlen hv (crcReg_burst_ne_zero e he t0 hne hb)

/-- any two different flipped bits in a frame of at most 4095 bytes (RTU frames are at most 256) -/
theorem double_bit_rejected (w : Bytes) (t1 t2 : Nat) (hw : Bytes.WF w) (hv : crcValid w = true)
    (hlen : w.length ≤ 4095) (h1 : t1 < 8 * w.length) (h2 : t2 < 8 * w.length) (hne : t1 ≠ t2) :
    crcValid (xorBytes w (xorBytes (bitErr w.length t1) (bitErr w.length t2))) = false := by
  apply corrupted_frame_rejected w _ hw (wf_xorBytes _ _ (wf_bitErr _ _) (wf_bitErr _ _))
    (by rw [length_xorBytes _ _ (by rw [length_bitErr, length_bitErr]), length_bitErr]) hv
  rcases Nat.lt_or_gt_of_ne hne with h | h
  · exact two_bit_reg_ne_zero _ t1 t2 h h2 (by omega)
  · rw [xorBytes_comm]
    exact two_bit_reg_ne_zero _ t2 t1 h h1 (by omega)

/-! ### what a `frame` decision of each receiver guarantees about the bytes it was taken on -/

/-- RTU: the delivered PDU sits in a window whose CRC-16 matches -/
theorem rtu_frame_valid (rule : Nat → RtuRule) (b : Bytes) (n : Nat) (pdu : Bytes) (uid tid pid : Nat)
    (h : rtuStep rule b = .frame n pdu uid tid pid) :
    n ≤ b.length ∧ crcValid (b.take n) = true ∧ pdu = ((b.take n).take (n - 2)).drop 1 ∧ uid = b.getD 0 0 := by
  unfold rtuStep at h
  split at h
  · cases h
  · cases hs : rtuSize rule b with
    | error e => simp [hs] at h
    | ok size =>
      simp only [hs] at h
      split at h
      · cases h
      · rename_i hlt
        split at h
        · rename_i hc
          injection h with e1 e2 e3 e4 e5
          subst e1 e2 e3
          have hle : size ≤ b.length := by omega
          refine ⟨hle, ?_, ?_, rfl⟩
          · simp only [crcValid, List.length_take, Nat.min_eq_left hle, Bool.and_eq_true, decide_eq_true_eq]
            refine ⟨hc.1, ?_⟩
            have e1 : (b.take size).take (size - 2) = b.take (size - 2) := by
              rw [List.take_take]; congr 1; omega
            have e2 : be16at (b.take size) (size - 2) = be16at b (size - 2) := by
              simp only [be16at, List.getD_eq_getElem?_getD, List.getElem?_take]
              have h1 : size - 2 < size := by omega
              have h2 : size - 2 + 1 < size := by omega
              simp [h1, h2]
            rw [e1, e2]; exact hc.2
          · rw [List.take_take]; congr 2; omega
        · cases h

/-- TCP: the MBAP length field is consistent with the PDU delivered -/
theorem tcp_frame_valid (b : Bytes) (n : Nat) (pdu : Bytes) (uid tid pid : Nat)
    (h : tcpStep b = .frame n pdu uid tid pid) :
    n ≤ b.length ∧ be16at b 4 = pdu.length + 1 ∧ n = 7 + pdu.length ∧ pdu = (b.drop 7).take pdu.length ∧
      uid = b.getD 6 0 ∧ tid = be16at b 0 ∧ pid = be16at b 2 := by
  unfold tcpStep at h
  split at h
  · cases h
  · simp only [] at h
    split at h
    · cases h
    · split at h
      · rename_i h7 h2 hc
        injection h with e1 e2 e3 e4 e5
        subst e1 e2 e3 e4 e5
        have hl : ((b.drop 7).take (be16at b 4 - 1)).length = be16at b 4 - 1 := by
          simp; omega
        refine ⟨by omega, by rw [hl]; omega, by rw [hl]; omega, by rw [hl], rfl, rfl, rfl⟩
      · cases h

/-- ASCII: start delimiter, hex only, matching LRC, CR LF at the end of the window -/
theorem ascii_frame_valid (b : Bytes) (n : Nat) (pdu : Bytes) (uid tid pid : Nat)
    (h : asciiStep b = .frame n pdu uid tid pid) :
    ∃ e data lrc, n = e + 2 ∧ findCRLF b = some e ∧ findByte 58 b = some 0 ∧
      a2bHex (pySlice b 1 ((e : Int) - 2)) = some data ∧ Impl.checkLRC data lrc = true ∧
      (∃ rest, a2bHex (pySlice b ((e : Int) - 2) e) = some (lrc :: rest)) := by
  unfold asciiStep at h
  split at h
  · cases h
  · split at h
    · cases h
    · rename_i start hs
      split at h
      · cases h
      · rename_i hs0
        have hs0' : start = 0 := by omega
        subst hs0'
        split at h
        · cases h
        · rename_i e he
          split at h
          · rename_i u1 u2 lrc l2 data h1 h2 h3
            split at h
            · rename_i hck
              injection h with e1
              exact ⟨e, data, lrc, e1.symm, he, hs, h3, hck, l2, h2⟩
            · cases h
          · cases h

/-- binary: delimiters and matching CRC-16 -/
theorem binary_frame_valid (b : Bytes) (n : Nat) (pdu : Bytes) (uid tid pid : Nat)
    (h : binaryStep b = .frame n pdu uid tid pid) :
    ∃ e c1 c2, n = e + 1 ∧ findByte 0x7B b = some 0 ∧ findByte 0x7D b = some e ∧
      pySlice b ((e : Int) - 2) e = [c1, c2] ∧
      Impl.checkCRC (pySlice b 1 ((e : Int) - 2)) (c1 * 256 + c2) = true := by
  unfold binaryStep at h
  split at h
  · cases h
  · split at h
    · cases h
    · rename_i start hs
      split at h
      · cases h
      · rename_i hs0
        have hs0' : start = 0 := by omega
        subst hs0'
        split at h
        · cases h
        · rename_i e he
          split at h
          · rename_i u c1 c2 h1 h2
            split at h
            · rename_i hck
              injection h with e1
              exact ⟨e, c1, c2, e1.symm, hs, he, h2, hck⟩
            · cases h
          · cases h

/-- **A message is delivered only if the bytes received contain a frame for it that the framing accepts**:
    over any chunk history, every delivery is justified by a `frame` decision of the receiver on a
    contiguous window of the bytes received up to that call (whose validity the four lemmas above spell out). -/
theorem delivery_justified (step : Bytes → Step) (decode : Bytes → PyM (Option μ)) (units : List Nat) (single : Bool)
    (chunks : List Bytes) (m : μ) (uid tid pid : Nat)
    (h : Ev.deliver m uid tid pid ∈ (feedAll step decode units single [] chunks).1.flatten) :
    ∃ (k j n : Nat) (pdu : Bytes), k ≤ chunks.length ∧
      step (((chunks.take k).flatten).drop j) = .frame n pdu uid tid pid ∧ decode pdu = .ok (some m) := by
  obtain ⟨_, hd⟩ := feedAll_sound step decode units single chunks [] [] ⟨0, rfl⟩
  obtain ⟨k, j, n, pdu, hk, h1, h2, _⟩ := hd m uid tid pid h
  exact ⟨k, j, n, pdu, hk, by simpa using h1, h2⟩

/-! ### LRC: one changed byte of a codeword (data or LRC byte) is always detected -/

theorem lrc_single_byte (data : Bytes) (l k v : Nat) (hd : Bytes.WF data) (hl : l < 256) (hv : v < 256)
    (hok : Impl.checkLRC data l = true) (hk : k < (data ++ [l]).length) (hne : v ≠ (data ++ [l])[k]) :
    let w' := (data ++ [l]).set k v
    Impl.checkLRC (w'.take data.length) (w'.getD data.length 0) = false := by
  intro w'
  rw [Props.Checksum.lrc_check_iff] at hok
  cases hc : Impl.checkLRC (w'.take data.length) (w'.getD data.length 0) with
  | false => rfl
  | true =>
    exfalso
    rw [Props.Checksum.lrc_check_iff] at hc
    by_cases hkd : k < data.length
    · -- a data byte changed, the LRC byte did not
      have e1 : w'.take data.length = data.set k v := by
        simp only [w', List.set_append_left _ _ hkd]; simp
      have e2 : w'.getD data.length 0 = l := by
        simp only [w', List.set_append_left _ _ hkd, List.getD_eq_getElem?_getD]
        rw [List.getElem?_append_right (by simp)]; simp
      rw [e1, e2] at hc
      have hs := sum_set data k v hkd
      have hak : data[k] < 256 := hd _ (List.getElem_mem hkd)
      have hne' : v ≠ data[k] := by
        intro e; apply hne; rw [List.getElem_append_left hkd]; exact e
      unfold lrc at hok hc
      omega
    · -- the LRC byte changed
      have hk' : k = data.length := by simp at hk; omega
      subst hk'
      have e1 : w'.take data.length = data := by
        simp only [w', List.set_append_right _ _ (Nat.le_refl _)]; simp
      have e2 : w'.getD data.length 0 = v := by
        simp only [w', List.set_append_right _ _ (Nat.le_refl _), List.getD_eq_getElem?_getD]
        rw [List.getElem?_append_right (Nat.le_refl _)]; simp
      rw [e1, e2] at hc
      apply hne
      rw [List.getElem_append_right (Nat.le_refl _)]
      simp [hc, hok]

/-- Non-vacuity: a real RTU frame is valid, and a flipped bit is rejected. -/
example : crcValid (rtuFrame 1 3 [0, 0, 0, 2]) = true ∧ crcValid (flipBit (rtuFrame 1 3 [0, 0, 0, 2]) 13) = false := by
  constructor <;> rfl

end Pymodbus.Props.C07
