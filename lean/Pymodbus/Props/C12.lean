/-
  C12 — No received byte sequence can crash a server or corrupt its data.
  On the model of the front-ends, for ALL byte strings: the connection step is a total function whose only
  reactions to an undecodable request are closing the connection (TCP handlers) or resetting the framer (serial /
  datagram handlers) — no exception escapes; the contexts change only through the callback on requests the framer
  delivered (which C07 ties to checksum-valid frames in the received bytes); a stopped connection is inert;
  connection state is per connection, so a fresh connection starts from an empty buffer.
-/
import Pymodbus.Props.C10
import Pymodbus.Props.C07
import Pymodbus.Props.C03
import Pymodbus.Generated.Tables
namespace Pymodbus.Props.C12
open Pymodbus Pymodbus.Server Pymodbus.Framer

/-- whatever bytes arrive, on every front-end, no exception escapes the entry point -/
theorem no_exception_escapes (cfg : Cfg) (conn : Conn) (ctx : World) (chunk : Bytes) :
    (connStep cfg conn ctx chunk).2.2.2 = none := by
  unfold connStep
  split
  · rfl
  · split
    · rfl
    · simp only []
      split
      · rfl
      · cases cfg.frontend <;> rfl

theorem serve_no_exception (cfg : Cfg) (conn : Conn) (ctx : World) (chunks : List Bytes) :
    ∀ e ∈ (serve cfg conn ctx chunks).2.2.2, e = none := by
  induction chunks generalizing conn ctx with
  | nil => intro e he; simp [serve] at he
  | cons c cs ih =>
    intro e he
    simp only [serve, List.mem_cons] at he
    rcases he with rfl | he
    · exact no_exception_escapes cfg conn ctx c
    · exact ih _ _ e he

/-- the contexts change only by the callback applied to delivered requests: no delivery, no change -/
theorem store_unchanged_without_delivery (cfg : Cfg) (ctx : World) (evs : List (Ev Req))
    (h : ∀ e ∈ evs, ∀ r u t p, e ≠ .deliver r u t p) : (handleEvents cfg ctx evs).1 = ctx := by
  cases evs with
  | nil => rfl
  | cons e rest =>
    cases e with
    | raised err => rfl
    | deliver r uid tid pid => exact absurd rfl (h _ (by simp) r uid tid pid)

/-- … and a delivered request that is not a valid write (it is answered with an exception) changes nothing
    either: the callback's effect on the addressed unit is `Impl.serverExecute`, for which C05 applies -/
theorem rejected_request_changes_nothing (s : SlaveCtx) (r : Req)
    (he : (Impl.serverExecute s r).2.isException = true) : (Impl.serverExecute s r).1 = s :=
  C05.exception_no_change s r he

/-- a connection that was closed is inert -/
theorem stopped_connection_inert (cfg : Cfg) (conn : Conn) (ctx : World) (chunk : Bytes) (h : conn.running = false) :
    connStep cfg conn ctx chunk = (conn, ctx, [], none) := by
  unfold connStep; simp [h]

/-- the worst a connection does on bytes it cannot decode: close itself (TCP) or forget its buffer -/
theorem offending_data_closes_or_resets (cfg : Cfg) (conn : Conn) (ctx : World) (chunk : Bytes) :
    (connStep cfg conn ctx chunk).1.running = conn.running ∨
    ((connStep cfg conn ctx chunk).1.running = false ∧ (connStep cfg conn ctx chunk).1.buf = []) := by
  unfold connStep
  split
  · left; rfl
  · split
    · left; rfl
    · simp only []
      split
      · left; rfl
      · cases cfg.frontend <;> first | (right; exact ⟨rfl, rfl⟩) | (left; simp_all [resnap])

/-- a connection that was just accepted filters with the units hosted now, whichever way the front-end reads them -/
theorem openConn_units (cfg : Cfg) (w : World) :
    (openConn cfg w).snap.getD (acceptedUnits cfg w.units) = acceptedUnits cfg w.units ∧
    (openConn cfg w).buf = [] ∧ (openConn cfg w).running = true := by
  unfold openConn resnap
  refine ⟨?_, rfl, rfl⟩
  split <;> rfl

theorem decServer_eq : decServer = (fun pdu => (Impl.decReq pdu).map some) := by
  funext pdu
  unfold decServer
  cases Impl.decReq pdu <;> rfl

/-- the contexts after executing a request on the unit `uid` resolves to -/
def afterExec (w : World) (uid : Nat) (s' : SlaveCtx) : World :=
  let key : Int := if w.units.single then 0 else uid
  { w with units := { w.units with slaves := ServerCtx.insert w.units.slaves key s' } }

/-- after ANY history (the contexts `ctx` are arbitrary), a well-formed request on a fresh connection is answered
    with exactly one frame: the framing, with the request's ids, of what executing the request on the addressed
    unit's current tables yields (TCP framing; every front-end) -/
theorem fresh_connection_probe_tcp (cfg : Cfg) (hf : cfg.framer = .tcp) (w : World)
    (hl : (isTwisted cfg.frontend && w.ctl.listenOnly) = false)
    (r : Req) (hp : C01.Plain r) (hw : PduSpec.WFReq r) (hd : C01.DiagOneWord r)
    (hda : isDataAccess (PduSpec.normReq r) = true) (tid pid uid : Nat)
    (hu : validUnit (acceptedUnits cfg w.units) w.units.single uid = true)
    (s : SlaveCtx) (hs : w.units.getItem uid = .ok s) (hb : C10.bcast cfg uid = false)
    (f : Bytes) (hfr : frameResp cfg (Impl.serverExecute s (PduSpec.normReq r)).2 uid tid pid = .ok f) :
    ∃ data, Impl.encReq r = .ok data ∧
      (connStep cfg (openConn cfg w) w (tcpFrame tid pid uid r.fc data)).2.2 = ([f], none) ∧
      (connStep cfg (openConn cfg w) w (tcpFrame tid pid uid r.fc data)).1.buf = [] ∧
      (connStep cfg (openConn cfg w) w (tcpFrame tid pid uid r.fc data)).1.running = true := by
  obtain ⟨data, he, hfeed⟩ := C03.request_roundtrip_tcp r hp hw hd tid pid uid (acceptedUnits cfg w.units) w.units.single hu
  refine ⟨data, he, ?_⟩
  have hex := C09.execAny_dataAccess w.ctl s (PduSpec.normReq r) hda
  have hcb : callback cfg w (PduSpec.normReq r) uid =
      (afterExec w uid (Impl.serverExecute s (PduSpec.normReq r)).1, some (Impl.serverExecute s (PduSpec.normReq r)).2) := by
    unfold callback
    have hb' : (cfg.broadcast && hasBroadcast cfg.frontend && uid == 0) = false := hb
    rw [if_neg (by simp [hb'])]
    simp only [hs, hex, afterExec]
  have hsr : shouldRespond (Impl.serverExecute s (PduSpec.normReq r)).2 = true :=
    C09.impl_should_respond s (PduSpec.normReq r) ((C09.isDataAccess_iff _).1 hda)
  have hstep : stepFor .tcp = tcpStep := by
    funext buf; rfl
  have hh : handleEvents cfg w [.deliver (PduSpec.normReq r) uid tid pid] =
      (countMessage cfg (afterExec w uid (Impl.serverExecute s (PduSpec.normReq r)).1), [f], none) := by
    rw [C09.handle_cons_ok [] hcb hsr hfr]
    simp [handleEvents]
  obtain ⟨ho1, ho2, ho3⟩ := openConn_units cfg w
  unfold connStep
  simp only [ho1, ho2, ho3, Bool.not_true, Bool.false_eq_true, if_false, hl, hf, reduceCtorEq, hstep, decServer_eq, hfeed, hh]
  refine ⟨trivial, ?_, ?_⟩ <;> simp [resnap]

/-- the framings a server front-end can be configured with, as the `Framing` of the receive-loop theory -/
def framingOf : FramerKind → Option C06.Framing
  | .tcp => some .tcp
  | .rtu => some (.rtu rtuRuleServer)
  | .ascii => some .ascii
  | .binary => some .binary
  | .tls => none

/-- EVERY framing (TCP, RTU, ASCII, binary), every front-end: after ANY history, the packet the framer builds for a
    data-access request, arriving whole on a fresh connection, is answered with exactly one frame: the framing, with
    the request's ids, of what executing the request on the addressed unit's current tables yields -/
theorem fresh_connection_probe (cfg : Cfg) (F : C06.Framing) (hF : framingOf cfg.framer = some F) (w : World)
    (hl : (isTwisted cfg.frontend && w.ctl.listenOnly) = false)
    (f : VFrame Req) (hb : C06.IsBuilt F decServer (acceptedUnits cfg w.units) w.units.single f)
    (hda : isDataAccess f.msg = true)
    (s : SlaveCtx) (hs : w.units.getItem f.uid = .ok s) (hbc : C10.bcast cfg f.uid = false)
    (g : Bytes) (hfr : frameResp cfg (Impl.serverExecute s f.msg).2 f.uid f.tid f.pid = .ok g) :
    (connStep cfg (openConn cfg w) w f.bytes).2.2 = ([g], none) ∧
    (connStep cfg (openConn cfg w) w f.bytes).1.buf = [] ∧ (connStep cfg (openConn cfg w) w f.bytes).1.running = true := by
  have hfeed := C03.whole_packet_delivers F decServer (acceptedUnits cfg w.units) w.units.single f hb
  have hex := C09.execAny_dataAccess w.ctl s f.msg hda
  have hcb : callback cfg w f.msg f.uid =
      (afterExec w f.uid (Impl.serverExecute s f.msg).1, some (Impl.serverExecute s f.msg).2) := by
    unfold callback
    have hb' : (cfg.broadcast && hasBroadcast cfg.frontend && f.uid == 0) = false := hbc
    rw [if_neg (by simp [hb'])]
    simp only [hs, hex, afterExec]
  have hsr : shouldRespond (Impl.serverExecute s f.msg).2 = true :=
    C09.impl_should_respond s f.msg ((C09.isDataAccess_iff _).1 hda)
  have hh : handleEvents cfg w [.deliver f.msg f.uid f.tid f.pid] =
      (countMessage cfg (afterExec w f.uid (Impl.serverExecute s f.msg).1), [g], none) := by
    rw [C09.handle_cons_ok [] hcb hsr hfr]
    simp [handleEvents]
  have hstep : stepFor cfg.framer = C06.stepOf F ∧ cfg.framer ≠ .tls := by
    cases hk : cfg.framer <;> rw [hk] at hF <;> simp only [framingOf, Option.some.injEq, reduceCtorEq] at hF
    all_goals subst hF
    all_goals exact ⟨by funext buf; rfl, by simp⟩
  obtain ⟨ho1, ho2, ho3⟩ := openConn_units cfg w
  unfold connStep
  simp only [ho1, ho2, ho3, Bool.not_true, Bool.false_eq_true, if_false, hl, hstep.2, hstep.1, hfeed, hh]
  refine ⟨trivial, ?_, ?_⟩ <;> simp [resnap]

def ctl0 : Control := { counters := List.replicate 9 0, diagReg := List.replicate 16 false, plus := List.replicate 54 0, ident := [] }

example : (connStep ⟨.tcp, .syncTcp, false, false⟩ { buf := [] } ⟨ServerCtx.mkSingle ⟨[.seq ⟨0, [1]⟩], 0, 0, 0, 0, true⟩, ctl0⟩
    [0, 1, 0, 0, 0, 3, 1, 16, 0]).1.running = false := by rfl

-- the probe theorem's conclusion on a concrete instance (read holding register 0 of a one-register unit holding 7)
example : (connStep ⟨.tcp, .aioTcp, false, false⟩ { buf := [] } ⟨ServerCtx.mkSingle ⟨[.seq ⟨0, [7]⟩], 0, 0, 0, 0, true⟩, ctl0⟩
    [0, 1, 0, 0, 0, 6, 1, 3, 0, 0, 0, 1]).2.2 = ([[0, 1, 0, 0, 0, 5, 1, 3, 2, 0, 7]], none) := by rfl

-- … and over RTU framing on the Twisted UDP front-end
example : (connStep ⟨.rtu, .twistedUdp, false, false⟩ { buf := [] } ⟨ServerCtx.mkSingle ⟨[.seq ⟨0, [7]⟩], 0, 0, 0, 0, true⟩, ctl0⟩
    [1, 3, 0, 0, 0, 1, 132, 10]).2.2 = ([[1, 3, 2, 0, 7, 249, 134]], none) := by rfl


/-- tie to the source: the structure of the seven front-ends as read off the source files on this run (by ast: which
    receive methods append unit 0 when broadcast is enabled, what each catch-all does with an exception out of the
    receive call, who counts sent messages, who is gated by listen-only mode, that sending is gated by
    `should_respond` and that `execute` copies transaction id and unit id to the response) is the one the model encodes -/
theorem generated_server_structure :
    Generated.serverStructure = allFrontends.map (fun f =>
      (f.name, addsBroadcastUnit f, f.onErrorSrc, isTwisted f, isTwisted f, true, true)) := by rfl

end Pymodbus.Props.C12
