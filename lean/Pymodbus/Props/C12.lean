/-
  C12 — No received byte sequence can crash a server or corrupt its data.
  On the model of the front-ends, for ALL byte strings: the connection step is a total function whose only
  reactions to an undecodable request are closing the connection (TCP handlers) or resetting the framer (serial /
  datagram handlers) — no exception escapes; the contexts change only through the callback on requests the framer
  delivered (which C07 ties to checksum-valid frames in the received bytes); a stopped connection is inert;
  connection state is per connection, so a fresh connection starts from an empty buffer.
-/
import Pymodbus.Props.C10
import Pymodbus.Props.C07
import Pymodbus.Props.C03
import Pymodbus.Generated.Tables
import Pymodbus.Lemmas.ServerChunking
namespace Pymodbus.Props.C12
open Pymodbus Pymodbus.Server Pymodbus.Framer

/-- whatever bytes arrive, on every front-end, no exception escapes the entry point -/
theorem no_exception_escapes (cfg : Cfg) (conn : Conn) (ctx : World) (chunk : Bytes) :
    (connStep cfg conn ctx chunk).2.2.2 = none := by
  unfold connStep
  split
  · rfl
  · split
    · rfl
    · simp only []
      split
      · rfl
      · cases cfg.frontend <;> rfl

theorem serve_no_exception (cfg : Cfg) (conn : Conn) (ctx : World) (chunks : List Bytes) :
    ∀ e ∈ (serve cfg conn ctx chunks).2.2.2, e = none := by
  induction chunks generalizing conn ctx with
  | nil => intro e he; simp [serve] at he
  | cons c cs ih =>
    intro e he
    simp only [serve, List.mem_cons] at he
    rcases he with rfl | he
    · exact no_exception_escapes cfg conn ctx c
    · exact ih _ _ e he

/-- the contexts change only by the callback applied to delivered requests: no delivery, no change -/
theorem store_unchanged_without_delivery (cfg : Cfg) (ctx : World) (evs : List (Ev Req))
    (h : ∀ e ∈ evs, ∀ r u t p, e ≠ .deliver r u t p) : (handleEvents cfg ctx evs).1 = ctx := by
  cases evs with
  | nil => rfl
  | cons e rest =>
    cases e with
    | raised err => rfl
    | deliver r uid tid pid => exact absurd rfl (h _ (by simp) r uid tid pid)

/-- … and a delivered request that is not a valid write (it is answered with an exception) changes nothing
    either: the callback's effect on the addressed unit is `Impl.serverExecute`, for which C05 applies -/
theorem rejected_request_changes_nothing (s : SlaveCtx) (r : Req)
    (he : (Impl.serverExecute s r).2.isException = true) : (Impl.serverExecute s r).1 = s :=
  C05.exception_no_change s r he

/-- a connection that was closed is inert -/
theorem stopped_connection_inert (cfg : Cfg) (conn : Conn) (ctx : World) (chunk : Bytes) (h : conn.running = false) :
    connStep cfg conn ctx chunk = (conn, ctx, [], none) := by
  unfold connStep; simp [h]

/-- the worst a connection does on bytes it cannot decode: close itself (TCP) or forget its buffer -/
theorem offending_data_closes_or_resets (cfg : Cfg) (conn : Conn) (ctx : World) (chunk : Bytes) :
    (connStep cfg conn ctx chunk).1.running = conn.running ∨
    ((connStep cfg conn ctx chunk).1.running = false ∧ (connStep cfg conn ctx chunk).1.buf = []) := by
  unfold connStep
  split
  · left; rfl
  · split
    · left; rfl
    · simp only []
      split
      · left; rfl
      · cases cfg.frontend <;> first | (right; exact ⟨rfl, rfl⟩) | (left; simp_all [resnap])

/-- a connection that was just accepted filters with the units hosted now, whichever way the front-end reads them -/
theorem openConn_units (cfg : Cfg) (w : World) :
    (openConn cfg w).snap.getD (acceptedUnits cfg w.units) = acceptedUnits cfg w.units ∧
    (openConn cfg w).buf = [] ∧ (openConn cfg w).running = true := by
  unfold openConn resnap
  refine ⟨?_, rfl, rfl⟩
  split <;> rfl

theorem decServer_eq : decServer = (fun pdu => (Impl.decReq pdu).map some) := by
  funext pdu
  unfold decServer
  cases Impl.decReq pdu <;> rfl

/-- the contexts after executing a request on the unit `uid` resolves to -/
def afterExec (w : World) (uid : Nat) (s' : SlaveCtx) : World :=
  let key : Int := if w.units.single then 0 else uid
  { w with units := { w.units with slaves := ServerCtx.insert w.units.slaves key s' } }

/-- after ANY history (the contexts `ctx` are arbitrary), a well-formed request on a fresh connection is answered
    with exactly one frame: the framing, with the request's ids, of what executing the request on the addressed
    unit's current tables yields (TCP framing; every front-end) -/
theorem fresh_connection_probe_tcp (cfg : Cfg) (hf : cfg.framer = .tcp) (w : World)
    (hl : (isTwisted cfg.frontend && w.ctl.listenOnly) = false)
    (r : Req) (hp : C01.Plain r) (hw : PduSpec.WFReq r) (hd : C01.DiagOneWord r)
    (hda : isDataAccess (PduSpec.normReq r) = true) (tid pid uid : Nat)
    (hu : validUnit (acceptedUnits cfg w.units) w.units.single uid = true)
    (s : SlaveCtx) (hs : w.units.getItem uid = .ok s) (hb : C10.bcast cfg uid = false)
    (f : Bytes) (hfr : frameResp cfg (Impl.serverExecute s (PduSpec.normReq r)).2 uid tid pid = .ok f) :
    ∃ data, Impl.encReq r = .ok data ∧
      (connStep cfg (openConn cfg w) w (tcpFrame tid pid uid r.fc data)).2.2 = ([f], none) ∧
      (connStep cfg (openConn cfg w) w (tcpFrame tid pid uid r.fc data)).1.buf = [] ∧
      (connStep cfg (openConn cfg w) w (tcpFrame tid pid uid r.fc data)).1.running = true := by
  obtain ⟨data, he, hfeed⟩ := C03.request_roundtrip_tcp r hp hw hd tid pid uid (acceptedUnits cfg w.units) w.units.single hu
  refine ⟨data, he, ?_⟩
  have hex := C09.execAny_dataAccess w.ctl s (PduSpec.normReq r) hda
  have hcb : callback cfg w (PduSpec.normReq r) uid =
      (afterExec w uid (Impl.serverExecute s (PduSpec.normReq r)).1, some (Impl.serverExecute s (PduSpec.normReq r)).2) := by
    unfold callback
    have hb' : (cfg.broadcast && hasBroadcast cfg.frontend && uid == 0) = false := hb
    rw [if_neg (by simp [hb'])]
    simp only [hs, hex, afterExec]
  have hsr : shouldRespond (Impl.serverExecute s (PduSpec.normReq r)).2 = true :=
    C09.impl_should_respond s (PduSpec.normReq r) ((C09.isDataAccess_iff _).1 hda)
  have hstep : stepFor .tcp = tcpStep := by
    funext buf; rfl
  have hh : handleEvents cfg w [.deliver (PduSpec.normReq r) uid tid pid] =
      (countMessage cfg (afterExec w uid (Impl.serverExecute s (PduSpec.normReq r)).1), [f], none) := by
    rw [C09.handle_cons_ok [] hcb hsr hfr]
    simp [handleEvents]
  obtain ⟨ho1, ho2, ho3⟩ := openConn_units cfg w
  unfold connStep
  simp only [ho1, ho2, ho3, Bool.not_true, Bool.false_eq_true, if_false, hl, hf, reduceCtorEq, hstep, decServer_eq, hfeed, hh]
  refine ⟨trivial, ?_, ?_⟩ <;> simp [resnap]

/-- the framings a server front-end can be configured with, as the `Framing` of the receive-loop theory -/
def framingOf : FramerKind → Option C06.Framing
  | .tcp => some .tcp
  | .rtu => some (.rtu rtuRuleServer)
  | .ascii => some .ascii
  | .binary => some .binary
  | .tls => none

/-- EVERY framing (TCP, RTU, ASCII, binary), every front-end: after ANY history, the packet the framer builds for a
    data-access request, arriving whole on a fresh connection, is answered with exactly one frame: the framing, with
    the request's ids, of what executing the request on the addressed unit's current tables yields -/
theorem fresh_connection_probe (cfg : Cfg) (F : C06.Framing) (hF : framingOf cfg.framer = some F) (w : World)
    (hl : (isTwisted cfg.frontend && w.ctl.listenOnly) = false)
    (f : VFrame Req) (hb : C06.IsBuilt F decServer (acceptedUnits cfg w.units) w.units.single f)
    (hda : isDataAccess f.msg = true)
    (s : SlaveCtx) (hs : w.units.getItem f.uid = .ok s) (hbc : C10.bcast cfg f.uid = false)
    (g : Bytes) (hfr : frameResp cfg (Impl.serverExecute s f.msg).2 f.uid f.tid f.pid = .ok g) :
    (connStep cfg (openConn cfg w) w f.bytes).2.2 = ([g], none) ∧
    (connStep cfg (openConn cfg w) w f.bytes).1.buf = [] ∧ (connStep cfg (openConn cfg w) w f.bytes).1.running = true := by
  have hfeed := C03.whole_packet_delivers F decServer (acceptedUnits cfg w.units) w.units.single f hb
  have hex := C09.execAny_dataAccess w.ctl s f.msg hda
  have hcb : callback cfg w f.msg f.uid =
      (afterExec w f.uid (Impl.serverExecute s f.msg).1, some (Impl.serverExecute s f.msg).2) := by
    unfold callback
    have hb' : (cfg.broadcast && hasBroadcast cfg.frontend && f.uid == 0) = false := hbc
    rw [if_neg (by simp [hb'])]
    simp only [hs, hex, afterExec]
  have hsr : shouldRespond (Impl.serverExecute s f.msg).2 = true :=
    C09.impl_should_respond s f.msg ((C09.isDataAccess_iff _).1 hda)
  have hh : handleEvents cfg w [.deliver f.msg f.uid f.tid f.pid] =
      (countMessage cfg (afterExec w f.uid (Impl.serverExecute s f.msg).1), [g], none) := by
    rw [C09.handle_cons_ok [] hcb hsr hfr]
    simp [handleEvents]
  have hstep : stepFor cfg.framer = C06.stepOf F ∧ cfg.framer ≠ .tls := by
    cases hk : cfg.framer <;> rw [hk] at hF <;> simp only [framingOf, Option.some.injEq, reduceCtorEq] at hF
    all_goals subst hF
    all_goals exact ⟨by funext buf; rfl, by simp⟩
  obtain ⟨ho1, ho2, ho3⟩ := openConn_units cfg w
  unfold connStep
  simp only [ho1, ho2, ho3, Bool.not_true, Bool.false_eq_true, if_false, hl, hstep.2, hstep.1, hfeed, hh]
  refine ⟨trivial, ?_, ?_⟩ <;> simp [resnap]

def ctl0 : Control := { counters := List.replicate 9 0, diagReg := List.replicate 16 false, plus := List.replicate 54 0, ident := [] }

example : (connStep ⟨.tcp, .syncTcp, false, false⟩ { buf := [] } ⟨ServerCtx.mkSingle ⟨[.seq ⟨0, [1]⟩], 0, 0, 0, 0, true⟩, ctl0⟩
    [0, 1, 0, 0, 0, 3, 1, 16, 0]).1.running = false := by rfl

-- the probe theorem's conclusion on a concrete instance (read holding register 0 of a one-register unit holding 7)
example : (connStep ⟨.tcp, .aioTcp, false, false⟩ { buf := [] } ⟨ServerCtx.mkSingle ⟨[.seq ⟨0, [7]⟩], 0, 0, 0, 0, true⟩, ctl0⟩
    [0, 1, 0, 0, 0, 6, 1, 3, 0, 0, 0, 1]).2.2 = ([[0, 1, 0, 0, 0, 5, 1, 3, 2, 0, 7]], none) := by rfl

-- … and over RTU framing on the Twisted UDP front-end
example : (connStep ⟨.rtu, .twistedUdp, false, false⟩ { buf := [] } ⟨ServerCtx.mkSingle ⟨[.seq ⟨0, [7]⟩], 0, 0, 0, 0, true⟩, ctl0⟩
    [1, 3, 0, 0, 0, 1, 132, 10]).2.2 = ([[1, 3, 2, 0, 7, 249, 134]], none) := by rfl


/-- tie to the source: the structure of the seven front-ends as read off the source files on this run (by ast: which
    receive methods append unit 0 when broadcast is enabled, what each catch-all does with an exception out of the
    receive call, who counts sent messages, who is gated by listen-only mode, that sending is gated by
    `should_respond` and that `execute` copies transaction id and unit id to the response) is the one the model encodes -/
theorem generated_server_structure :
    Generated.serverStructure = allFrontends.map (fun f =>
      (f.name, addsBroadcastUnit f, f.onErrorSrc, isTwisted f, isTwisted f, true, true)) := by rfl


/-! ### the responses do not depend on how the request stream is cut into reads -/

/-- one read on a live connection whose unit list is current, when nothing escapes from the callback: the framer is fed,
    the deliveries go through the callback, the connection keeps what the framer kept -/
theorem connStep_ok (cfg : Cfg) (hk : cfg.framer ≠ .tls) (hlo : (isTwisted cfg.frontend && w.ctl.listenOnly) = false)
    (hud : cfg.frontend ≠ .syncUdp) (conn : Conn) (hr : conn.running = true)
    (hcur : conn.snap = none ∨ conn.snap = some (acceptedUnits cfg w.units)) (c : Bytes)
    (hne : (handleEvents cfg w (feed (stepFor cfg.framer) decServer (acceptedUnits cfg w.units) w.units.single
              conn.buf c).1).2.2 = none) :
    connStep cfg conn w c =
      (resnap cfg (handleEvents cfg w (feed (stepFor cfg.framer) decServer (acceptedUnits cfg w.units) w.units.single
              conn.buf c).1).1
         { conn with buf := (feed (stepFor cfg.framer) decServer (acceptedUnits cfg w.units) w.units.single conn.buf c).2 },
       (handleEvents cfg w (feed (stepFor cfg.framer) decServer (acceptedUnits cfg w.units) w.units.single
              conn.buf c).1).1,
       (handleEvents cfg w (feed (stepFor cfg.framer) decServer (acceptedUnits cfg w.units) w.units.single
              conn.buf c).1).2.1, none) := by
  have hu : conn.snap.getD (acceptedUnits cfg w.units) = acceptedUnits cfg w.units := by
    rcases hcur with h | h <;> rw [h] <;> rfl
  unfold connStep
  simp only [hr, hlo, Bool.not_true, Bool.false_eq_true, if_false, hu, if_neg hk, if_neg hud]
  generalize handleEvents cfg w (feed (stepFor cfg.framer) decServer (acceptedUnits cfg w.units) w.units.single
    conn.buf c).1 = h at hne ⊢
  obtain ⟨w', outs, esc⟩ := h
  simp only at hne
  subst hne
  rfl

/-- the Twisted protocols look at the listen-only switch when data arrives: it must be off at every point of the run
    (it is switched on only by the diagnostic request Force Listen Only Mode); for the other front-ends this is `True` -/
def ListenOff (cfg : Cfg) (w : World) (evs : List (Ev Req)) : Prop :=
  ∀ p, p <+: evs → (isTwisted cfg.frontend && (handleEvents cfg w p).1.ctl.listenOnly) = false

theorem listenOff_of_not_twisted (cfg : Cfg) (w : World) (evs : List (Ev Req)) (h : isTwisted cfg.frontend = false) :
    ListenOff cfg w evs := by
  intro p _; simp [h]

/-- a connection served read by read IS the framer fed read by read, followed by the callback on everything it delivered
    — as long as no exception escapes the callback (and, Twisted, listen-only mode stays off) -/
theorem serve_as_feedAll (cfg : Cfg) (hk : cfg.framer ≠ .tls)
    (hud : cfg.frontend ≠ .syncUdp) (chunks : List Bytes) (conn : Conn) (w : World) (hr : conn.running = true)
    (hcur : conn.snap = none ∨ conn.snap = some (acceptedUnits cfg w.units))
    (hlo : ListenOff cfg w (feedAll (stepFor cfg.framer) decServer (acceptedUnits cfg w.units) w.units.single
              conn.buf chunks).1.flatten)
    (hne : (handleEvents cfg w (feedAll (stepFor cfg.framer) decServer (acceptedUnits cfg w.units) w.units.single
              conn.buf chunks).1.flatten).2.2 = none) :
    (serve cfg conn w chunks).2.1 =
      (handleEvents cfg w (feedAll (stepFor cfg.framer) decServer (acceptedUnits cfg w.units) w.units.single
              conn.buf chunks).1.flatten).1 ∧
    (serve cfg conn w chunks).2.2.1.flatten =
      (handleEvents cfg w (feedAll (stepFor cfg.framer) decServer (acceptedUnits cfg w.units) w.units.single
              conn.buf chunks).1.flatten).2.1 ∧
    (serve cfg conn w chunks).1.buf =
      (feedAll (stepFor cfg.framer) decServer (acceptedUnits cfg w.units) w.units.single conn.buf chunks).2 ∧
    (serve cfg conn w chunks).1.running = true ∧
    (∀ e ∈ (serve cfg conn w chunks).2.2.2, e = none) := by
  induction chunks generalizing conn w with
  | nil => simp [serve, feedAll, handleEvents, hr]
  | cons c cs ih =>
    simp only [feedAll, List.flatten_cons] at hne hlo ⊢
    have h1 := handleEvents_prefix_ok cfg w _ _ hne
    have hlo0 : (isTwisted cfg.frontend && w.ctl.listenOnly) = false := by
      have := hlo [] List.nil_prefix
      simpa [handleEvents] using this
    have hstep := connStep_ok cfg hk hlo0 hud conn hr hcur c h1
    obtain ⟨hacc, hsing⟩ := handleEvents_accepted cfg w
      (feed (stepFor cfg.framer) decServer (acceptedUnits cfg w.units) w.units.single conn.buf c).1
    have hlo1 : ∀ p, p <+: (feedAll (stepFor cfg.framer) decServer (acceptedUnits cfg w.units) w.units.single
          (feed (stepFor cfg.framer) decServer (acceptedUnits cfg w.units) w.units.single conn.buf c).2 cs).1.flatten →
        (isTwisted cfg.frontend && (handleEvents cfg (handleEvents cfg w (feed (stepFor cfg.framer) decServer
          (acceptedUnits cfg w.units) w.units.single conn.buf c).1).1 p).1.ctl.listenOnly) = false := by
      intro p hp
      have := hlo ((feed (stepFor cfg.framer) decServer (acceptedUnits cfg w.units) w.units.single conn.buf c).1 ++ p)
        ((List.prefix_append_right_inj _).2 hp)
      rw [handleEvents_append cfg w _ _ h1] at this
      exact this
    rw [handleEvents_append cfg w _ _ h1] at hne ⊢
    simp only at hne
    generalize feed (stepFor cfg.framer) decServer (acceptedUnits cfg w.units) w.units.single conn.buf c = fe
      at hne hstep hacc hsing h1 hlo1 ⊢
    generalize hw1 : (handleEvents cfg w fe.1).1 = w1 at hne hstep hacc hsing hlo1 ⊢
    have hcur' : (resnap cfg w1 { conn with buf := fe.2 }).snap = none ∨
        (resnap cfg w1 { conn with buf := fe.2 }).snap = some (acceptedUnits cfg w1.units) := by
      simp only [resnap]; split <;> simp
    have hr' : (resnap cfg w1 { conn with buf := fe.2 }).running = true := by simp [resnap, hr]
    have hb' : (resnap cfg w1 { conn with buf := fe.2 }).buf = fe.2 := rfl
    have := ih (resnap cfg w1 { conn with buf := fe.2 }) w1 hr' hcur'
      (by rw [hb', hacc, hsing]; exact hlo1) (by rw [hb', hacc, hsing]; exact hne)
    rw [hb', hacc, hsing] at this
    obtain ⟨a1, a2, a3, a4, a5⟩ := this
    simp only [serve, hstep, List.flatten_cons]
    refine ⟨a1, by rw [a2], a3, a4, ?_⟩
    intro e he
    simp only [List.mem_cons] at he
    rcases he with he | he
    · exact he
    · exact a5 e he

/-- **Responses are independent of TCP segmentation / serial read boundaries.**  A stream of valid request frames
    (any request classes, any ids, any number), cut into reads ANYWHERE, makes a stream front-end write exactly the
    bytes — and leaves exactly the datastore and control block — that handing all the requests to the callback one
    after the other yields; nothing stays buffered, the connection stays open, no exception escapes.  (Composition of
    C06 `chunking_independent` with the front-end model; hypotheses: no `buildPacket` failure in the run; Twisted:
    listen-only mode is not switched on in the run.) -/
theorem serve_chunking_independent (cfg : Cfg) (F : C06.Framing) (hF : framingOf cfg.framer = some F)
    (hud : cfg.frontend ≠ .syncUdp) (w : World)
    (fs : List (VFrame Req)) (hfs : ∀ f ∈ fs, C06.IsBuilt F decServer (acceptedUnits cfg w.units) w.units.single f)
    (chunks : List Bytes) (hc : chunks.flatten = stream fs)
    (hlo : ListenOff cfg w (fs.map (fun f => Ev.deliver f.msg f.uid f.tid f.pid)))
    (hne : (handleEvents cfg w (fs.map (fun f => Ev.deliver f.msg f.uid f.tid f.pid))).2.2 = none) :
    (serve cfg (openConn cfg w) w chunks).2.1 =
      (handleEvents cfg w (fs.map (fun f => Ev.deliver f.msg f.uid f.tid f.pid))).1 ∧
    (serve cfg (openConn cfg w) w chunks).2.2.1.flatten =
      (handleEvents cfg w (fs.map (fun f => Ev.deliver f.msg f.uid f.tid f.pid))).2.1 ∧
    (serve cfg (openConn cfg w) w chunks).1.buf = [] ∧
    (serve cfg (openConn cfg w) w chunks).1.running = true ∧
    (∀ e ∈ (serve cfg (openConn cfg w) w chunks).2.2.2, e = none) := by
  have hstep : stepFor cfg.framer = C06.stepOf F ∧ cfg.framer ≠ .tls := by
    cases hk : cfg.framer <;> rw [hk] at hF <;> simp only [framingOf, Option.some.injEq, reduceCtorEq] at hF
    all_goals subst hF
    all_goals exact ⟨by funext buf; rfl, by simp⟩
  obtain ⟨hev, hbuf⟩ := C06.chunking_independent F decServer (acceptedUnits cfg w.units) w.units.single fs hfs chunks hc
  have hcur : (openConn cfg w).snap = none ∨ (openConn cfg w).snap = some (acceptedUnits cfg w.units) := by
    simp only [openConn, resnap]; split <;> simp
  have hb0 : (openConn cfg w).buf = [] := rfl
  have := serve_as_feedAll cfg hstep.2 hud chunks (openConn cfg w) w rfl hcur
    (by rw [hb0, hstep.1, hev]; exact hlo) (by rw [hb0, hstep.1, hev]; exact hne)
  rw [hb0, hstep.1, hev, hbuf] at this
  exact this

/-- … in particular any two ways of cutting the same request stream give the same bytes on the wire and the same
    final state -/
theorem serve_any_two_chunkings (cfg : Cfg) (F : C06.Framing) (hF : framingOf cfg.framer = some F)
    (hud : cfg.frontend ≠ .syncUdp) (w : World)
    (fs : List (VFrame Req)) (hfs : ∀ f ∈ fs, C06.IsBuilt F decServer (acceptedUnits cfg w.units) w.units.single f)
    (c1 c2 : List Bytes) (h1 : c1.flatten = stream fs) (h2 : c2.flatten = stream fs)
    (hlo : ListenOff cfg w (fs.map (fun f => Ev.deliver f.msg f.uid f.tid f.pid)))
    (hne : (handleEvents cfg w (fs.map (fun f => Ev.deliver f.msg f.uid f.tid f.pid))).2.2 = none) :
    (serve cfg (openConn cfg w) w c1).2.2.1.flatten = (serve cfg (openConn cfg w) w c2).2.2.1.flatten ∧
    (serve cfg (openConn cfg w) w c1).2.1 = (serve cfg (openConn cfg w) w c2).2.1 := by
  obtain ⟨a1, a2, _⟩ := serve_chunking_independent cfg F hF hud w fs hfs c1 h1 hlo hne
  obtain ⟨b1, b2, _⟩ := serve_chunking_independent cfg F hF hud w fs hfs c2 h2 hlo hne
  exact ⟨by rw [a2, b2], by rw [a1, b1]⟩

/-- C09 over arbitrary read boundaries: however the request stream is cut, the connection writes exactly one frame per
    request that the callback answers (none for broadcasts, ignored missing units, unsent listen-only acknowledgements) -/
theorem serve_one_frame_per_answered_request (cfg : Cfg) (F : C06.Framing) (hF : framingOf cfg.framer = some F)
    (hud : cfg.frontend ≠ .syncUdp) (w : World)
    (fs : List (VFrame Req)) (hfs : ∀ f ∈ fs, C06.IsBuilt F decServer (acceptedUnits cfg w.units) w.units.single f)
    (chunks : List Bytes) (hc : chunks.flatten = stream fs)
    (hlo : ListenOff cfg w (fs.map (fun f => Ev.deliver f.msg f.uid f.tid f.pid)))
    (hne : (handleEvents cfg w (fs.map (fun f => Ev.deliver f.msg f.uid f.tid f.pid))).2.2 = none) :
    (serve cfg (openConn cfg w) w chunks).2.2.1.flatten.length =
      C09.answered cfg w (fs.map (fun f => Ev.deliver f.msg f.uid f.tid f.pid)) := by
  rw [(serve_chunking_independent cfg F hF hud w fs hfs chunks hc hlo hne).2.1]
  exact C09.frames_eq_answered cfg w _ hne

/-- the Twisted hypothesis is needed: with Force Listen Only Mode (FC 8 / sub 4) in the stream, the request behind it is
    served when both arrive in one read and dropped when they arrive in two (the protocol looks at the switch when data
    arrives) -/
theorem twisted_listen_only_depends_on_chunking :
    (serve ⟨.tcp, .twistedTcp, false, false⟩ (openConn ⟨.tcp, .twistedTcp, false, false⟩ ⟨ServerCtx.mkSingle ⟨[.seq ⟨0, [7]⟩], 0, 0, 0, 0, true⟩, ctl0⟩)
      ⟨ServerCtx.mkSingle ⟨[.seq ⟨0, [7]⟩], 0, 0, 0, 0, true⟩, ctl0⟩
      [[0, 1, 0, 0, 0, 6, 1, 8, 0, 4, 0, 0, 0, 2, 0, 0, 0, 6, 1, 3, 0, 0, 0, 1]]).2.2.1.flatten ≠
    (serve ⟨.tcp, .twistedTcp, false, false⟩ (openConn ⟨.tcp, .twistedTcp, false, false⟩ ⟨ServerCtx.mkSingle ⟨[.seq ⟨0, [7]⟩], 0, 0, 0, 0, true⟩, ctl0⟩)
      ⟨ServerCtx.mkSingle ⟨[.seq ⟨0, [7]⟩], 0, 0, 0, 0, true⟩, ctl0⟩
      [[0, 1, 0, 0, 0, 6, 1, 8, 0, 4, 0, 0], [0, 2, 0, 0, 0, 6, 1, 3, 0, 0, 0, 1]]).2.2.1.flatten := by decide

-- Non-vacuity of `serve_chunking_independent`: a write followed by a read of the same register, on one TCP connection;
-- the hypothesis (nothing escapes the callback) holds, and the stream cut in the middle of the second request and byte by
-- byte gives the bytes of the two responses
example : (handleEvents ⟨.tcp, .syncTcp, false, false⟩ ⟨ServerCtx.mkSingle ⟨[.seq ⟨0, [7]⟩], 0, 0, 0, 0, true⟩, ctl0⟩
    [.deliver (.writeRegister 0 9) 1 1 0, .deliver (.readHolding 0 1) 1 2 0]).2.2 = none := by rfl

example : ((serve ⟨.tcp, .syncTcp, false, false⟩ (openConn ⟨.tcp, .syncTcp, false, false⟩
      ⟨ServerCtx.mkSingle ⟨[.seq ⟨0, [7]⟩], 0, 0, 0, 0, true⟩, ctl0⟩)
      ⟨ServerCtx.mkSingle ⟨[.seq ⟨0, [7]⟩], 0, 0, 0, 0, true⟩, ctl0⟩
      [[0, 1, 0, 0, 0, 6, 1, 6, 0, 0, 0, 9, 0, 2, 0], [0], [0, 6, 1, 3, 0], [0, 0, 1]]).2.2.1.flatten =
    [[0, 1, 0, 0, 0, 6, 1, 6, 0, 0, 0, 9], [0, 2, 0, 0, 0, 5, 1, 3, 2, 0, 9]]) := by rfl

end Pymodbus.Props.C12
