/-
  C12 — No received byte sequence can crash a server or corrupt its data.
  On the model of the front-ends, for ALL byte strings: the connection step is a total function whose only
  reactions to an undecodable request are closing the connection (TCP handlers) or resetting the framer (serial /
  datagram handlers) — no exception escapes; the contexts change only through the callback on requests the framer
  delivered (which C07 ties to checksum-valid frames in the received bytes); a stopped connection is inert;
  connection state is per connection, so a fresh connection starts from an empty buffer.
-/
import Pymodbus.Props.C10
import Pymodbus.Props.C07
namespace Pymodbus.Props.C12
open Pymodbus Pymodbus.Server Pymodbus.Framer

/-- whatever bytes arrive, on every front-end, no exception escapes the entry point -/
theorem no_exception_escapes (cfg : Cfg) (conn : Conn) (ctx : Units) (chunk : Bytes) :
    (connStep cfg conn ctx chunk).2.2.2 = none := by
  unfold connStep
  split
  · rfl
  · simp only []
    split
    · rfl
    · cases cfg.frontend <;> rfl

theorem serve_no_exception (cfg : Cfg) (conn : Conn) (ctx : Units) (chunks : List Bytes) :
    ∀ e ∈ (serve cfg conn ctx chunks).2.2.2, e = none := by
  induction chunks generalizing conn ctx with
  | nil => intro e he; simp [serve] at he
  | cons c cs ih =>
    intro e he
    simp only [serve, List.mem_cons] at he
    rcases he with rfl | he
    · exact no_exception_escapes cfg conn ctx c
    · exact ih _ _ e he

/-- the contexts change only by the callback applied to delivered requests: no delivery, no change -/
theorem store_unchanged_without_delivery (cfg : Cfg) (ctx : Units) (evs : List (Ev Req))
    (h : ∀ e ∈ evs, ∀ r u t p, e ≠ .deliver r u t p) : (handleEvents cfg ctx evs).1 = ctx := by
  cases evs with
  | nil => rfl
  | cons e rest =>
    cases e with
    | raised err => rfl
    | deliver r uid tid pid => exact absurd rfl (h _ (by simp) r uid tid pid)

/-- … and a delivered request that is not a valid write (it is answered with an exception) changes nothing
    either: the callback's effect on the addressed unit is `Impl.serverExecute`, for which C05 applies -/
theorem rejected_request_changes_nothing (s : SlaveCtx) (r : Req)
    (he : (Impl.serverExecute s r).2.isException = true) : (Impl.serverExecute s r).1 = s :=
  C05.exception_no_change s r he

/-- a connection that was closed is inert -/
theorem stopped_connection_inert (cfg : Cfg) (conn : Conn) (ctx : Units) (chunk : Bytes) (h : conn.running = false) :
    connStep cfg conn ctx chunk = (conn, ctx, [], none) := by
  unfold connStep; simp [h]

/-- the worst a connection does on bytes it cannot decode: close itself (TCP) or forget its buffer -/
theorem offending_data_closes_or_resets (cfg : Cfg) (conn : Conn) (ctx : Units) (chunk : Bytes) :
    (connStep cfg conn ctx chunk).1.running = conn.running ∨
    ((connStep cfg conn ctx chunk).1.running = false ∧ (connStep cfg conn ctx chunk).1.buf = []) := by
  unfold connStep
  split
  · left; rfl
  · simp only []
    split
    · left; rfl
    · cases cfg.frontend <;> first | (right; exact ⟨rfl, rfl⟩) | (left; simp_all)

example : (connStep ⟨.tcp, .syncTcp, false, false⟩ { buf := [] } (ServerCtx.mkSingle ⟨[.seq ⟨0, [1]⟩], 0, 0, 0, 0, true⟩)
    [0, 1, 0, 0, 0, 3, 1, 16, 0]).1.running = false := by rfl

end Pymodbus.Props.C12
