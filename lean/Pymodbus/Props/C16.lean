/-
  C16 — The asynchronous (Twisted) client matches pipelined replies by transaction id.

  Model: Model/AsyncClient.lean (ModbusClientProtocol + Dict/FifoTransactionManager, with the application's
  re-entrant callbacks/errbacks).  Spec: Spec/AsyncClientSpec.lean (decidable predicates on the observed
  history; "outstanding" is defined from the trace, not from the table).  Every theorem quantifies over ALL
  operation histories on a fresh protocol object (`init`) – any number of requests, any continuation trees, any
  order/duplication of replies, connection loss anywhere, reconnects – and is proved by induction over the
  history through the invariant `AsyncClient.Inv` (Lemmas/AsyncClient.lean).

  Histories may contain the application's `close()` anywhere (it only clears the flag; the transport's
  `connectionLost` is a separate, later operation): see `after_close_every_execute_fails`,
  `lost_after_close_fails_all_pending`, `close_then_lost`.

  Histories may also contain `execute` calls whose sending fails (`Op.execFail`: encoding or `transport.write`
  raises): `failed_send_leaves_no_deferred`, `reply_after_failed_send`; mutant `Orphan.*` (register before send):
  `orphan_counterexample`.

  Full-strength results: at-most-once, tid matching, FIFO order, unsolicited/duplicate replies dropped, all
  pending deferreds failed on loss (in table order, re-entrant requests included), every request issued while
  the connection is down fails, no exception.  For the serial (FIFO) variant the whole property holds
  (`C16_fifo`).  For the TCP (dict) variant the whole property holds too (`C16_dict`, `distinct_ids`,
  `no_deferred_lost`) since `DictTransactionManager.getNextTID` skips ids that are still pending (5cae7f5); the
  only side condition is the decidable `Spec.RoomAll` (fewer than 65536 requests outstanding: otherwise there is
  no free 16-bit id).  The allocation before that commit is kept as the mutant `Old.*`:
  `distinct_ids_counterexample` / `C16_dict_counterexample` (fixed finding `tid-wrap-overwrite`).
-/
import Pymodbus.Lemmas.AsyncClient
import Pymodbus.Lemmas.AsyncNet
import Pymodbus.Generated.Tables
import Pymodbus.Props.C06
namespace Pymodbus.Props.C16
open Pymodbus Pymodbus.AsyncClient

/-- the observed history of an operation list applied to a fresh protocol object -/
abbrev hist (v : Variant) (ops : List Op) : Spec.Hist := runSeg v init ops

/-- the whole event trace of that history -/
abbrev trace (v : Variant) (ops : List Op) : List Event := (run v init ops).2

theorem flat_hist (v : Variant) (ops : List Op) : Spec.flat (hist v ops) = trace v ops := flat_runSeg ops init

/-! ### each deferred fires at most once -/

/-- **fires_at_most_once.** No deferred gets two events (callback or errback), in any history. -/
theorem fires_at_most_once (v : Variant) (ops : List Op) : Spec.AtMostOnce (trace v ops) :=
  (inv_reach v ops).fired_nodup

/-- a fired deferred is no longer in the table, and a deferred in the table has not fired -/
theorem fired_not_pending (v : Variant) (ops : List Op) :
    ∀ p ∈ (run v init ops).1.pending, p.2.id ∉ fired (trace v ops) :=
  (inv_reach v ops).disjoint

/-! ### the reply delivered is the one with the transaction id sent -/

/-- every request is written exactly once; the requests are numbered in the order in which they are written -/
theorem sent_ids (v : Variant) (ops : List Op) :
    (sents (trace v ops)).map (·.1) = List.range (run v init ops).1.nextId :=
  (inv_reach v ops).sent_ids

theorem sent_once (v : Variant) (ops : List Op) : Spec.SentOnce (trace v ops) := by
  unfold Spec.SentOnce
  rw [sent_ids]
  exact List.nodup_range

/-- **fires_with_matching_tid** (TCP).  Whatever the arrival order: the reply delivered to a deferred carries
    the transaction id that was written to the transport for that deferred's request. -/
theorem fires_with_matching_tid (ops : List Op) : Spec.TidMatch (trace .dict ops) :=
  fun c hc => (inv_reach .dict ops).cb_sent rfl c hc

/-- the same statement on events -/
theorem fires_with_matching_tid' (ops : List Op) (id t tag : Nat)
    (h : Event.callback id t tag ∈ trace .dict ops) :
    Event.sent id t ∈ trace .dict ops ∧ ∀ t', Event.sent id t' ∈ trace .dict ops → t' = t := by
  have hc : (id, t, tag) ∈ cbs (trace .dict ops) := mem_cbs_iff.2 h
  have h1 := fires_with_matching_tid ops _ hc
  refine ⟨mem_sents_iff.1 h1, ?_⟩
  intro t' ht'
  have h2 : (id, t') ∈ sents (trace .dict ops) := mem_sents_iff.2 ht'
  exact sent_unique (inv_reach .dict ops) h2 h1

/-- only the arrival of a reply delivers anything; it delivers at most one deferred, and what is delivered is
    that reply (its transaction id and payload) -/
theorem delivered_reply_is_the_arrived_one (v : Variant) (ops : List Op) :
    Spec.AllSegs (fun _ _ op es => Spec.Arrived op es) [] false (hist v ops) :=
  allSegs_runSeg (v := v) (fun _ _ => True) (fun _ _ _ _ => True) _
    (fun s _ op _ _ => ⟨trivial, arrived_step s op⟩) ops init [] trivial (allSegs_true _ _ _)

/-! ### serial variant: FIFO matching -/

/-- **fifo_order** (serial).  Requests leave the table (answered, or failed by a connection loss) in the order
    in which they were issued. -/
theorem fifo_order (ops : List Op) : Spec.FifoOrder (trace .fifo ops) := by
  have := (inv_reach .fifo ops).sorted rfl
  rw [List.pairwise_append] at this
  exact this.1

/-- a reply always goes to the head of the table, which is the oldest request still in it -/
theorem fifo_reply_oldest (ops : List Op) (t tag : Nat) (k : Nat) (e : Entry) (rest : List (Nat × Entry))
    (hp : (run .fifo init ops).1.pending = (k, e) :: rest) :
    (∀ p ∈ rest, e.id < p.2.id) ∧
    Event.callback e.id t tag ∈ (step .fifo (run .fifo init ops).1 (.reply t tag)).2 := by
  constructor
  · have := (inv_reach .fifo ops).sorted rfl
    rw [List.pairwise_append] at this
    have h2 := this.2.1
    simp only [pendingIds, hp, List.map_cons, List.pairwise_cons] at h2
    intro p hpm
    exact h2.1 _ (List.mem_map.2 ⟨p, hpm, rfl⟩)
  · have hg : AsyncClient.get .fifo (run .fifo init ops).1 t =
        (some e, { (run .fifo init ops).1 with pending := rest }) := by
      simp [AsyncClient.get, hp]
    simp only [step, reply, hg]
    exact fireOk_head _ _ _ _

/-! ### unsolicited and duplicate replies -/

/-- **unsolicited_dropped**, on any state (TCP): a reply whose transaction id is not a key of the table changes
    nothing and fires nothing. -/
theorem unsolicited_dropped (s : State) (t tag : Nat) (h : t ∉ keys s) :
    step .dict s (.reply t tag) = (s, []) :=
  reply_unsolicited tag (get_none_of_not_key h)

/-- serial: a reply that arrives when nothing is pending changes nothing and fires nothing -/
theorem unsolicited_dropped_fifo (s : State) (t tag : Nat) (h : s.pending = []) :
    step .fifo s (.reply t tag) = (s, []) :=
  reply_unsolicited tag (get_none_of_empty t h)

/-- on histories, with "solicited" read off the trace: a reply for which no outstanding request carries its
    transaction id (serial: no outstanding request at all) causes no event -/
theorem unsolicited_dropped_hist (v : Variant) (ops : List Op) :
    Spec.AllSegs (fun pre _ op es => Spec.Unsolicited v pre op es) [] false (hist v ops) :=
  allSegs_runSeg (v := v) (Inv v) (fun _ _ _ _ => True) _
    (fun _ _ op hi _ => ⟨inv_step op hi, unsolicited_step hi op⟩) ops init [] (inv_init v) (allSegs_true _ _ _)

/-- a duplicate of a reply is dropped: after a reply with transaction id `t` has been handled, a second one
    changes nothing and fires nothing (excluded: the callback of the first reply issued a new request and that
    request got exactly the id `t`, which has just become free) -/
theorem duplicate_dropped (ops : List Op) (t tag tag' : Nat)
    (ht : allocTid .dict (AsyncClient.get .dict (run .dict init ops).1 t).2 ≠ t) :
    step .dict (step .dict (run .dict init ops).1 (.reply t tag)).1 (.reply t tag') =
      ((step .dict (run .dict init ops).1 (.reply t tag)).1, []) :=
  unsolicited_dropped _ t tag' (reply_removes_key ((inv_reach .dict ops).keys_nodup rfl) t tag ht)

/-- a reply touches only its own entry: every other entry of the table is still there afterwards -/
theorem reply_keeps_others (ops : List Op) (t tag : Nat) (p : Nat × Entry)
    (hp : p ∈ (run .dict init ops).1.pending) (hk : p.1 ≠ t) :
    p ∈ (step .dict (run .dict init ops).1 (.reply t tag)).1.pending ∨
      ∃ e, (p.1, e) ∈ (step .dict (run .dict init ops).1 (.reply t tag)).1.pending ∧
        p.1 = allocTid .dict (AsyncClient.get .dict (run .dict init ops).1 t).2 := by
  generalize (run .dict init ops).1 = s at hp ⊢
  simp only [step]
  unfold reply
  cases hg : (AsyncClient.get .dict s t).1 with
  | none =>
    have : AsyncClient.get .dict s t = (none, s) := Prod.ext hg (get_none hg)
    rw [this]; exact Or.inl hp
  | some e =>
    obtain ⟨l1, k', l2, hpd, hs', hd, _⟩ := get_some hg
    have : AsyncClient.get .dict s t = (some e, { s with pending := l1 ++ l2 }) := Prod.ext hg hs'
    rw [this]
    obtain ⟨rfl, _⟩ := hd rfl
    generalize hS : ({ s with pending := l1 ++ l2 } : State) = S
    have hSp : S.pending = l1 ++ l2 := by rw [← hS]
    have hSc : S.connected = s.connected := by rw [← hS]
    have hp' : p ∈ l1 ++ l2 := by
      rw [hpd] at hp
      simp only [List.mem_append, List.mem_cons] at hp ⊢
      rcases hp with hp | hp | hp
      · exact Or.inl hp
      · subst hp; exact absurd rfl hk
      · exact Or.inr hp
    simp only
    unfold fireOk
    split
    · rw [hSp]; exact Or.inl hp'
    · rename_i k _
      rcases Bool.eq_false_or_eq_true S.connected with hc | hc
      · rw [execute_connected k hc, issue_connected k hc]
        simp only [add, bump, hSp]
        rcases dictSet_split (l1 ++ l2) (allocTid .dict S) ⟨S.nextId, k⟩ with ⟨_, h2⟩ | ⟨m1, e0, m2, h1, _, h3⟩
        · rw [h2]; exact Or.inl (List.mem_append_left _ hp')
        · rw [h3]
          rw [h1] at hp'
          simp only [List.mem_append, List.mem_cons] at hp' ⊢
          rcases hp' with hp' | hp' | hp'
          · exact Or.inl (Or.inl hp')
          · right
            refine ⟨⟨S.nextId, k⟩, Or.inr (Or.inl ?_), ?_⟩
            · rw [hp']
            · rw [hp']
          · exact Or.inl (Or.inr (Or.inr hp'))
      · have := (execute_down_spec (v := .dict) k S hc).2.1
        simp only
        rw [this, hSp]; exact Or.inl hp'

/-! ### connection loss -/

/-- **lost_fails_all_pending.**  `connectionLost` after any history: every deferred in the table fails with the
    connection-lost error, the table is empty and the connection flag is down afterwards, every request the
    application issues from inside those errbacks (re-entrantly, while the loop runs) fails with "not
    connected", and no exception escapes. -/
theorem lost_fails_all_pending (v : Variant) (ops : List Op) :
    let s := (run v init ops).1
    let r := step v s .connectionLost
    (∀ p ∈ s.pending, Event.errback p.2.id .lost ∈ r.2) ∧
    r.1.pending = [] ∧ r.1.connected = false ∧
    (∀ i, s.nextId ≤ i → i < r.1.nextId → Event.errback i .notConnected ∈ r.2) ∧
    (∀ p ∈ sents r.2, Event.errback p.1 .notConnected ∈ r.2) ∧
    (∀ e ∈ r.2, e.isExc = false) := by
  intro s r
  obtain ⟨h1, h2, h3, h4, h5, _, h7⟩ := connectionLost_spec (inv_reach v ops)
  refine ⟨h5, h3, h2, h7, h4, ?_⟩
  intro e he
  exact h1.no_exc e (List.mem_append_right _ he)

/-- **after_loss_every_execute_fails**, on any state whose connection flag is down: `execute` (with everything
    the application's errbacks re-issue) registers nothing, and every request it writes fails with "not
    connected". -/
theorem after_loss_every_execute_fails (v : Variant) (s : State) (r : AsyncClient.Req) (h : s.connected = false) :
    (execute v s r).1.pending = s.pending ∧ (execute v s r).1.connected = false ∧
    s.nextId < (execute v s r).1.nextId ∧
    (∀ i, s.nextId ≤ i → i < (execute v s r).1.nextId → Event.errback i .notConnected ∈ (execute v s r).2) ∧
    (∀ p ∈ sents (execute v s r).2, Event.errback p.1 .notConnected ∈ (execute v s r).2) := by
  obtain ⟨h1, h2, h3, h4, h5⟩ := execute_down_spec (v := v) r s h
  exact ⟨h2, h1, h4, h5, h3⟩

/-- on histories: after a connection loss, as long as no new connection is made (further `close()` calls and
    losses allowed), nothing is ever registered again and every request issued (directly or from an errback)
    fails -/
theorem after_loss_history (v : Variant) (ops later : List Op) (hl : ∀ op ∈ later, op ≠ .connectionMade) :
    let s1 := (run v init (ops ++ [.connectionLost])).1
    let r := run v s1 later
    r.1.pending = [] ∧ r.1.connected = false ∧
    (∀ i, s1.nextId ≤ i → i < r.1.nextId → Event.errback i .notConnected ∈ r.2) := by
  intro s1 r
  have hinv := inv_reach v (ops ++ [.connectionLost])
  have hs1 : s1 = (step v (run v init ops).1 .connectionLost).1 := by
    simp only [s1, run_append, run]
  obtain ⟨_, h2, h3, _⟩ := connectionLost_spec (inv_reach v ops)
  obtain ⟨a1, a2, _, _, a5⟩ := down_run (v := v) later s1 _ hinv (by rw [hs1]; exact h2) hl
  refine ⟨?_, a1, a5⟩
  cases hp : r.1.pending with
  | nil => rfl
  | cons p rest =>
    have := a2 p (by rw [show (run v s1 later).1.pending = r.1.pending from rfl, hp]; simp)
    rw [hs1, show (step v (run v init ops).1 .connectionLost).1.pending = [] from h3] at this
    simp at this

/-! ### a local `close()` -/

/-- `close()` clears the flag (and calls `transport.close()` when the transport has one) and touches nothing
    else: every pending deferred stays registered, nothing fires -/
theorem close_only_clears_flag (v : Variant) (s : State) (hc : Bool) :
    (step v s (.close hc)).1 = { s with connected := false } ∧
    fired (step v s (.close hc)).2 = [] ∧ sents (step v s (.close hc)).2 = [] := by
  cases hc <;> exact ⟨rfl, rfl, rfl⟩

/-- **after_close_every_execute_fails.**  After `close()` (before or after the transport reports the loss):
    as long as no new connection is made, the flag stays down, nothing new is registered (the table can only
    shrink: replies that still arrive are delivered), and every request issued – directly, from a callback of
    such a late reply, or from an errback – fails with "not connected". -/
theorem after_close_every_execute_fails (v : Variant) (ops later : List Op) (hc : Bool)
    (hl : ∀ op ∈ later, op ≠ .connectionMade) :
    let s1 := (run v init (ops ++ [.close hc])).1
    let r := run v s1 later
    r.1.connected = false ∧ (∀ p ∈ r.1.pending, p ∈ (run v init ops).1.pending) ∧
    (∀ i, s1.nextId ≤ i → i < r.1.nextId → Event.errback i .notConnected ∈ r.2) ∧
    (∀ p ∈ sents r.2, Event.errback p.1 .notConnected ∈ r.2) := by
  intro s1 r
  have hinv := inv_reach v (ops ++ [.close hc])
  have hs1 : s1 = { (run v init ops).1 with connected := false } := by
    simp only [s1, run_append, run, step, close]
  obtain ⟨a1, a2, a3, _, a5⟩ := down_run (v := v) later s1 _ hinv (by rw [hs1]) hl
  exact ⟨a1, fun p hp => by have := a2 p hp; rw [hs1] at this; exact this, a5, a3⟩

/-- **lost_fails_all_pending after a `close()`.**  Whatever happens between the `close()` and the transport's
    `connectionLost` (late replies, further requests, further `close()` calls): every deferred still in the
    table at that point gets the connection-lost errback, the table is empty afterwards, no exception.  Together
    with `after_close_every_execute_fails` (the table only shrinks by deliveries): every request that was
    pending at `close()` is either answered by a late reply or failed by the loss. -/
theorem lost_after_close_fails_all_pending (v : Variant) (ops mid : List Op) (hc : Bool) :
    let s := (run v init (ops ++ [.close hc] ++ mid)).1
    let r := step v s .connectionLost
    (∀ p ∈ s.pending, Event.errback p.2.id .lost ∈ r.2) ∧ r.1.pending = [] ∧ r.1.connected = false ∧
    (∀ e ∈ r.2, e.isExc = false) := by
  intro s r
  obtain ⟨h1, h2, h3, _, _, h6⟩ := lost_fails_all_pending v (ops ++ [.close hc] ++ mid)
  exact ⟨h1, h2, h3, h6⟩

/-- in particular `close()` directly followed by the loss fails exactly the deferreds pending at `close()` -/
theorem close_then_lost (v : Variant) (ops : List Op) (hc : Bool) :
    let s := (run v init ops).1
    let r := run v s [.close hc, .connectionLost]
    (∀ p ∈ s.pending, Event.errback p.2.id .lost ∈ r.2) ∧ r.1.pending = [] ∧ r.1.connected = false := by
  intro s r
  obtain ⟨h1, h2, h3, _⟩ := lost_after_close_fails_all_pending v ops [] hc
  simp only [List.append_nil, run_append, run, List.append_nil] at h1 h2 h3
  refine ⟨?_, by simpa [r, run] using h2, by simpa [r, run] using h3⟩
  intro p hp
  have := h1 p (by simpa [step, close] using hp)
  simp only [r, run, List.append_nil, List.mem_append]
  exact Or.inr this

/-- the same on the observed history: every request written while the connection is down (before the first
    `connectionMade`, inside `connectionLost`, after it) fails with the connection error within the same
    operation -/
theorem fails_when_down_hist (v : Variant) (ops : List Op) :
    Spec.AllSegs (fun _ conn op es => Spec.FailsWhenDown conn op es) [] false (hist v ops) :=
  allSegs_runSeg (v := v) (Inv v) (fun _ _ _ _ => True) _
    (fun _ _ op hi _ => ⟨inv_step op hi, failsWhenDown_step hi op⟩) ops init [] (inv_init v) (allSegs_true _ _ _)

/-- no Python exception escapes from any operation (in particular `getTransaction(tid)` never returns `None`
    inside the loop of `connectionLost`) -/
theorem no_exception (v : Variant) (ops : List Op) : Spec.NoExc (trace v ops) :=
  (inv_reach v ops).no_exc

/-- **The clauses of C16 that hold for every history, both variants.** -/
theorem C16_always (v : Variant) (ops : List Op) : Spec.Always v (hist v ops) where
  atMostOnce := by rw [flat_hist]; exact fires_at_most_once v ops
  sentOnce := by rw [flat_hist]; exact sent_once v ops
  tidMatch := by intro hv; subst hv; rw [flat_hist]; exact fires_with_matching_tid ops
  fifoOrder := by intro hv; subst hv; rw [flat_hist]; exact fifo_order ops
  arrived := delivered_reply_is_the_arrived_one v ops
  unsolicited := unsolicited_dropped_hist v ops
  failsWhenDown := fails_when_down_hist v ops
  noExc := by rw [flat_hist]; exact no_exception v ops

/-! ### a request whose sending fails -/

/-- **failed_send_leaves_no_deferred.**  An `execute` whose encoding or write raises (on any state, connected or
    not): the exception escapes, no deferred exists, nothing is fired and nothing is written; the transaction
    table, the connection flag and the numbering of the requests are exactly what they were – only an id of the
    16-bit counter is consumed. -/
theorem failed_send_leaves_no_deferred (v : Variant) (s : State) (w : FailAt) :
    (step v s (.execFail w)).1 = { s with tid := allocTid v s } ∧
    (step v s (.execFail w)).1.pending = s.pending ∧
    (step v s (.execFail w)).2 = [.sendFail w] ∧
    fired (step v s (.execFail w)).2 = [] ∧ sents (step v s (.execFail w)).2 = [] :=
  ⟨rfl, rfl, rfl, rfl, rfl⟩

/-- the outstanding requests (read off the trace) are the same before and after -/
theorem failed_send_keeps_outstanding (v : Variant) (s : State) (w : FailAt) (pre : List Event) :
    Spec.outstanding (pre ++ (step v s (.execFail w)).2) = Spec.outstanding pre := by
  simp [Spec.outstanding, step, execFail]

/-- a reply that arrives after a failed send is matched exactly as it would have been without it: it is handed
    to the same table entry (TCP: the entry under its id; serial: the oldest real request, which is still at the
    head of the queue) -/
theorem reply_after_failed_send (v : Variant) (s : State) (w : FailAt) (t tag : Nat) :
    (AsyncClient.get v (step v s (.execFail w)).1 t).1 = (AsyncClient.get v s t).1 ∧
    ∀ e, (AsyncClient.get v s t).1 = some e →
      Event.callback e.id t tag ∈ (step v (step v s (.execFail w)).1 (.reply t tag)).2 := by
  have hg : (AsyncClient.get v (step v s (.execFail w)).1 t).1 = (AsyncClient.get v s t).1 := by
    cases v with
    | dict => rfl
    | fifo =>
      simp only [step, execFail, AsyncClient.get]
      cases s.pending with
      | nil => rfl
      | cons p r => rfl
  refine ⟨hg, ?_⟩
  intro e he
  rw [← hg] at he
  simp only [step, reply]
  have : AsyncClient.get v (execFail v s w).1 t = (some e, (AsyncClient.get v (execFail v s w).1 t).2) :=
    Prod.ext he rfl
  rw [this]
  exact fireOk_head _ _ _ _

/-- in a serial history: after any history and a failed send, the next reply fires the oldest pending request -/
theorem fifo_reply_oldest_after_failed_send (ops : List Op) (w : FailAt) (t tag k : Nat) (e : Entry)
    (rest : List (Nat × Entry)) (hp : (run .fifo init ops).1.pending = (k, e) :: rest) :
    Event.callback e.id t tag ∈ (run .fifo init (ops ++ [.execFail w, .reply t tag])).2 := by
  have hg : (AsyncClient.get .fifo (run .fifo init ops).1 t).1 = some e := by simp [AsyncClient.get, hp]
  have := (reply_after_failed_send .fifo (run .fifo init ops).1 w t tag).2 e hg
  simp only [run_append, run, List.append_nil, List.mem_append]
  exact Or.inr (Or.inr this)

/-- the serial scenario of the mutant below, on the model of the real code: the reply goes to request 0 -/
def failedSendOps : List Op :=
  [.connectionMade, .execFail .encode, .execute .plain, .reply 1 7, .connectionLost]

theorem failed_send_fifo_example :
    (run .fifo init failedSendOps).2 = [.sendFail .encode, .sent 0 2, .callback 0 1 7] := by decide

/-- **orphan_counterexample** (mutant `Orphan.*`: the deferred is registered before the request is encoded and
    written).  The failed `execute` leaves a deferred nobody holds at the head of the FIFO queue; the reply to
    the next request is handed to it (`callback 0`: request number 0 was never written), the real request 1 gets
    no reply and is failed with the connection error at the loss although its reply had arrived. -/
theorem orphan_counterexample :
    (Orphan.run .fifo init failedSendOps).2 =
      [.sendFail .encode, .sent 1 2, .callback 0 1 7, .errback 1 .lost] ∧
    (Orphan.step .fifo ⟨0, [], true, 0⟩ (.execFail .encode)).1.pending = [(1, ⟨0, .plain⟩)] ∧
    ¬ Spec.TidMatch (Orphan.run .dict init [.connectionMade, .execFail .write, .reply 1 7]).2 := by decide

/-- Tie to the source, OBSERVED on the real protocol objects on every run (harness/gen_tables.async_failed_send):
    an `execute` whose request cannot be encoded, or whose `transport.write` raises, raises to the caller and
    leaves as many entries in the transaction table as the model (none), for both managers. -/
theorem generated_failed_send :
    Generated.asyncFailedSend.map (fun r => (r.1, r.2.1)) =
      [("dict", "encode"), ("dict", "write"), ("fifo", "encode"), ("fifo", "write")] ∧
    Generated.asyncFailedSend.all (fun r => r.2.2.2 &&
      (step (if r.1 = "dict" then .dict else .fifo) ⟨0, [], true, 0⟩
        (.execFail (if r.2.1 = "encode" then .encode else .write))).1.pending.length == r.2.2.1) = true := by
  decide

/-! ### distinct transaction ids (TCP): full, thanks to the repaired allocation (5cae7f5) -/

/-- the only side condition, in the form the induction uses (TCP only): a free transaction id exists, i.e. fewer
    than 65536 requests are outstanding -/
def Scope (v : Variant) : List Event → Bool → Op → List Event → Prop := fun pre _ _ _ => v = .dict → Spec.Room pre

theorem scope_of (v : Variant) (ops : List Op) (hw : v = .dict → Spec.RoomAll (hist v ops)) :
    Spec.AllSegs (Scope v) [] false (hist v ops) := by
  cases v with
  | dict => exact allSegs_imp (fun _ _ _ _ h _ => h) _ _ _ (hw rfl)
  | fifo => exact allSegs_imp (fun _ _ _ _ _ h => by cases h) _ _ _ (allSegs_true _ _ _)

theorem scope_step (v : Variant) (s : State) (pre : List Event) (op : Op)
    (hi : Inv v s pre ∧ Complete s pre) (hs : Scope v pre s.connected op (step v s op).2) :
    Inv v (step v s op).1 (pre ++ (step v s op).2) ∧ Complete (step v s op).1 (pre ++ (step v s op).2) :=
  ⟨inv_step op hi.1, complete_step op hi.1 hi.2
    (fun hv => Nat.lt_of_le_of_lt (pending_le_outstanding hi.1) (hs hv))⟩

/-- **The repaired `getNextTID` never hands out an id that still waits for its reply**: in every reachable state
    of the TCP variant whose table holds fewer than 65536 entries, the id the next `execute` gets is not a key of
    the table (pigeonhole over the 65536 candidates the loop runs through). -/
theorem next_tid_is_free (ops : List Op) (h : (run .dict init ops).1.pending.length < 65536) :
    allocTid .dict (run .dict init ops).1 ∉ keys (run .dict init ops).1 :=
  alloc_fresh .dict _ h rfl

/-- **no_deferred_lost.**  No deferred is ever dropped: every request written is either fired or still in the
    table – in every history (TCP: while fewer than 65536 requests are outstanding before each operation;
    serial: always). -/
theorem no_deferred_lost (v : Variant) (ops : List Op) (hw : v = .dict → Spec.RoomAll (hist v ops)) :
    ∀ i, i < (run v init ops).1.nextId → i ∈ fired (trace v ops) ∨ i ∈ pendingIds (run v init ops).1 := by
  have := run_invariant (v := v) (fun s pre => Inv v s pre ∧ Complete s pre) (Scope v) (scope_step v)
    ops init [] ⟨inv_init v, complete_init⟩ (scope_of v ops hw)
  have h2 := this.2
  simp only [List.nil_append] at h2
  exact h2

/-- **distinct_ids.**  Outstanding requests (written, deferred not fired – read off the trace) carry pairwise
    distinct transaction ids before every operation of every history of the TCP client, whatever the number of
    requests issued before (any number of wraps of the 16-bit counter), the only side condition being the
    decidable `Spec.RoomAll`: fewer than 65536 requests outstanding (otherwise no free id exists at all). -/
theorem distinct_ids (ops : List Op) (hw : Spec.RoomAll (hist .dict ops)) :
    Spec.AllSegs (fun pre _ _ _ => Spec.Distinct pre) [] false (hist .dict ops) :=
  allSegs_runSeg (v := .dict) (fun s pre => Inv .dict s pre ∧ Complete s pre) (Scope .dict) _
    (fun s pre op hi hs => ⟨scope_step .dict s pre op hi hs, distinct_of_complete hi.1 hi.2⟩)
    ops init [] ⟨inv_init .dict, complete_init⟩ (scope_of .dict ops (fun _ => hw))

/-- the same at the end of the history -/
theorem distinct_ids_final (ops : List Op) (hw : Spec.RoomAll (hist .dict ops)) : Spec.Distinct (trace .dict ops) := by
  have := run_invariant (v := .dict) (fun s pre => Inv .dict s pre ∧ Complete s pre) (Scope .dict)
    (scope_step .dict) ops init [] ⟨inv_init .dict, complete_init⟩ (scope_of .dict ops (fun _ => hw))
  simp only [List.nil_append] at this
  exact distinct_of_complete this.1 this.2

/-- in the table itself the keys are pairwise distinct in every reachable state, with no side condition -/
theorem table_keys_distinct (ops : List Op) : (keys (run .dict init ops).1).Nodup :=
  (inv_reach .dict ops).keys_nodup rfl

/-- **The clauses that rest on distinct ids**: outstanding ids are distinct, a solicited reply fires the deferred
    it is for, and a connection loss fails every outstanding request (TCP: side condition `Spec.RoomAll`;
    serial: none). -/
theorem needs_distinct (v : Variant) (ops : List Op) (hw : v = .dict → Spec.RoomAll (hist v ops)) :
    Spec.NeedsDistinct v (hist v ops) := by
  have hall := allSegs_runSeg (v := v) (fun s pre => Inv v s pre ∧ Complete s pre) (Scope v)
    (fun pre _ op es => (v = .dict → Spec.Distinct pre) ∧ Spec.Delivered v pre op es ∧ Spec.LostFails pre op es)
    (fun s pre op hi hs => ⟨scope_step v s pre op hi hs,
      fun hv => by subst hv; exact distinct_of_complete hi.1 hi.2,
      delivered_step hi.1 hi.2 op, lostFails_step hi.1 hi.2 op⟩)
    ops init [] ⟨inv_init v, complete_init⟩ (scope_of v ops hw)
  refine ⟨fun hv => ?_, ?_, ?_⟩
  · exact allSegs_imp (fun _ _ _ _ h => h.1 hv) _ _ _ hall
  · exact allSegs_imp (fun _ _ _ _ h => h.2.1) _ _ _ hall
  · exact allSegs_imp (fun _ _ _ _ h => h.2.2) _ _ _ hall

/-- **C16 for the serial (FIFO) variant, full strength.** -/
theorem C16_fifo (ops : List Op) : Spec.Holds .fifo (hist .fifo ops) :=
  ⟨C16_always .fifo ops, needs_distinct .fifo ops (fun h => by cases h)⟩

/-- **C16 for the TCP variant: the whole property**, for every history – any number of requests, any number of
    wraps of the transaction id counter, requests left pending for any length of time – with the single
    decidable side condition that fewer than 65536 requests are outstanding before each operation (with 65536
    outstanding there is no 16-bit id left to give). -/
theorem C16_dict (ops : List Op) (hw : Spec.RoomAll (hist .dict ops)) : Spec.Holds .dict (hist .dict ops) :=
  ⟨C16_always .dict ops, needs_distinct .dict ops (fun _ => hw)⟩

/-- once the connection is lost every request ever written has fired (exactly once, by `fires_at_most_once`) -/
theorem all_fired_after_loss (v : Variant) (ops : List Op)
    (hw : v = .dict → Spec.RoomAll (hist v (ops ++ [.connectionLost]))) :
    ∀ i, i < (run v init (ops ++ [.connectionLost])).1.nextId → i ∈ fired (trace v (ops ++ [.connectionLost])) := by
  intro i hi
  rcases no_deferred_lost v _ hw i hi with h | h
  · exact h
  · have hp : (run v init (ops ++ [.connectionLost])).1.pending = [] := by
      simp only [run_append, run]
      exact (connectionLost_spec (inv_reach v ops)).2.2.1
    simp [pendingIds, hp] at h

/-- the transaction ids three consecutive `execute` calls get on a connected client whose manager has `tid` and
    whose table holds entries under the ids `pend` (the requests stay pending) -/
def allocSeq (v : Variant) (tid : Nat) (pend : List Nat) : List Nat :=
  (sents (run v ⟨tid, pend.map (fun k => (k, ⟨0, .plain⟩)), true, 0⟩ (List.replicate 3 (.execute .plain))).2).map (·.2)

/-- Tie to the source, OBSERVED on the real managers on every run (harness/gen_tables.async_tid_alloc): the ids
    the real `DictTransactionManager` / `FifoTransactionManager` issue from given tables – plain sequence on an
    empty table, pending ids skipped (also across the wrap 65535 → 0), no skipping by the FIFO manager – are the
    ids the model issues. -/
theorem generated_tid_alloc :
    Generated.asyncTidAlloc.map (fun r => (r.1, r.2.1, r.2.2.1)) =
      [("dict", 0, []), ("dict", 5, [6, 7]), ("dict", 65534, [65535, 0]), ("dict", 65535, [1]),
       ("dict", 9, [10, 11, 12, 14]),
       ("fifo", 0, []), ("fifo", 5, [6, 7]), ("fifo", 65534, [65535, 0]), ("fifo", 65535, [1]),
       ("fifo", 9, [10, 11, 12, 14])] ∧
    Generated.asyncTidAlloc.all (fun r =>
      allocSeq (if r.1 = "dict" then .dict else .fifo) r.2.1 r.2.2.1 == r.2.2.2) = true := by decide

/-! ### the allocation before 5cae7f5 (mutant `Old.*`): the fixed finding `tid-wrap-overwrite` -/

/-- connect, then `m + 2` requests, none answered -/
def wrapOpsN (m : Nat) : List Op := .connectionMade :: List.replicate (m + 1 + 1) (.execute .plain)

theorem run_wrapOpsN (m : Nat) (hm : m + 1 = 65536) :
    Old.run .dict init (wrapOpsN m) =
      (⟨1, (1, ⟨m + 1, .plain⟩) :: (List.range m).map (fun i => ((i + 1 + 1) % 65536, ⟨i + 1, .plain⟩)),
          true, m + 1 + 1⟩,
       wrapTrace (m + 1) ++ [.sent (m + 1) 1]) := by
  have h0 : Old.step .dict init .connectionMade = (⟨0, [], true, 0⟩, []) := rfl
  unfold wrapOpsN
  rw [Old.run, h0]
  simp only [List.nil_append]
  exact run_wrap m (by omega) (by omega)

theorem wrap_general (m : Nat) (hm : m + 1 = 65536) :
    (0, 1) ∈ Spec.outstanding (Old.run .dict init (wrapOpsN m)).2 ∧ (m + 1, 1) ∈ Spec.outstanding (Old.run .dict init (wrapOpsN m)).2 ∧
    ¬ Spec.Distinct (Old.run .dict init (wrapOpsN m)).2 ∧
    0 ∉ pendingIds (Old.run .dict init (wrapOpsN m)).1 ∧ 0 ∉ fired (Old.run .dict init (wrapOpsN m)).2 ∧
    (∀ tag, (Old.step .dict (Old.run .dict init (wrapOpsN m)).1 (.reply 1 tag)).2 = [.callback (m + 1) 1 tag]) ∧
    Event.errback 0 .lost ∉ (Old.step .dict (Old.run .dict init (wrapOpsN m)).1 .connectionLost).2 ∧
    (Old.step .dict (Old.run .dict init (wrapOpsN m)).1 .connectionLost).1.pending = [] ∧
    ¬ Spec.LostFails (Old.run .dict init (wrapOpsN m)).2 .connectionLost (Old.step .dict (Old.run .dict init (wrapOpsN m)).1 .connectionLost).2 := by
  generalize hr : Old.run .dict init (wrapOpsN m) = r
  have hrun : r = _ := hr.symm.trans (run_wrapOpsN m hm)
  have hfired : fired r.2 = [] := by
    rw [hrun]; simp only [fired_append, fired_wrapTrace, fired_sent, fired_nil, List.append_nil]
  have hpend : 0 ∉ pendingIds r.1 := by
    rw [hrun]
    simp only [pendingIds, List.map_cons, List.map_map, List.mem_cons, List.mem_map, List.mem_range,
      Function.comp, not_or]
    exact ⟨by omega, by rintro ⟨i, _, h⟩; omega⟩
  have hsents : sents r.2 = (List.range (m + 1)).map (fun i => (i, (i + 1) % 65536)) ++ [(m + 1, 1)] := by
    rw [hrun]; simp only [sents_append, sents_wrapTrace, sents_sent, sents_nil]
  have ho0 : (0, 1) ∈ Spec.outstanding r.2 := by
    rw [mem_outstanding, hsents, hfired]
    refine ⟨?_, by simp⟩
    simp only [List.mem_append, List.mem_map, List.mem_range]
    exact Or.inl ⟨0, by omega, rfl⟩
  have ho1 : (m + 1, 1) ∈ Spec.outstanding r.2 := by
    rw [mem_outstanding, hsents, hfired]
    exact ⟨by simp, by simp⟩
  have hlost : (Old.step .dict r.1 .connectionLost).2 =
      ((1, (⟨m + 1, .plain⟩ : Entry)) :: (List.range m).map (fun i => ((i + 1 + 1) % 65536, (⟨i + 1, .plain⟩ : Entry)))).map
        (fun p => Event.errback p.2.id .lost) ∧ (Old.step .dict r.1 .connectionLost).1.pending = [] := by
    rw [hrun]
    simp only [Old.step, Old.connectionLost, keys]
    refine Old.lostLoop_plain _ ⟨1, _, false, m + 1 + 1⟩ rfl ?_
    intro p hp
    simp only [List.mem_cons, List.mem_map] at hp
    rcases hp with rfl | ⟨i, _, rfl⟩ <;> rfl
  have hno : Event.errback 0 .lost ∉ (Old.step .dict r.1 .connectionLost).2 := by
    rw [hlost.1]
    simp only [List.map_cons, List.map_map, List.mem_cons, List.mem_map, List.mem_range, Function.comp, not_or]
    refine ⟨by intro h; injection h with h1; omega, ?_⟩
    rintro ⟨i, _, h⟩
    injection h with h1; omega
  refine ⟨ho0, ho1, ?_, hpend, by rw [hfired]; simp, ?_, hno, hlost.2, ?_⟩
  · intro hd
    unfold Spec.Distinct List.Nodup at hd
    rw [List.pairwise_map] at hd
    -- two different elements of the list with the same second component
    have key : ∀ (l : List (Nat × Nat)), l.Pairwise (fun a b => a.2 ≠ b.2) →
        ∀ a ∈ l, ∀ b ∈ l, a.2 = b.2 → a = b := by
      intro l hl
      induction hl with
      | nil => intro a ha; simp at ha
      | cons hx _ ih =>
        rename_i x l'
        intro a ha b hb hab
        simp only [List.mem_cons] at ha hb
        rcases ha with rfl | ha <;> rcases hb with rfl | hb
        · rfl
        · exact absurd hab (hx b hb)
        · exact absurd hab.symm (hx a ha)
        · exact ih a ha b hb hab
    have := key _ hd _ ho0 _ ho1 rfl
    simp only [Prod.mk.injEq, and_true] at this
    omega
  · intro tag
    rw [hrun]
    simp [Old.step, Old.reply, AsyncClient.get, AsyncClient.dictGet, Old.fireOk, AsyncClient.Req.okK]
  · intro hlf
    exact hno (hlf _ ho0)

/-- the history of the counterexample: connect, then 65537 requests, none answered -/
def wrapOps : List Op := wrapOpsN 65535

theorem wrapOps_length : wrapOps.length = 65538 := by
  unfold wrapOps wrapOpsN
  rw [List.length_cons, List.length_replicate]

/-- **distinct_ids_counterexample** (mutant `Old.*` = the allocation before 5cae7f5; fixed finding
    `tid-wrap-overwrite`).  Request 0 is left pending while 65536 further requests are issued: request 65536 gets
    transaction id 1 again.  Both are outstanding with the same id; the deferred of request 0 has been
    overwritten in the table – it is not pending any more and has not fired; a reply with id 1 is delivered to
    request 65536, and a connection loss empties the table without failing request 0. -/
theorem distinct_ids_counterexample :
    (0, 1) ∈ Spec.outstanding (Old.run .dict init wrapOps).2 ∧ (65536, 1) ∈ Spec.outstanding (Old.run .dict init wrapOps).2 ∧
    ¬ Spec.Distinct (Old.run .dict init wrapOps).2 ∧
    0 ∉ pendingIds (Old.run .dict init wrapOps).1 ∧ 0 ∉ fired (Old.run .dict init wrapOps).2 ∧
    (∀ tag, (Old.step .dict (Old.run .dict init wrapOps).1 (.reply 1 tag)).2 = [.callback 65536 1 tag]) ∧
    Event.errback 0 .lost ∉ (Old.step .dict (Old.run .dict init wrapOps).1 .connectionLost).2 ∧
    (Old.step .dict (Old.run .dict init wrapOps).1 .connectionLost).1.pending = [] ∧
    ¬ Spec.LostFails (Old.run .dict init wrapOps).2 .connectionLost (Old.step .dict (Old.run .dict init wrapOps).1 .connectionLost).2 := by
  unfold wrapOps
  have h := wrap_general 65535 rfl
  simp only [Nat.reduceAdd] at h
  exact h

/-- **C16_dict_counterexample** (mutant): with the old allocation the property fails on the observed history –
    the connection loss after the wrap-around history does not fail the outstanding request 0. -/
theorem C16_dict_counterexample :
    ¬ Spec.LostFails (Old.run .dict init wrapOps).2 .connectionLost
        (Old.step .dict (Old.run .dict init wrapOps).1 .connectionLost).2 :=
  distinct_ids_counterexample.2.2.2.2.2.2.2.2

/-! ### several protocol objects in one process: per-connection state is private -/

/-- **connection_private.**  An operation on connection `i` (including the arrival of any bytes) leaves the whole
    state of every other connection `j` – protocol flag, transaction table, transaction id counter AND framer
    buffer – exactly as it was, and causes no event on it; creating a new protocol object changes no existing
    one and the new one starts fresh (empty table, empty buffer). -/
theorem connection_private (v : Variant) (n : Net) (i j : Nat) (op : COp) (h : j ≠ i) :
    (nstep v n (.on i op)).1[j]? = n[j]? ∧ eventsOf j (nstep v n (.on i op)).2 = [] :=
  nstep_other n i j op h

theorem new_connection_is_fresh (v : Variant) (n : Net) :
    (∀ j, j < n.length → (nstep v n .open).1[j]? = n[j]?) ∧ (nstep v n .open).1[n.length]? = some Conn.init :=
  ⟨(nstep_open n).1, (nstep_open n).2.1⟩

/-- **connection_is_single_history.**  Take any multi-connection history: `pre` (anything, on any objects), then a
    protocol object is created, then `post` (operations on it interleaved arbitrarily with operations on – and
    creations of – other objects).  Its final state and its event trace are those of the single-connection
    history `crun` of the operations addressed to it, started from a fresh object. -/
theorem connection_is_single_history (v : Variant) (pre post : List NOp) :
    let i := (nrun v [] pre).1.length
    let r := nrun v [] (pre ++ .open :: post)
    r.1[i]? = some (crun v Conn.init (opsOf i post)).1 ∧
    eventsOf i r.2 = (crun v Conn.init (opsOf i post)).2 :=
  nrun_born pre post

/-- Chunked arrival is a sequence of whole-reply arrivals: a single-connection history with bytes arriving in any
    chunking has the protocol state and (apart from exceptions raised by the framer itself) the event trace of the
    history `expand` in which every chunk is replaced by the replies its framer delivers. -/
theorem chunks_are_replies (v : Variant) (cops : List COp) :
    (crun v Conn.init cops).1.proto = (run v init (expand v Conn.init cops)).1 ∧
    noExc (crun v Conn.init cops).2 = trace v (expand v Conn.init cops) := by
  obtain ⟨a, b⟩ := crun_expand (v := v) cops Conn.init
  refine ⟨a, ?_⟩
  rw [b]
  have hne := no_exception v (expand v Conn.init cops)
  show List.filter (fun e => !e.isExc) (trace v (expand v Conn.init cops)) = trace v (expand v Conn.init cops)
  apply List.filter_eq_self.2
  intro e he
  simp [hne e he]

/-- **All history theorems lift to every connection of a multi-connection history**: the events of that
    connection (minus framer exceptions) are the trace of a single-connection history `ops'` on a fresh protocol
    object, so `C16_always` (at most once, tid matching, FIFO order, unsolicited dropped, loss fails all pending,
    requests while down fail, …) and, with fewer than 65536 requests outstanding, `C16_dict` hold for it – whatever happens
    on the other connections. -/
theorem multi_connection_lifts (v : Variant) (pre post : List NOp) :
    let i := (nrun v [] pre).1.length
    let r := nrun v [] (pre ++ .open :: post)
    ∃ ops' : List Op,
      noExc (eventsOf i r.2) = trace v ops' ∧
      (∃ c, r.1[i]? = some c ∧ c.proto = (run v init ops').1) ∧
      Spec.Always v (hist v ops') ∧
      (v = .fifo → Spec.Holds .fifo (hist .fifo ops')) ∧
      (Spec.RoomAll (hist v ops') → Spec.Holds v (hist v ops')) := by
  intro i r
  obtain ⟨h1, h2⟩ := connection_is_single_history v pre post
  obtain ⟨h3, h4⟩ := chunks_are_replies v (opsOf i post)
  refine ⟨expand v Conn.init (opsOf i post), ?_, ⟨_, h1, h3⟩, C16_always v _, ?_, ?_⟩
  · show noExc (eventsOf i r.2) = _
    rw [h2, h4]
  · intro hv; subst hv; exact C16_fifo _
  · intro hw; exact ⟨C16_always v _, needs_distinct v _ (fun _ => hw)⟩

/-- in particular: on every connection of every multi-connection history no deferred fires twice -/
theorem multi_fires_at_most_once (v : Variant) (pre post : List NOp) :
    Spec.AtMostOnce (noExc (eventsOf (nrun v [] pre).1.length (nrun v [] (pre ++ .open :: post)).2)) := by
  obtain ⟨ops', h, _⟩ := multi_connection_lifts v pre post
  rw [h]; exact fires_at_most_once v ops'

/-- the reconnect scenario: connection 0 receives 9 of the 11 bytes of its reply and is lost; a new protocol
    object (connection 1) sends a request and receives its whole reply -/
def reconnectOps : List NOp :=
  [.open, .on 0 (.proto .connectionMade), .on 0 (.proto (.execute .plain)),
   .on 0 (.data [0, 1, 0, 0, 0, 5, 1, 3, 2]), .on 0 (.proto .connectionLost),
   .open, .on 1 (.proto .connectionMade), .on 1 (.proto (.execute .plain)),
   .on 1 (.data [0, 1, 0, 0, 0, 5, 1, 3, 2, 0, 77])]

/-- per-connection framers: the new connection's deferred fires with its own reply (register 77) -/
theorem reconnect_private_buffers :
    eventsOf 1 (nrun .dict [] reconnectOps).2 = [.sent 0 1, .callback 0 1 77] ∧
    eventsOf 0 (nrun .dict [] reconnectOps).2 = [.sent 0 1, .errback 0 .lost] := by decide

/-- **shared_buffer_counterexample.**  The mutant in which all protocol objects use ONE framer (a class-level
    framer object): the 9 stale bytes of the lost connection are prepended to the new connection's reply; its
    deferred fires with a chimera (register 1 instead of 77) and 9 bytes stay in the buffer. -/
theorem shared_buffer_counterexample :
    eventsOf 1 (Shared.nrun .dict ⟨[], []⟩ reconnectOps).2 = [.sent 0 1, .callback 0 1 1] ∧
    (Shared.nrun .dict ⟨[], []⟩ reconnectOps).1.buf = [0, 0, 0, 5, 1, 3, 2, 0, 77] ∧
    eventsOf 1 (Shared.nrun .dict ⟨[], []⟩ reconnectOps).2 ≠ eventsOf 1 (nrun .dict [] reconnectOps).2 := by decide

/-- Tie to the source (regenerated from /repo on every run): two protocol objects built the way the factories
    build them (no framer argument) have distinct framer objects, distinct transaction managers and independent
    buffers, for every client protocol class; and `ModbusClientProtocol.__init__` does not read `self.framer`
    (a class attribute) when it chooses the framer. -/
theorem generated_per_instance_state :
    Generated.asyncPerInstance.map (·.1) = ["ModbusClientProtocol", "ModbusTcpClientProtocol",
      "ModbusSerClientProtocol", "ModbusUdpClientProtocol", "ModbusClientFactory.buildProtocol"] ∧
    Generated.asyncPerInstance.all (fun r => r.2.1 && r.2.2.1 && r.2.2.2) = true ∧
    Generated.asyncInitFramerReadsSelf = false := by decide

/-- Tie to the source (regenerated on every run): whichever way a protocol object is given the socket framer — by
    default, as an instance, as a CLASS — it gets the manager that matches by transaction id (the `.dict` variant of
    the model); every other framer gets the FIFO manager (the `.fifo` variant) -/
theorem generated_manager_kinds :
    Generated.asyncManagerKinds =
      [("default", "DictTransactionManager"), ("socket-instance", "DictTransactionManager"),
       ("socket-class", "DictTransactionManager"), ("tcp-default", "DictTransactionManager"),
       ("tcp-socket-class", "DictTransactionManager"), ("factory", "DictTransactionManager"),
       ("rtu-instance", "FifoTransactionManager"), ("rtu-class", "FifoTransactionManager"),
       ("ascii-class", "FifoTransactionManager"), ("serial-default", "FifoTransactionManager"),
       ("serial-rtu-class", "FifoTransactionManager")] := by decide

/-! ### replies arriving in pieces -/

/-- the framing of each variant, in the vocabulary of C06 -/
def framingOf : Variant → C06.Framing
  | .dict => .tcp
  | .fifo => .rtu Framer.rtuRuleClient

/-- what a delivered reply frame is for the protocol: `_handleResponse(reply)` -/
def replyOf (f : Framer.VFrame Resp) : Op := .reply f.tid (respTag f.msg)

theorem evsToOps_map (fs : List (Framer.VFrame Resp)) :
    evsToOps (fs.map (fun f => Framer.Ev.deliver f.msg f.uid f.tid f.pid)) = fs.map replyOf := by
  induction fs with
  | nil => rfl
  | cons f r ih => simp only [List.map_cons, evsToOps, replyOf, ih]

/-- **chunking_independent.**  Take any stream of valid reply frames (built as the framer of the variant builds
    them, decodable by the client decoder; any units, any transaction ids, any number of frames) and ANY division
    of it into reads (single bytes, cuts inside headers, several frames per read, empty reads): on a connection
    whose buffer is empty, in any protocol state, the final protocol state and the whole event trace are exactly
    those of the replies arriving whole, one after the other, and the buffer ends empty.  No reply is dropped,
    duplicated or altered by the chunking.  (Uses C06 for the framers; possible since `dataReceived` passes
    `unit=0` – with the unit read off the chunk this statement is false: `unit_from_chunk_counterexample`.) -/
theorem chunking_independent (v : Variant) (fs : List (Framer.VFrame Resp))
    (hfs : ∀ f ∈ fs, C06.IsBuilt (framingOf v) decClient [0] false f)
    (chunks : List Bytes) (hc : chunks.flatten = Framer.stream fs) (s : State) :
    crun v ⟨s, []⟩ (chunks.map .data) =
      (⟨(run v s (fs.map replyOf)).1, []⟩, (run v s (fs.map replyOf)).2) := by
  have hstep : C06.stepOf (framingOf v) = frameStep v := by cases v <;> rfl
  obtain ⟨h1, h2⟩ := C06.chunking_independent (framingOf v) decClient [0] false fs hfs chunks hc
  rw [hstep] at h1 h2
  have hdel : ∀ e ∈ (Framer.feedAll (frameStep v) decClient [0] false ([] : Bytes) chunks).1.flatten,
      isDeliver e = true := by
    rw [h1]; intro e he
    simp only [List.mem_map] at he
    obtain ⟨f, _, rfl⟩ := he; rfl
  rw [crun_data chunks ⟨s, []⟩ hdel, h1, h2, evsToOps_map]

/-- in particular: any chunking gives what a single read of the whole stream gives -/
theorem chunking_same_as_whole (v : Variant) (fs : List (Framer.VFrame Resp))
    (hfs : ∀ f ∈ fs, C06.IsBuilt (framingOf v) decClient [0] false f)
    (chunks : List Bytes) (hc : chunks.flatten = Framer.stream fs) (s : State) :
    crun v ⟨s, []⟩ (chunks.map .data) = crun v ⟨s, []⟩ [.data (Framer.stream fs)] := by
  rw [chunking_independent v fs hfs chunks hc s]
  have := chunking_independent v fs hfs [Framer.stream fs] (by simp) s
  simpa using this.symm

/-- the reply `00 01 00 00 00 05 01 03 02 00 4d` arriving as `[00]` + the rest is delivered, like the same bytes
    in one read (repaired by 0a3302f) -/
theorem split_reply_delivered :
    (crun .dict Conn.init [.proto .connectionMade, .proto (.execute .plain),
        .data [0], .data [1, 0, 0, 0, 5, 1, 3, 2, 0, 77]]).2 = [.sent 0 1, .callback 0 1 77] ∧
    (crun .dict Conn.init [.proto .connectionMade, .proto (.execute .plain),
        .data [0, 1, 0, 0, 0, 5, 1, 3, 2, 0, 77]]).2 = [.sent 0 1, .callback 0 1 77] := by decide

/-- **unit_from_chunk_counterexample** (fixed finding `async-unit-from-chunk`, kept as a mutant): with the unit for
    the framer's unit check read off the chunk (`Guess.*`, the code before 0a3302f) the same split reply is
    discarded (guessed unit 3, frame unit 1): the deferred never fires -/
theorem unit_from_chunk_counterexample :
    (Guess.crun .dict Conn.init [.proto .connectionMade, .proto (.execute .plain),
        .data [0], .data [1, 0, 0, 0, 5, 1, 3, 2, 0, 77]]).2 = [.sent 0 1] ∧
    (Guess.crun .dict Conn.init [.proto .connectionMade, .proto (.execute .plain),
        .data [0, 1, 0, 0, 0, 5, 1, 3, 2, 0, 77]]).2 = [.sent 0 1, .callback 0 1 77] := by decide

/-- Tie to the source (regenerated from /repo on every run): `ModbusClientProtocol.dataReceived` passes the
    literal `unit=0` to `processIncomingPacket`, as `AsyncClient.dataReceived` does. -/
theorem generated_data_received_unit : Generated.asyncDataReceivedUnit = "const:0" := by decide

/-! ### non-vacuity: the hypotheses used above are satisfiable -/

example : Spec.RoomAll (hist .dict [.connectionMade, .execute (.onErr .plain), .execute .plain, .reply 2 7,
    .connectionLost, .execute .plain]) := by decide
example : C06.IsBuilt (framingOf .dict) decClient [0] false
    ⟨[0, 1, 0, 0, 0, 5, 1, 3, 2, 0, 77], [3, 2, 0, 77], 1, 1, 0, .readHolding [77]⟩ :=
  ⟨3, [2, 0, 77], rfl, rfl, rfl, rfl⟩
example : (init).connected = false := rfl
example : ∀ op ∈ [Op.execute .plain, Op.reply 1 4, Op.close true, Op.connectionLost], op ≠ Op.connectionMade := by
  decide
example : (run .dict init [.connectionMade, .execute .plain, .execute .plain, .close true, .reply 2 9]).1.pending =
    [(1, ⟨0, .plain⟩)] := by decide
example : trace .dict [.connectionMade, .execute .plain, .close true, .execute .plain, .connectionLost] =
    [.sent 0 1, .tclose, .sent 1 2, .errback 1 .notConnected, .errback 0 .lost] := by decide
example : ∀ op ∈ [Op.execute .plain, Op.reply 3 4, Op.connectionLost], op ≠ Op.connectionMade := by decide
example : 5 ∉ keys (run .dict init [.connectionMade, .execute .plain]).1 := by decide
example : ((run .dict init [.connectionMade, .execute .plain]).1.tid + 1) % 65536 ≠ 1 := by decide
example : (run .fifo init [.connectionMade, .execute .plain, .execute .plain]).1.pending =
    (1, ⟨0, .plain⟩) :: [(2, ⟨1, .plain⟩)] := by decide
example : Event.callback 1 2 7 ∈ trace .dict [.connectionMade, .execute .plain, .execute .plain, .reply 2 7] := by
  decide

end Pymodbus.Props.C16
