/-
  C13 — Client transactions end in bounded time with a result and recover.

  About `Txn.execute` (Model/Txn.lean), the model of one `client.execute(request)` of the synchronous clients over
  a scripted transport.  All statements are for EVERY configuration (framer, transport, retries, retry options,
  broadcast), every client state, every state of the peer and every script of reactions; induction over the retry
  counter / the script, no enumeration.  "Bounded time" is the structural bound on transmissions and reads
  (each read and each wait of the real client is bounded by the configured timeout; the harness measures the
  virtual time of the real code against `(1+retries)·(4·timeout) + backoff`).
-/
import Pymodbus.Lemmas.Txn
import Pymodbus.Lemmas.TxnFrames
import Pymodbus.Spec.TxnSpec
import Pymodbus.Generated.Tables
namespace Pymodbus.Props.C13
open Pymodbus Txn Framer

/-- the request object can be put on the wire (its fields are in range): otherwise `buildPacket` raises
    `struct.error` out of `execute` — an error of the caller, not of the transport -/
def Encodable (cfg : Cfg) (st : State) (req : Request) : Prop :=
  ∃ packet, buildPacket cfg.framer req.unit (nextTid st) req.pdu = .ok packet

/-! ### bounded: transmissions and reads -/

/-- whatever the transport does, one call transmits the request at most `1 + retries` times -/
theorem transmissions_le (cfg : Cfg) (st : State) (net : Net) (req : Request) :
    (execute cfg st net req).net.tx ≤ net.tx + TxnSpec.maxTransmissions cfg.retries := by
  cases hb : buildPacket cfg.framer req.unit (nextTid st) req.pdu with
  | error e => rw [execute_net_of_error cfg st net req e hb]; omega
  | ok packet => exact (execute_log cfg st net req packet hb).tx

/-- … and reads from the transport at most twice per transmission (header peek + rest): every loop of the call is
    bounded by a function of `retries` -/
theorem reads_bounded (cfg : Cfg) (st : State) (net : Net) (req : Request) :
    (execute cfg st net req).net.reads ≤ net.reads + 2 * (1 + cfg.retries) := by
  cases hb : buildPacket cfg.framer req.unit (nextTid st) req.pdu with
  | error e => rw [execute_net_of_error cfg st net req e hb]; omega
  | ok packet => exact (execute_log cfg st net req packet hb).reads

/-- every frame written during the call is the request's packet (a retry re-sends the same bytes) -/
theorem frames_written (cfg : Cfg) (st : State) (net : Net) (req : Request) (packet : Bytes)
    (hb : buildPacket cfg.framer req.unit (nextTid st) req.pdu = .ok packet) :
    ∃ k, k ≤ 1 + cfg.retries ∧ (execute cfg st net req).net.writes = net.writes ++ List.replicate k packet :=
  (execute_log cfg st net req packet hb).writes

/-! ### a result, never an exception -/

/-- the call returns a reply, an error object or the broadcast marker: it never raises and never returns `None`,
    for every script of the transport -/
theorem never_raises (cfg : Cfg) (st : State) (net : Net) (req : Request)
    (hp : st.pending = []) (henc : Encodable cfg st req) :
    (∀ e, (execute cfg st net req).result ≠ .raised e) ∧ (execute cfg st net req).result ≠ .noneObject := by
  obtain ⟨packet, hb⟩ := henc
  have h := (execute_outcome cfg st net req packet hp hb).2.2.2
  constructor
  · intro e he; rw [he] at h; cases h
  · intro he; rw [he] at h; cases h

/-- the only exception that leaves `execute` is the encoding error of an unencodable request -/
theorem raises_only_unencodable (cfg : Cfg) (st : State) (net : Net) (req : Request) (e : PyErr)
    (hp : st.pending = []) (h : (execute cfg st net req).result = .raised e) :
    buildPacket cfg.framer req.unit (nextTid st) req.pdu = .error e := by
  cases hb : buildPacket cfg.framer req.unit (nextTid st) req.pdu with
  | error e' =>
    rw [execute_build_error cfg st net req e' hb] at h
    injection h with h; rw [h]
  | ok packet => exact absurd h ((never_raises cfg st net req hp ⟨packet, hb⟩).1 e)

/-! ### ready for the next call -/

/-- after any call the client is in TRANSACTION_COMPLETE with an empty transaction table and the next transaction
    id; a call that ends with an error object has closed the connection, so nothing of it can reach a later call -/
theorem ready_after (cfg : Cfg) (st : State) (net : Net) (req : Request)
    (hp : st.pending = []) (henc : Encodable cfg st req) :
    (execute cfg st net req).st.cstate = .complete ∧ (execute cfg st net req).st.pending = [] ∧
    (execute cfg st net req).st.tid = nextTid st := by
  obtain ⟨packet, hb⟩ := henc
  obtain ⟨h1, h2, h3, _⟩ := execute_outcome cfg st net req packet hp hb
  exact ⟨h3, h2, h1⟩

/-- the transaction table is empty between calls along every history, encodable requests or not -/
theorem pending_stays_empty (cfg : Cfg) (st : State) (net : Net) (req : Request) (hp : st.pending = []) :
    (execute cfg st net req).st.pending = [] := by
  cases hb : buildPacket cfg.framer req.unit (nextTid st) req.pdu with
  | error e => rw [execute_build_error cfg st net req e hb]; exact hp
  | ok packet => exact (execute_outcome cfg st net req packet hp hb).2.1

theorem pending_empty_invariant (cfg : Cfg) (calls : List (Request × List Reaction)) (st : State) (net : Net)
    (hp : st.pending = []) : ∀ o ∈ runCalls cfg st net calls, o.st.pending = [] := by
  induction calls generalizing st net with
  | nil => intro o h; simp [runCalls] at h
  | cons c cs ih =>
    intro o h
    simp only [runCalls, List.mem_cons] at h
    rcases h with h | h
    · rw [h]; exact pending_stays_empty cfg st _ c.1 hp
    · exact ih _ _ (pending_stays_empty cfg st _ c.1 hp) o h

/-- the next call does not depend on leftovers of this one: the framer buffer, the socket being open or closed
    and the state variable of the client do not influence it (the buffer is reset, `connect()` reopens, the state
    is overwritten) -/
theorem next_call_ignores_leftovers (cfg : Cfg) (st : State) (net : Net) (req : Request)
    (fbuf : Bytes) (isOpen : Bool) :
    execute cfg { st with fbuf := fbuf, sockOpen := isOpen } net req = execute cfg st net req :=
  execute_core cfg st _ net req rfl rfl rfl rfl

theorem next_call_ignores_state_variable (cfg : Cfg) (st : State) (net : Net) (req : Request) (c : CState)
    (henc : Encodable cfg st req) :
    execute cfg { st with cstate := c } net req = execute cfg st net req := by
  obtain ⟨packet, hb⟩ := henc
  exact execute_cstate cfg st net req c packet hb

/-- the receive side of the transport in use holds nothing that the next exchange could mistake for its reply -/
def Healthy (t : Transport) (n : Net) : Prop :=
  match t with
  | .serial => n.mode ≠ .oserror
  | .tcp => n.mode ≠ .oserror ∧ (n.inbuf ++ n.late.flatten).length ≤ 65536
  | .udp => n.dgrams = [] ∧ n.late = []

theorem healthy_ready (t : Transport) (n : Net) (h : Healthy t n) : ReadyToSend t n := by
  cases t with
  | serial => exact ready_serial n h
  | tcp => exact ready_tcp n h.1 h.2
  | udp => exact ready_udp n h.1 h.2

/-- a call that ended with an error object leaves the transport healthy: the connection was closed -/
theorem failed_call_leaves_healthy (cfg : Cfg) (st : State) (net : Net) (req : Request)
    (hp : st.pending = []) (henc : Encodable cfg st req)
    (h : (execute cfg st net req).result = .errorObject) :
    (execute cfg st net req).st.sockOpen = false ∧ Healthy cfg.transport (execute cfg st net req).net := by
  obtain ⟨packet, hb⟩ := henc
  have closedHealthy : ∀ n : Net, Healthy cfg.transport n.closed := by
    intro n; cases cfg.transport
    · exact ⟨by simp [Net.closed], by simp [Net.closed]⟩
    · simp [Healthy, Net.closed]
    · exact ⟨rfl, rfl⟩
  cases hbc : isBroadcast cfg req with
  | true =>
    rw [execute_broadcast cfg st net req packet hb hbc] at h ⊢
    split at h
    · next hf => rw [if_pos hf]; exact ⟨rfl, closedHealthy _⟩
    · cases h
  | false =>
    rw [execute_normal cfg st net req packet hb hbc] at h ⊢
    have hids := (attempts_log cfg req.unit packet (expectedLen cfg req.pdu) cfg.retries
      (decide (req.unit ∈ st.noResp) || decide (cfg.transport = .udp)) (startState st) net).2
    have hf := finish_spec cfg req (nextTid st)
      (attempts cfg req.unit packet (expectedLen cfg req.pdu) cfg.retries
        (decide (req.unit ∈ st.noResp) || decide (cfg.transport = .udp)) (startState st) net).st
      (attempts cfg req.unit packet (expectedLen cfg req.pdu) cfg.retries
        (decide (req.unit ∈ st.noResp) || decide (cfg.transport = .udp)) (startState st) net).net
      (attempts cfg req.unit packet (expectedLen cfg req.pdu) cfg.retries
        (decide (req.unit ∈ st.noResp) || decide (cfg.transport = .udp)) (startState st) net).resp
      (hids.2.1.trans hp)
    rcases hf.1 with ⟨_, hn, ho⟩ | ⟨r, hr, _⟩
    · rw [hn]; exact ⟨ho, closedHealthy _⟩
    · rw [hr] at h; cases h

/-! ### the retry options are honoured, and the client recovers -/

/-- **retry options honoured (general form)**: the transport is healthy, `pre.length ≤ retries` attempts go a way the
    enabled retry options cover (`Retried`: nothing + retry_on_empty, or a frame judged invalid + retry_on_invalid),
    then the conformant reply arrives: it is returned -/
theorem retries_honoured (cfg : Cfg) (st : State) (net : Net) (req : Request) (X : Bytes) (r : Reply)
    (late : List Bytes) (pre rest : List Reaction)
    (hp : st.pending = []) (henc : Encodable cfg st req) (hbc : isBroadcast cfg req = false)
    (hh : Healthy cfg.transport net) (hs : net.script = pre ++ answersWith X late :: rest)
    (hpre : ∀ x ∈ pre, Retried cfg req.unit (expectedLen cfg req.pdu) x) (hk : pre.length ≤ cfg.retries)
    (hc : Conformant cfg req (nextTid st) X r) :
    (execute cfg st net req).result = .reply r := by
  obtain ⟨packet, hb⟩ := henc
  exact (execute_honoured cfg st net req packet X r late pre rest hp hb hbc (healthy_ready _ _ hh) hs hpre hk hc).1

/-- retry_on_empty: the first `j ≤ retries` attempts get nothing, the next one the reply: the reply is returned -/
theorem retry_on_empty_honoured (cfg : Cfg) (st : State) (net : Net) (req : Request) (X : Bytes) (r : Reply)
    (late : List Bytes) (rest : List Reaction) (j : Nat)
    (hroe : cfg.retryOnEmpty = true) (hj : j ≤ cfg.retries)
    (hp : st.pending = []) (henc : Encodable cfg st req) (hbc : isBroadcast cfg req = false)
    (hh : Healthy cfg.transport net)
    (hs : net.script = List.replicate j silent ++ answersWith X late :: rest)
    (hc : Conformant cfg req (nextTid st) X r) :
    (execute cfg st net req).result = .reply r :=
  retries_honoured cfg st net req X r late (List.replicate j silent) rest hp henc hbc hh hs
    (fun x hx => by rw [(List.mem_replicate.1 hx).2]; exact .empty hroe) (by simpa using hj) hc

/-- a frame that `decode_data` attributes to another unit (and whose MBAP length is not the expected one) is what
    retry_on_invalid retries -/
theorem foreign_unit_retried (cfg : Cfg) (unit : Nat) (expected : Option Int) (G : Bytes) (u : Int) (len : Option Nat)
    (hri : cfg.retryOnInvalid = true) (hne : G ≠ []) (hd : decodeData cfg.framer G = some (u, len))
    (hu : u ≠ Int.ofNat unit) (hlen : ∀ l e, len = some l → expected = some e → Int.ofNat l ≠ e) :
    shouldRetry cfg unit expected G = true := by
  unfold shouldRetry
  rw [if_neg hne]
  simp only [hri, Bool.not_true, Bool.false_eq_true, if_false, hd]
  rw [if_neg hu]
  cases len with
  | none => rfl
  | some l =>
    cases expected with
    | none => rfl
    | some e => simp only []; rw [if_neg (fun h => hlen l e rfl rfl h.2)]

/-- retry_on_invalid: the first attempts are answered by frames of a foreign unit (each read whole), the next one
    by the reply: the reply is returned -/
theorem retry_on_invalid_honoured (cfg : Cfg) (st : State) (net : Net) (req : Request) (X : Bytes) (r : Reply)
    (late : List Bytes) (rest : List Reaction) (foreign : List Bytes)
    (hri : cfg.retryOnInvalid = true) (hj : foreign.length ≤ cfg.retries)
    (hforeign : ∀ G ∈ foreign, Fits cfg.framer (expectedLen cfg req.pdu) G ∧
      ∃ u len, decodeData cfg.framer G = some (u, len) ∧ u ≠ Int.ofNat req.unit ∧
        ∀ l e, len = some l → expectedLen cfg req.pdu = some e → Int.ofNat l ≠ e)
    (hp : st.pending = []) (henc : Encodable cfg st req) (hbc : isBroadcast cfg req = false)
    (hh : Healthy cfg.transport net)
    (hs : net.script = foreign.map (fun G => answersWith G []) ++ answersWith X late :: rest)
    (hc : Conformant cfg req (nextTid st) X r) :
    (execute cfg st net req).result = .reply r := by
  refine retries_honoured cfg st net req X r late _ rest hp henc hbc hh hs ?_ (by simpa using hj) hc
  intro x hx
  obtain ⟨G, hG, rfl⟩ := List.mem_map.1 hx
  obtain ⟨hfit, u, len, hd, hu, hl⟩ := hforeign G hG
  have hne : G ≠ [] := by
    intro h; have h1 := hfit.long; rw [h] at h1; have h2 := minSize_pos cfg.framer; simp at h1; omega
  exact .invalid G hfit (foreign_unit_retried cfg req.unit _ G u len hri hne hd hu hl)

/-- **recovery**: whatever happened before (any client state with an empty table — `pending_empty_invariant` — and
    any state of the peer that is `Healthy`: for the serial and TCP clients every state whose connection is not
    known-broken, since they discard what arrived before the write), a call whose transmission is answered by the
    conformant reply returns that reply -/
theorem recovers (cfg : Cfg) (st : State) (net : Net) (req : Request) (X : Bytes) (r : Reply)
    (late : List Bytes) (rest : List Reaction)
    (hp : st.pending = []) (henc : Encodable cfg st req) (hbc : isBroadcast cfg req = false)
    (hh : Healthy cfg.transport net) (hs : net.script = answersWith X late :: rest)
    (hc : Conformant cfg req (nextTid st) X r) :
    (execute cfg st net req).result = .reply r :=
  retries_honoured cfg st net req X r late [] rest hp henc hbc hh hs (fun _ h => by cases h) (Nat.zero_le _) hc

/-- … in particular after ANY history of calls with ANY scripts on a fresh client -/
theorem recovers_after_any_history (cfg : Cfg) (calls : List (Request × List Reaction)) (st0 : State) (net0 : Net)
    (hp0 : st0.pending = []) (o : Outcome) (ho : (runCalls cfg st0 net0 calls).getLast? = some o)
    (req : Request) (X : Bytes) (r : Reply) (late : List Bytes) (rest : List Reaction)
    (henc : Encodable cfg o.st req) (hbc : isBroadcast cfg req = false) (hh : Healthy cfg.transport o.net)
    (hc : Conformant cfg req (nextTid o.st) X r) :
    (execute cfg o.st { o.net with script := answersWith X late :: rest } req).result = .reply r := by
  have hmem : o ∈ runCalls cfg st0 net0 calls := List.mem_of_getLast? ho
  have hp := pending_empty_invariant cfg calls st0 net0 hp0 o hmem
  have hh' : Healthy cfg.transport { o.net with script := answersWith X late :: rest } := by
    cases ht : cfg.transport <;> rw [ht] at hh <;> exact hh
  exact recovers cfg o.st _ req X r late rest hp henc hbc hh' rfl hc

/-- … and always after a call that failed: a call that returns an error object closes the connection -/
theorem recovers_after_failure (cfg : Cfg) (st : State) (net : Net) (req1 req : Request) (X : Bytes) (r : Reply)
    (late : List Bytes) (rest : List Reaction)
    (hp : st.pending = []) (henc1 : Encodable cfg st req1)
    (hfail : (execute cfg st net req1).result = .errorObject)
    (henc : Encodable cfg (execute cfg st net req1).st req) (hbc : isBroadcast cfg req = false)
    (hc : Conformant cfg req (nextTid (execute cfg st net req1).st) X r) :
    (execute cfg (execute cfg st net req1).st
      { (execute cfg st net req1).net with script := answersWith X late :: rest } req).result = .reply r := by
  have hh := (failed_call_leaves_healthy cfg st net req1 hp henc1 hfail).2
  have hh' : Healthy cfg.transport { (execute cfg st net req1).net with script := answersWith X late :: rest } := by
    cases ht : cfg.transport <;> rw [ht] at hh <;> exact hh
  exact recovers cfg _ _ req X r late rest (pending_stays_empty cfg st net req1 hp) henc hbc hh' rfl hc

/-- every call that returned a reply or an error object leaves the transport healthy: an error closed the
    connection, a reply means the receive side worked.  What remains to be assumed: TCP, at most 65536 bytes pending
    (the bound of the drain); UDP after a reply, no datagram pending (known finding, see below) -/
theorem call_leaves_healthy (cfg : Cfg) (st : State) (net : Net) (req : Request)
    (hp : st.pending = []) (henc : Encodable cfg st req)
    (hnb : (execute cfg st net req).result ≠ .broadcastSent)
    (htcp : cfg.transport = .tcp →
      ((execute cfg st net req).net.inbuf ++ (execute cfg st net req).net.late.flatten).length ≤ 65536)
    (hudp : cfg.transport = .udp → (execute cfg st net req).result = .errorObject ∨
      ((execute cfg st net req).net.dgrams = [] ∧ (execute cfg st net req).net.late = [])) :
    Healthy cfg.transport (execute cfg st net req).net := by
  obtain ⟨packet, hb⟩ := henc
  have hend := (execute_outcome cfg st net req packet hp hb).2.2.2
  cases hres : (execute cfg st net req).result with
  | errorObject => exact (failed_call_leaves_healthy cfg st net req hp ⟨packet, hb⟩ hres).2
  | broadcastSent => exact absurd hres hnb
  | raised e => rw [hres] at hend; cases hend
  | noneObject => rw [hres] at hend; cases hend
  | reply r =>
    have hm := reply_leaves_mode_ok cfg st net req r hp hres
    cases ht : cfg.transport with
    | serial => exact hm
    | tcp => exact ⟨hm, htcp ht⟩
    | udp =>
      rcases hudp ht with h | h
      · rw [hres] at h; cases h
      · exact h

/-- **recovery after any call**: whatever the script of the previous call was (it ended with a reply or an error
    object), the next call over a transport that answers with the conformant reply returns that reply — serial:
    unconditionally; TCP: up to the 64 KiB drain bound; UDP: after a failed call, or when no datagram is pending -/
theorem recovers_after_any_call (cfg : Cfg) (st : State) (net : Net) (req1 req : Request) (X : Bytes) (r : Reply)
    (late : List Bytes) (rest : List Reaction)
    (hp : st.pending = []) (henc1 : Encodable cfg st req1)
    (hnb : (execute cfg st net req1).result ≠ .broadcastSent)
    (htcp : cfg.transport = .tcp →
      ((execute cfg st net req1).net.inbuf ++ (execute cfg st net req1).net.late.flatten).length ≤ 65536)
    (hudp : cfg.transport = .udp → (execute cfg st net req1).result = .errorObject ∨
      ((execute cfg st net req1).net.dgrams = [] ∧ (execute cfg st net req1).net.late = []))
    (henc : Encodable cfg (execute cfg st net req1).st req) (hbc : isBroadcast cfg req = false)
    (hc : Conformant cfg req (nextTid (execute cfg st net req1).st) X r) :
    (execute cfg (execute cfg st net req1).st
      { (execute cfg st net req1).net with script := answersWith X late :: rest } req).result = .reply r := by
  have hh := call_leaves_healthy cfg st net req1 hp henc1 hnb htcp hudp
  have hh' : Healthy cfg.transport { (execute cfg st net req1).net with script := answersWith X late :: rest } := by
    cases ht : cfg.transport <;> rw [ht] at hh <;> exact hh
  exact recovers cfg _ _ req X r late rest (pending_stays_empty cfg st net req1 hp) henc hbc hh' rfl hc

/-! ### what cannot be proved at full strength: the UDP client after a successful call that left a datagram -/

/-- the full recovery statement: only "the connection is not known-broken" is assumed of the peer -/
def C13_recovers_full : Prop :=
  ∀ (cfg : Cfg) (st : State) (net : Net) (req : Request) (X : Bytes) (r : Reply) (late : List Bytes)
    (rest : List Reaction),
    st.pending = [] → Encodable cfg st req → isBroadcast cfg req = false → net.mode ≠ .oserror →
    (net.inbuf ++ net.late.flatten).length ≤ 65536 → net.script = answersWith X late :: rest →
    Conformant cfg req (nextTid st) X r → (execute cfg st net req).result = .reply r

def cexCfg : Cfg :=
  { framer := .tcp, transport := .udp, retries := 0, retryOnEmpty := false, retryOnInvalid := false, broadcastEnable := false }
def cexReq : Request := ⟨1, .readHolding 0 1⟩
/-- the reply to this request (transaction 1): register value 7 -/
def cexGood : Bytes := tcpFrame 1 0 1 3 [2, 0, 7]
/-- a duplicate of the reply to an earlier transaction (id 9) still queued on the datagram socket -/
def cexStale : Bytes := tcpFrame 9 0 1 3 [2, 0, 5]
def cexNet : Net := { dgrams := [cexStale], script := [answersWith cexGood []] }

theorem cex_conformant : Conformant cexCfg cexReq 1 cexGood ⟨.readHolding [7], 1, 1⟩ :=
  tcp_conformant cexCfg cexReq 1 (.readHolding [7]) [2, 0, 7] rfl
    (by simp [Props.C01.WFResp, PduSpec.AllU16]) rfl (Or.inl rfl) (by decide) (by decide) (by decide)

/-- known finding `udp-stale-datagram`: ModbusUdpClient cannot discard a pending datagram before it sends; the
    stale datagram is read instead of the reply, dropped (transaction id 9 ≠ 1) and the call returns an error
    object although its own reply arrived -/
theorem recovers_udp_counterexample :
    (execute cexCfg {} cexNet cexReq).result = .errorObject ∧
    (execute cexCfg {} { cexNet with dgrams := [] } cexReq).result = .reply ⟨.readHolding [7], 1, 1⟩ := by
  constructor <;> decide

theorem not_C13_recovers_full : ¬ C13_recovers_full := by
  intro h
  have := h cexCfg {} cexNet cexReq cexGood ⟨.readHolding [7], 1, 1⟩ [] [] rfl ⟨_, rfl⟩ rfl (by decide) (by decide) rfl
    cex_conformant
  rw [recovers_udp_counterexample.1] at this
  cases this

/-- the loss is bounded: the failed call closed the socket, the call after it gets its reply -/
theorem udp_recovers_on_the_next_call :
    let o := execute cexCfg {} cexNet cexReq
    (execute cexCfg o.st { o.net with script := [answersWith (tcpFrame 2 0 1 3 [2, 0, 8]) []] } cexReq).result
      = .reply ⟨.readHolding [8], 1, 2⟩ := by decide

/-! ### the hypotheses are satisfiable -/

example : Encodable cexCfg {} cexReq := ⟨_, rfl⟩
example : ({} : State).pending = [] := rfl
example : isBroadcast cexCfg cexReq = false := rfl
example : Healthy .udp { cexNet with dgrams := [] } := ⟨rfl, rfl⟩
example : Healthy .serial {} := by simp [Healthy]
example : Healthy .tcp { inbuf := [1, 2, 3], late := [[4]] } := ⟨by simp, by simp⟩
example : Retried { cexCfg with retryOnEmpty := true } 1 none silent := .empty rfl
/-- retry_on_empty: silence, silence, reply with retries = 2 -/
example : (execute { cexCfg with retries := 2, retryOnEmpty := true } {}
    { script := [silent, silent, answersWith cexGood []] } cexReq).result = .reply ⟨.readHolding [7], 1, 1⟩ := by decide
/-- retry_on_invalid: a frame of unit 9, then the reply (TCP transport) -/
example : (execute { cexCfg with transport := .tcp, retries := 1, retryOnInvalid := true } {}
    { script := [answersWith (tcpFrame 1 0 9 3 [2, 0, 5]) [], answersWith cexGood []] } cexReq).result
      = .reply ⟨.readHolding [7], 1, 1⟩ := by decide
/-- a foreign-unit frame satisfies the hypotheses of `retry_on_invalid_honoured` -/
example : Fits .tcp none (tcpFrame 1 0 9 3 [2, 0, 5]) ∧
    ∃ u len, decodeData .tcp (tcpFrame 1 0 9 3 [2, 0, 5]) = some (u, len) ∧ u ≠ Int.ofNat 1 ∧
      ∀ l e, len = some l → (none : Option Int) = some e → Int.ofNat l ≠ e :=
  ⟨⟨by decide, ⟨3, by decide, by intro k hk; simp [restSize, minSize, be16at, tcpFrame] at hk ⊢; omega⟩, by intro e h; cases h⟩,
    9, some 5, by decide, by decide, by intro l e _ h; cases h⟩
/-- a call that fails (silence) closes the connection -/
example : (execute cexCfg {} { script := [silent] } cexReq).result = .errorObject := by decide


/-- tie to the source: the per-framing constants of the transaction manager read from /repo on this run — base ADU
    size and exception ADU length (introspected on a stub client per framer) and the minimum first read of `_recv`
    (literals in the method body, read by ast) — are the model's, and `Defaults.ReadSize` is the 1024 of
    `expectedLen` -/
theorem generated_txn_sizes :
    Generated.txnSizes = [("tcp", Txn.baseAdu .tcp, Txn.excLen .tcp, Txn.minSize .tcp),
      ("rtu", Txn.baseAdu .rtu, Txn.excLen .rtu, Txn.minSize .rtu),
      ("ascii", Txn.baseAdu .ascii, Txn.excLen .ascii, Txn.minSize .ascii),
      ("binary", Txn.baseAdu .binary, Txn.excLen .binary, Txn.minSize .binary)] ∧
    Generated.defaultReadSize = 1024 := by
  constructor <;> rfl

end Pymodbus.Props.C13
