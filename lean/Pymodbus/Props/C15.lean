/-
  C15 — Concurrent callers of one synchronous client are serialised.
  Property theorems only; the invariant and its preservation live in Pymodbus/Lemmas/SchedConn.lean, common lemmas
  (progress measure, fairness) in Pymodbus/Lemmas/Sched.lean, byte-level facts in Pymodbus/Lemmas/SchedBytes.lean.

  Everything is about `Sched.runSched scope (Sched.init reqs connected) sched`: ANY number of threads
  (`reqs : Nat → List Req`), ANY number of transactions per thread, ANY schedule (`sched : List Nat`, pre-emption before
  every operation of `execute`, including between a lock acquisition and what follows, between the two writes of a
  frame and between the check and the open of `connect`), replies of any length and latency, the client connected or
  not when the threads start (`connected : Bool`), every connection attempt accepted or refused as the scripted world
  says (`cok : Nat → Bool`, the fate of the k-th `create_connection`), every reply delivered or lost as the request
  says (`Req.lost`: the peer stays silent, the read comes back short, the connection is closed and re-opened by the
  next call).
  The lock discipline is a parameter.  The theorems hold for `scope = .whole`: the client lock
  (`with self._connect_lock:` in `BaseModbusClient.execute`, around the connect check/open AND the call of the
  manager) with the manager lock (`with self._transaction_lock:` = body of `ModbusTransactionManager.execute`) nested
  inside; `generated_lock_scope` says that this is what the source has.  The counterexamples show that the other
  disciplines do not serialise: `connectOutside` (the code before the repair of finding connect-outside-lock: connect
  before any lock is taken), `none`, one manager lock per unit id, a send-only lock, and `leakOnFail` (the client lock
  is not given back when the connect fails: `lock_leak_counterexample`, a deadlock), `lockOnlyWhenCold` (the client lock
  is taken only by a caller that sees no socket: `lockOnlyWhenCold_counterexample`, after a lost reply the reconnect
  inside `_transact` races with the locked connect of the next caller), `broadcastOutside` (a broadcast is written after
  the client lock has been given back: `broadcastOutside_counterexample`).  Requests may be BROADCASTS (`Req.bcast`:
  written under both locks, nothing is read, no unit answers, the result is the marker).
-/
import Pymodbus.Lemmas.SchedConn
import Pymodbus.Generated.Tables
namespace Pymodbus.Props.C15
open Pymodbus Pymodbus.Sched

/-! ### tie to the source -/

/-- read off the source by `ast` on this run.
    `pymodbus/transaction.py`: the whole body of `ModbusTransactionManager.execute` is one `with self._transaction_lock:`;
    `_transaction_lock` is assigned once, in `__init__`, to `RLock()`, and mentioned nowhere else in the module.
    `pymodbus/client/sync.py`: the whole body of `BaseModbusClient.execute` is one `with self._connect_lock:` that contains
    both the `self.connect()` call and `return self.transaction.execute(request)`; `_connect_lock` is assigned once, in
    `__init__`, to `RLock()`, and mentioned nowhere else in the module (so nothing releases it early). -/
theorem generated_lock_scope :
    Generated.lockScope = "whole" ∧ Generated.lockCtor = "RLock()" ∧ Generated.lockAssignments = 1 ∧
    Generated.lockAssignedIn = "__init__" ∧ Generated.lockReferences = 2 ∧
    Generated.clientExecuteViaManager = true ∧
    Generated.clientLockScope = "whole" ∧ Generated.clientLockCtor = "RLock()" ∧
    Generated.clientLockAssignments = 1 ∧ Generated.clientLockAssignedIn = "__init__" ∧
    Generated.clientLockReferences = 2 := by decide

/-- the model's lock discipline for the discipline read off the source (`none` = not one the theorems cover) -/
def sourceScope : Option LockScope :=
  if Generated.lockScope = "whole" ∧ Generated.lockCtor = "RLock()" ∧ Generated.lockAssignments = 1 ∧
      Generated.clientLockScope = "whole" ∧ Generated.clientLockCtor = "RLock()" ∧
      Generated.clientLockAssignments = 1 then
    some .whole
  else none

theorem source_scope_is_whole : sourceScope.isSome = true ∧ ∀ sc, sourceScope = some sc → sc = .whole := by
  have g := generated_lock_scope
  have h : sourceScope = some .whole := by
    unfold sourceScope
    rw [if_pos ⟨g.1, g.2.1, g.2.2.1, g.2.2.2.2.2.2.1, g.2.2.2.2.2.2.2.1, g.2.2.2.2.2.2.2.2.1⟩]
  rw [h]
  exact ⟨rfl, fun sc e => by cases e; rfl⟩

/-! ### the property under the shipped discipline, for ANY client and ANY fate of the connection attempts -/

/-- `mutual_exclusion`: in every reachable state at most one thread is between its send and the end of its receive -/
theorem mutual_exclusion (scope : LockScope) (hs : scope = .whole) (reqs : Nat → List Req) (connected : Bool)
    (cok : Nat → Bool) (sched : List Nat) : Spec.Exclusive (runSched scope (init reqs connected cok) sched) := by
  subst hs
  have hi := inv_reachable reqs connected cok sched
  intro t u ht hu
  have key : ∀ v, ((runSched .whole (init reqs connected cok) sched).threads v).inFlight = true →
      (runSched .whole (init reqs connected cok) sched).locks 0 = some (v, 1) := by
    intro v hv
    cases outside_or_holder hi v with
    | inr h => exact h.1
    | inl ho =>
      exfalso
      cases ho with
      | inl h0 => simp [Thread.inFlight, h0] at hv
      | inr hk => obtain ⟨k, hk⟩ := hk; simp [Thread.inFlight, hk] at hv
  have h1 := key t ht
  rw [key u hu] at h1
  cases h1
  rfl

theorem istage_wire {sh : Shared} {c t : Nat} {th : Thread} (h : IStage sh c t th) :
    Spec.contiguous sh.wire = true := by
  cases h with
  | send2 k h hfr hc hp hs hb hw =>
    obtain ⟨w, hw1, hw2⟩ := hw
    rw [hw2]; exact pairs_snoc1 w _ hw1 rfl
  | tid k h q => exact pairs_contiguous _ q.2.2.2
  | connect k h q => exact pairs_contiguous _ q.2.2.2
  | flush k h q => exact pairs_contiguous _ q.2.2.2
  | send1 k h q => exact pairs_contiguous _ q.2.2.2
  | bsent h hbc q => exact pairs_contiguous _ q.2.2.2
  | waiting k h hbc hp hs hb hw => exact pairs_contiguous _ hw
  | recv2 h hbc hl hh hp hs hb hw => exact pairs_contiguous _ hw
  | process h hbc hr q => exact pairs_contiguous _ q.2.2.2
  | release h q => exact pairs_contiguous _ q.2.2.2

theorem stage_wire {v : View} {t : Nat} {th : Thread} (h : Stage v t th) : Spec.contiguous v.wire = true := by
  cases h with
  | pre k h q => exact pairs_contiguous _ q.2.1
  | opening k h q => exact pairs_contiguous _ q.2.1
  | acq k h q => exact pairs_contiguous _ q.2.1
  | inner c hs hc1 hfr hm st => exact istage_wire st
  | closedProc h hr hbc hl hs hb hw => exact pairs_contiguous _ hw
  | closedRel h hs hb hw => exact pairs_contiguous _ hw
  | crel h q => exact pairs_contiguous _ q.2.1

/-- `frames_contiguous`: the chunks on the transport are whole frames, (header, rest) by one thread to one
    connection with nothing of another thread in between -/
theorem frames_contiguous (scope : LockScope) (hs : scope = .whole) (reqs : Nat → List Req) (connected : Bool)
    (cok : Nat → Bool) (sched : List Nat) :
    Spec.contiguous (runSched scope (init reqs connected cok) sched).wire = true := by
  subst hs
  have hi := inv_reachable reqs connected cok sched
  cases hl : (runSched .whole (init reqs connected cok) sched).locks 0 with
  | none => exact pairs_contiguous _ (hi.free hl).1.2.1
  | some p => exact stage_wire (hi.held p.1 p.2 hl).2.1

/-- `caller_gets_its_due`: every completed call ended in exactly what that caller is due (`Spec.Answered`): the
    connection exception — only if some connection attempt was refused; its own error object — only if the peer did
    not answer this very request; otherwise the reply built for its own request (the caller's transaction id, its
    unit, the registers or exception the peer sends for exactly that request).  Never somebody else's reply. -/
theorem caller_gets_its_due (scope : LockScope) (hs : scope = .whole) (reqs : Nat → List Req) (connected : Bool)
    (cok : Nat → Bool) (sched : List Nat) (t : Nat) :
    ∀ x ∈ ((runSched scope (init reqs connected cok) sched).threads t).results, Spec.Answered cok x := by
  subst hs
  have h := ((inv_reachable reqs connected cok sched).ok t).served
  rw [run_connOk] at h
  exact h

/-- `own_reply`: when every connection attempt succeeds, every completed ordinary call whose reply was not lost
    returned the reply to its own request; cold client included, whatever happened to the other callers -/
theorem own_reply (scope : LockScope) (hs : scope = .whole) (reqs : Nat → List Req) (connected : Bool)
    (cok : Nat → Bool) (hall : ∀ k, cok k = true) (sched : List Nat) (t : Nat) :
    ∀ x ∈ ((runSched scope (init reqs connected cok) sched).threads t).results,
      x.1.bcast = false → x.1.lost = false → Spec.OwnReply x := by
  intro x hx hb hl
  rcases caller_gets_its_due scope hs reqs connected cok sched t x hx with h | h | h | h
  · obtain ⟨_, k, hk⟩ := h; rw [hall k] at hk; cases hk
  · rw [hb] at h; cases h.1
  · rw [hl] at h; cases h.2.1
  · exact h.2.2

/-- a broadcaster is handed the broadcast marker (unless its connection attempt was refused) -/
theorem broadcaster_gets_marker (scope : LockScope) (hs : scope = .whole) (reqs : Nat → List Req)
    (connected : Bool) (cok : Nat → Bool) (hall : ∀ k, cok k = true) (sched : List Nat) (t : Nat) :
    ∀ x ∈ ((runSched scope (init reqs connected cok) sched).threads t).results,
      x.1.bcast = true → x.2.2 = .bcastSent := by
  intro x hx hb
  rcases caller_gets_its_due scope hs reqs connected cok sched t x hx with h | h | h | h
  · obtain ⟨_, k, hk⟩ := h; rw [hall k] at hk; cases hk
  · exact h.2
  · rw [hb] at h; cases h.1
  · rw [hb] at h; cases h.1

/-- an error object is handed out only to the caller whose own reply was lost -/
theorem error_only_if_own_reply_lost (scope : LockScope) (hs : scope = .whole) (reqs : Nat → List Req)
    (connected : Bool) (cok : Nat → Bool) (sched : List Nat) (t : Nat) :
    ∀ x ∈ ((runSched scope (init reqs connected cok) sched).threads t).results,
      x.2.2 = .err .modbusIO → x.1.lost = true := by
  intro x hx he
  rcases caller_gets_its_due scope hs reqs connected cok sched t x hx with h | h | h | h
  · rw [he] at h; cases h.1
  · rw [he] at h; cases h.2
  · exact h.2.1
  · have := h.2.2; unfold Spec.OwnReply at this; rw [he] at this; cases this

/-- no result lost or duplicated: the completed transactions of a thread are, in order, an initial part of the
    requests it was given (one result each) -/
theorem results_in_request_order (scope : LockScope) (hs : scope = .whole) (reqs : Nat → List Req)
    (connected : Bool) (cok : Nat → Bool) (sched : List Nat) (t : Nat) :
    ((runSched scope (init reqs connected cok) sched).threads t).results.map (·.1) <+: reqs t := by
  subst hs
  have h := ((inv_reachable reqs connected cok sched).ok t).conserve
  unfold Conserved at h
  rw [List.append_assoc] at h
  exact ⟨_, h⟩

/-- a finished thread has exactly one result per request, in order, each its own reply or the connection exception -/
theorem finished_all_answered (scope : LockScope) (hs : scope = .whole) (reqs : Nat → List Req)
    (connected : Bool) (cok : Nat → Bool) (sched : List Nat) (t : Nat)
    (hd : ((runSched scope (init reqs connected cok) sched).threads t).done = true) :
    ((runSched scope (init reqs connected cok) sched).threads t).results.map (·.1) = reqs t ∧
    ∀ x ∈ ((runSched scope (init reqs connected cok) sched).threads t).results, Spec.Answered cok x := by
  refine ⟨?_, caller_gets_its_due scope hs reqs connected cok sched t⟩
  subst hs
  have h := ((inv_reachable reqs connected cok sched).ok t).conserve
  unfold Conserved at h
  simp only [Thread.done, Bool.and_eq_true, List.isEmpty_iff] at hd
  simpa [curPending, hd.1, hd.2] using h

/-- … and when every connection attempt succeeds and no reply of this thread is lost (and it sends no broadcast): one own reply per request, in
    order — nothing lost, duplicated or swapped -/
theorem finished_all_served (scope : LockScope) (hs : scope = .whole) (reqs : Nat → List Req)
    (connected : Bool) (cok : Nat → Bool) (hall : ∀ k, cok k = true) (sched : List Nat) (t : Nat)
    (hnl : ∀ r ∈ reqs t, r.lost = false ∧ r.bcast = false)
    (hd : ((runSched scope (init reqs connected cok) sched).threads t).done = true) :
    Spec.AllServed reqs (runSched scope (init reqs connected cok) sched) t := by
  have hmap := (finished_all_answered scope hs reqs connected cok sched t hd).1
  have hmem : ∀ x ∈ ((runSched scope (init reqs connected cok) sched).threads t).results, x.1 ∈ reqs t := by
    intro x hx; rw [← hmap]; exact List.mem_map_of_mem hx
  exact ⟨hmap, fun x hx => own_reply scope hs reqs connected cok hall sched t x hx
    (hnl _ (hmem x hx)).2 (hnl _ (hmem x hx)).1⟩

/-- the socket is only replaced while no transaction is in flight: whenever a step installs a socket that was not
    there, no thread is between its send and the end of its receive -/
theorem socket_replaced_only_when_idle (scope : LockScope) (hs : scope = .whole) (reqs : Nat → List Req)
    (connected : Bool) (cok : Nat → Bool) (sched : List Nat) (t c : Nat)
    (hnew : (step scope (runSched scope (init reqs connected cok) sched) t).sock = some c)
    (hold : (runSched scope (init reqs connected cok) sched).sock ≠ some c) :
    ∀ u, ((runSched scope (init reqs connected cok) sched).threads u).inFlight = false := by
  subst hs
  have hi := inv_reachable reqs connected cok sched
  obtain ⟨ops, hops⟩ := step_new_socket .whole _ t c hnew hold
  have hout : ∀ th : Thread, Outside th → th.inFlight = false := by
    intro th ho
    cases ho with
    | inl h0 => simp [Thread.inFlight, h0]
    | inr hk => obtain ⟨k, hk⟩ := hk; simp [Thread.inFlight, hk]
  cases outside_or_holder hi t with
  | inl ho =>
    exfalso
    cases ho with
    | inl h0 => cases hops with
      | inl h => rw [h0] at h; cases h
      | inr h => rw [h0] at h; cases h
    | inr hk =>
      obtain ⟨k, hk⟩ := hk
      cases hops with
      | inl h => rw [hk] at h; cases h
      | inr h => rw [hk] at h; cases h
  | inr hh =>
    obtain ⟨hl, hst⟩ := hh
    obtain ⟨op, l, ho, _, _, hni, hopn⟩ := hst.head
    intro u
    by_cases hu : u = t
    · subst hu
      cases hops with
      | inl h => rw [ho] at h; cases h; exact hopn rfl
      | inr h => rw [ho] at h; cases h; exact absurd rfl hni
    · exact hout _ ((hi.held t 1 hl).2.2 u hu)

/-- the socket in use is always the newest connection, and connections not yet opened are empty -/
theorem socket_is_newest_connection (scope : LockScope) (hs : scope = .whole) (reqs : Nat → List Req)
    (connected : Bool) (cok : Nat → Bool) (sched : List Nat) (c : Nat)
    (h : (runSched scope (init reqs connected cok) sched).sock = some c) :
    c + 1 = (runSched scope (init reqs connected cok) sched).nextConn := by
  subst hs
  have hi := inv_reachable reqs connected cok sched
  cases hl : (runSched .whole (init reqs connected cok) sched).locks 0 with
  | none => exact ((hi.free hl).1.2.2.2 c h).1
  | some p =>
    have hst := (hi.held p.1 p.2 hl).2.1
    cases hst with
    | pre k hh q hm => exact (q.2.2.2 c h).1
    | opening k hh q hso hm => exact (q.2.2.2 c h).1
    | acq k hh q c' hso hm => exact (q.2.2.2 c h).1
    | inner c' hso hc1 hfr hm st =>
      have : some c' = some c := hso.symm.trans h
      cases this; exact hc1
    | closedProc hh hr hbc hlo hso => rw [show (runSched .whole (init reqs connected cok) sched).sock = none from hso] at h; cases h
    | closedRel hh hso => rw [show (runSched .whole (init reqs connected cok) sched).sock = none from hso] at h; cases h
    | crel hh q hm => exact (q.2.2.2 c h).1

/-- `no_deadlock` (1): in every reachable state, if some thread has not finished then some thread can move
    (whatever connection attempts were refused) -/
theorem no_deadlock (scope : LockScope) (hs : scope = .whole) (reqs : Nat → List Req) (connected : Bool)
    (cok : Nat → Bool) (sched : List Nat) (t : Nat)
    (hnd : ((runSched scope (init reqs connected cok) sched).threads t).done = false) :
    ∃ u, runnable scope (runSched scope (init reqs connected cok) sched) u = true := by
  subst hs
  exact exists_runnable (inv_reachable reqs connected cok sched) t hnd

/-- `no_deadlock` (2): every move is progress — a thread that can move has strictly less left to do afterwards, and
    nobody else's remaining work changes (any lock discipline) -/
theorem every_move_is_progress (scope : LockScope) (s : State) (t : Nat) (hr : runnable scope s t = true) :
    ((step scope s t).threads t).work scope < (s.threads t).work scope ∧
    ∀ u, u ≠ t → (step scope s t).threads u = s.threads u :=
  ⟨step_work scope s t hr, fun u hu => step_threads_other scope s t u hu⟩

/-- `no_deadlock` (3), fair schedules: if the schedule consists of `k` rounds, every round gives each of the `n`
    threads at least one turn (in any order, with any repetitions) and `k` is at least the total number of operations
    to perform, then every thread finishes: every request has ended with the caller's own reply or (a refused
    connection) the connection exception -/
theorem fair_schedule_finishes (scope : LockScope) (hs : scope = .whole) (reqs : Nat → List Req) (connected : Bool)
    (cok : Nat → Bool) (n : Nat) (hn : ∀ t, n ≤ t → reqs t = []) (rounds : List (List Nat))
    (hc : ∀ r ∈ rounds, Covers n r) (hk : totalWork scope (init reqs connected cok) n ≤ rounds.length) (t : Nat) :
    ((runSched scope (init reqs connected cok) rounds.flatten).threads t).done = true ∧
    ((runSched scope (init reqs connected cok) rounds.flatten).threads t).results.map (·.1) = reqs t ∧
    ∀ x ∈ ((runSched scope (init reqs connected cok) rounds.flatten).threads t).results, Spec.Answered cok x := by
  subst hs
  have hd := fair_rounds_finish (inv_init reqs connected cok) n
    (fun v hv => by simp [init, Thread.done, hn v hv]) rounds hc hk t
  exact ⟨hd, finished_all_answered .whole rfl reqs connected cok _ t hd⟩

/-- re-entrant acquisition by the holder never blocks (both locks are `RLock`s): the holder can always take its lock
    again, whatever the depth -/
theorem reentrant_acquire_never_blocks (locks : Nat → Option (Nat × Nat)) (k t d : Nat)
    (h : locks k = some (t, d)) :
    ∃ l, lockAcquire locks k t = some l ∧ l k = some (t, d + 1) := by
  refine ⟨upd locks k (some (t, d + 1)), ?_, upd_same _ _ _⟩
  simp [lockAcquire, h]

/-- … and `release` undoes one level: after acquire;release the lock is as before -/
theorem reentrant_release_restores (locks : Nat → Option (Nat × Nat)) (k t d : Nat) (hd : 1 ≤ d)
    (h : locks k = some (t, d)) :
    ∃ l, lockAcquire locks k t = some l ∧ lockRelease l k t k = some (t, d) := by
  refine ⟨upd locks k (some (t, d + 1)), by simp [lockAcquire, h], ?_⟩
  have hne : ¬ (d + 1 ≤ 1) := by omega
  simp [lockRelease, upd, hne]

/-- a thread whose next operation is the acquisition of a lock it already holds can move (manager lock, client lock) -/
theorem holder_can_reacquire (scope : LockScope) (s : State) (t k d : Nat) (ops : List Op)
    (hops : (s.threads t).ops = .acquire :: ops) (hk : lockKey scope (s.threads t).cur = some k)
    (hl : s.locks k = some (t, d)) : runnable scope s t = true := by
  simp [runnable, hops, hk, hl]

theorem holder_can_reacquire_client (scope : LockScope) (s : State) (t d : Nat) (ops : List Op)
    (hops : (s.threads t).ops = .cacquire :: ops) (hl : s.locks clientKey = some (t, d)) :
    runnable scope s t = true := by
  simp [runnable, hops, hl]

/-! ### the whole property as one statement -/

/-- safety: on every run, mutual exclusion, contiguous frames, and every caller is handed its own reply or (refused
    connection) the connection exception — never somebody else's reply -/
def Serialised (scope : LockScope) (connected : Bool) (cok : Nat → Bool) : Prop :=
  ∀ (reqs : Nat → List Req) (sched : List Nat),
    Spec.Exclusive (runSched scope (init reqs connected cok) sched) ∧
    Spec.contiguous (runSched scope (init reqs connected cok) sched).wire = true ∧
    ∀ t, ∀ x ∈ ((runSched scope (init reqs connected cok) sched).threads t).results, Spec.Answered cok x

/-- liveness: no caller blocks forever — in every reachable state somebody can move unless everybody has finished,
    and every fair schedule (rounds, see `fair_schedule_finishes`) ends with every thread finished -/
def NeverStuck (scope : LockScope) (connected : Bool) (cok : Nat → Bool) : Prop :=
  ∀ (reqs : Nat → List Req),
    (∀ (sched : List Nat) (t : Nat), ((runSched scope (init reqs connected cok) sched).threads t).done = false →
      ∃ u, runnable scope (runSched scope (init reqs connected cok) sched) u = true) ∧
    (∀ (n : Nat), (∀ t, n ≤ t → reqs t = []) → ∀ rounds : List (List Nat), (∀ r ∈ rounds, Covers n r) →
      totalWork scope (init reqs connected cok) n ≤ rounds.length →
      ∀ t, ((runSched scope (init reqs connected cok) rounds.flatten).threads t).done = true)

/-- the full statement of C15: under the shipped discipline, whatever the state of the client when the threads start
    and whichever connection attempts are refused, callers are serialised, each gets its own reply or the connection
    exception, and nobody blocks forever -/
theorem C15_full : ∀ connected cok, Serialised .whole connected cok ∧ NeverStuck .whole connected cok :=
  fun connected cok =>
    ⟨fun reqs sched => ⟨mutual_exclusion _ rfl reqs connected cok sched,
        frames_contiguous _ rfl reqs connected cok sched,
        fun t => caller_gets_its_due _ rfl reqs connected cok sched t⟩,
     fun reqs => ⟨fun sched t h => no_deadlock _ rfl reqs connected cok sched t h,
        fun n hn rounds hc hk t => (fair_schedule_finishes _ rfl reqs connected cok n hn rounds hc hk t).1⟩⟩

/-- the discipline the source has serialises every client -/
theorem source_serialised : ∀ sc, sourceScope = some sc →
    ∀ connected cok, Serialised sc connected cok ∧ NeverStuck sc connected cok := by
  intro sc h
  rw [source_scope_is_whole.2 sc h]
  exact C15_full

/-! ### disciplines that do not have the property (named mutants) -/

def allOk : Nat → Bool := fun _ => true

/-- two threads, different units, different quantities -/
def cexReqs : Nat → List Req := fun i =>
  if i = 0 then [⟨1, 100, 2, 0, false, false⟩] else if i = 1 then [⟨2, 200, 3, 0, false, false⟩] else []

/-- `leakOnFail`: the client lock is taken with an explicit acquire and the connect sits between the acquire and the
    `try … finally: release`.  The first connection attempt is refused: thread 0 correctly gets the connection
    exception — and keeps the client lock for ever.  (next request, acquire, connect check, open) -/
def cexLeak : List Nat := [0, 0, 0, 0, 1, 1]

theorem lock_leak_counterexample :
    let s := runSched .leakOnFail (init cexReqs false (fun k => k != 0)) cexLeak
    (s.threads 0).results = [(⟨1, 100, 2, 0, false, false⟩, 0, .raised .modbusExc)] ∧
    (s.threads 0).done = true ∧ (s.threads 1).done = false ∧
    s.locks clientKey = some (0, 1) ∧
    runnable .leakOnFail s 0 = false ∧ runnable .leakOnFail s 1 = false := by decide +kernel

/-- a deadlock: thread 1 has a request left and nobody can ever move again -/
theorem leakOnFail_deadlocks : ¬ NeverStuck .leakOnFail false (fun k => k != 0) := by
  intro h
  obtain ⟨u, hu⟩ := (h cexReqs).1 cexLeak 1 lock_leak_counterexample.2.2.1
  have h0 := lock_leak_counterexample.2.2.2.2.1
  have h1 := lock_leak_counterexample.2.2.2.2.2
  by_cases e0 : u = 0
  · subst e0; rw [h0] at hu; cases hu
  · by_cases e1 : u = 1
    · subst e1; rw [h1] at hu; cases hu
    · have : runnable .leakOnFail (runSched .leakOnFail (init cexReqs false (fun k => k != 0)) cexLeak) u = false := by
        apply done_not_runnable
        have hr : ((runSched .leakOnFail (init cexReqs false (fun k => k != 0)) cexLeak).threads u) =
            ((init cexReqs false (fun k => k != 0)).threads u) := by
          simp only [cexLeak, runSched]
          repeat rw [step_threads_other _ _ _ _ (by first | exact e0 | exact e1)]
        rw [hr]
        simp [init, Thread.done, cexReqs, e0, e1]
      rw [this] at hu; cases hu

/-- the same world and schedule under the shipped discipline: the lock is given back, thread 1 can go on, and with
    the second attempt accepted it gets its own reply -/
theorem lock_leak_repaired :
    runnable .whole (runSched .whole (init cexReqs false (fun k => k != 0)) (cexLeak ++ [0])) 1 = true ∧
    ((runSched .whole (init cexReqs false (fun k => k != 0))
        (cexLeak ++ [0] ++ List.replicate 14 1)).threads 1).results =
      [(⟨2, 200, 3, 0, false, false⟩, 1, .ok 1 2 (.regs [200, 201, 202]))] := by decide +kernel

theorem not_exclusive_of (s : State) (h0 : (s.threads 0).inFlight = true) (h1 : (s.threads 1).inFlight = true) :
    ¬ Spec.Exclusive s := fun h => absurd (h 0 1 h0 h1) (by decide)

/-- thread 0 broadcasts (unit 0 on a broadcast-enabled client), thread 1 reads registers of unit 2 -/
def cexReqsBcast : Nat → List Req := fun i =>
  if i = 0 then [⟨0, 100, 2, 0, false, true⟩] else if i = 1 then [⟨2, 200, 3, 0, false, false⟩] else []

/-- `broadcastOutside` (seeded C15-04), connected client.  Thread 0 connects under the client lock, gives it back and
    is pre-empted before its first transport operation; thread 1 runs its transaction up to the end of its send (its
    reply is waiting); thread 0's `_flush_input` throws that reply away and its frame is written while thread 1 is
    between its send and its receive; thread 1 then reads nothing. -/
def cexBcast : List Nat := [0, 0, 0, 0, 0, 0, 1, 1, 1, 1, 1, 1, 1, 1, 1, 0, 0, 0, 0, 1, 1]

theorem broadcastOutside_counterexample :
    -- after thread 0's first write both calls are in flight
    ((runSched .broadcastOutside (init cexReqsBcast true allOk) (cexBcast.take 17)).threads 0).inFlight = true ∧
    ((runSched .broadcastOutside (init cexReqsBcast true allOk) (cexBcast.take 17)).threads 1).inFlight = true ∧
    -- the broadcaster gets its marker, the other caller an error object although the peer answered it
    ((runSched .broadcastOutside (init cexReqsBcast true allOk) cexBcast).threads 0).results =
      [(⟨0, 100, 2, 0, false, true⟩, 1, .bcastSent)] ∧
    ((runSched .broadcastOutside (init cexReqsBcast true allOk) cexBcast).threads 1).results =
      [(⟨2, 200, 3, 0, false, false⟩, 2, .err .modbusIO)] := by decide +kernel

theorem broadcastOutside_not_serialised : ¬ Serialised .broadcastOutside true allOk := fun h =>
  not_exclusive_of _ broadcastOutside_counterexample.1 broadcastOutside_counterexample.2.1
    (h cexReqsBcast (cexBcast.take 17)).1

/-- the same requests and schedule under the shipped discipline: the broadcast is written under both locks, thread 1
    is parked on the client lock meanwhile and then gets its own reply -/
theorem broadcastOutside_repaired :
    let s := runSched .whole (init cexReqsBcast true allOk) (cexBcast ++ List.replicate 12 0 ++ List.replicate 16 1)
    (s.threads 0).results = [(⟨0, 100, 2, 0, false, true⟩, 1, .bcastSent)] ∧
    (s.threads 1).results = [(⟨2, 200, 3, 0, false, false⟩, 2, .ok 2 2 (.regs [200, 201, 202]))] := by
  decide +kernel

/-- thread 0: a request the peer does not answer, then another one; thread 1: one request -/
def cexReqsLost : Nat → List Req := fun i =>
  if i = 0 then [⟨1, 100, 2, 0, true, false⟩, ⟨3, 300, 1, 0, false, false⟩] else if i = 1 then [⟨2, 200, 3, 0, false, false⟩] else []

/-- `lockOnlyWhenCold` (seeded C15-03), connected client.  Thread 0 sends its first request; thread 1 looks, sees a
    socket and goes straight to the manager lock, where it parks; thread 0's reply is lost: short read, the connection
    is closed, error object, lock released.  Thread 0 turns to its next request, sees no socket, takes the client lock
    and starts to connect; thread 1 now gets the manager lock, finds no socket in `_transact`, connects WITHOUT the
    client lock (connection 1), flushes, sends; thread 0's connection attempt completes (connection 2 replaces
    `client.socket`); thread 1 reads from connection 2, where nothing arrives. -/
def cexColdLock : List Nat :=
  [0, 0, 0, 0, 0, 0, 0, 0, 1, 1, 0, 0, 0, 0, 0, 0, 0, 1, 1, 1, 1, 1, 1, 1, 0, 1, 1]

theorem lockOnlyWhenCold_counterexample :
    let s := runSched .lockOnlyWhenCold (init cexReqsLost true allOk) cexColdLock
    -- thread 0's own reply was lost: it rightly gets its error object
    (s.threads 0).results = [(⟨1, 100, 2, 0, true, false⟩, 1, .err .modbusIO)] ∧
    -- thread 1's request was answered (the reply sits unread on connection 1), yet it gets an error object
    (s.threads 1).results = [(⟨2, 200, 3, 0, false, false⟩, 2, .err .modbusIO)] ∧
    s.stream 1 = replyOf 2 ⟨2, 200, 3, 0, false, false⟩ := by decide +kernel

theorem lockOnlyWhenCold_not_serialised : ¬ Serialised .lockOnlyWhenCold true allOk := by
  intro h
  have h1 := (h cexReqsLost cexColdLock).2.2 1 (⟨2, 200, 3, 0, false, false⟩, 2, .err .modbusIO)
    (by rw [lockOnlyWhenCold_counterexample.2.1]; exact List.mem_singleton.2 rfl)
  rcases h1 with h1 | h1 | h1 | h1
  · exact absurd h1.1 (by decide)
  · exact absurd h1.1 (by decide)
  · exact absurd h1.2.1 (by decide)
  · exact absurd h1.2.2 (by decide)

/-- the same world and schedule under the shipped discipline: thread 1 is parked on the CLIENT lock while thread 0
    loses its reply, the next call reconnects under that lock, and thread 1 gets its own reply -/
theorem lockOnlyWhenCold_repaired :
    let s := runSched .whole (init cexReqsLost true allOk) (cexColdLock ++ List.replicate 16 0 ++ List.replicate 16 1)
    (s.threads 0).results = [(⟨1, 100, 2, 0, true, false⟩, 1, .err .modbusIO),
                             (⟨3, 300, 1, 0, false, false⟩, 2, .ok 2 3 (.regs [300]))] ∧
    (s.threads 1).results = [(⟨2, 200, 3, 0, false, false⟩, 3, .ok 3 2 (.regs [200, 201, 202]))] ∧
    s.sock = some 1 := by decide +kernel

/-- the code before the repair of connect-outside-lock (`connectOutside`: `connect()` before any lock is taken), cold
    client.  Both threads (after turning to their request) find no socket in the unlocked connect check; thread 0
    opens connection 0, takes the manager lock, flushes, sends; thread 1's connection attempt completes (connection 1
    replaces `client.socket`); thread 0 reads from connection 1, where nothing arrives -/
def cexRace : List Nat := [0, 1, 0, 1, 0, 0, 0, 0, 0, 0, 0, 1, 0, 0, 0]

/-- the repaired defect connect-outside-lock: the peer answered thread 0's request (the reply sits unread on
    connection 0), yet `execute` handed thread 0 a `ModbusIOException`.  Transactions were never concurrent and the
    frame is whole. -/
theorem connect_race_counterexample :
    ((runSched .connectOutside (init cexReqs false allOk) cexRace).threads 0).results =
      [(⟨1, 100, 2, 0, false, false⟩, 1, .err .modbusIO)] ∧
    (runSched .connectOutside (init cexReqs false allOk) cexRace).stream 0 = replyOf 1 ⟨1, 100, 2, 0, false, false⟩ ∧
    (runSched .connectOutside (init cexReqs false allOk) cexRace).sock = none ∧
    ¬ Spec.Answered allOk (⟨1, 100, 2, 0, false, false⟩, 1, .err .modbusIO) := by
  refine ⟨by decide +kernel, by decide +kernel, by decide +kernel, ?_⟩
  intro h
  rcases h with h | h | h | h
  · exact absurd h.1 (by decide)
  · exact absurd h.1 (by decide)
  · exact absurd h.2.1 (by decide)
  · exact absurd h.2.2 (by decide)

theorem connectOutside_not_serialised : ¬ Serialised .connectOutside false allOk := by
  intro h
  have h1 := (h cexReqs cexRace).2.2 0 (⟨1, 100, 2, 0, false, false⟩, 1, .err .modbusIO)
    (by rw [connect_race_counterexample.1]; exact List.mem_singleton.2 rfl)
  exact connect_race_counterexample.2.2.2 h1

/-- the very same schedule under the shipped discipline: thread 1 is parked on the client lock, nothing is lost -/
theorem connect_race_repaired :
    ((runSched .whole (init cexReqs false allOk) (cexRace ++ [0, 0, 0, 0])).threads 0).results =
      [(⟨1, 100, 2, 0, false, false⟩, 1, .ok 1 1 (.regs [100, 101]))] := by decide +kernel

/-- (client connected) both threads up to and including their first write: next request, connect check, acquire,
    tid, connect, flush, send₁ -/
def cexInterleaved : List Nat := [0, 0, 0, 0, 0, 0, 0, 1, 1, 1, 1, 1, 1, 1]

/-- thread 0 sends its frame, then thread 1 runs a whole transaction up to its processing (its flush discards the reply
    that is waiting for thread 0), then thread 0 receives -/
def cexSwapped : List Nat := [0, 0, 0, 0, 0, 0, 0, 0, 1, 1, 1, 1, 1, 1, 1, 1, 1, 1, 1, 0, 0, 0]

/-- without a lock there is no acquire step: next request, connect check, tid, connect, flush, send₁ -/
def cexInterleavedNone : List Nat := [0, 0, 0, 0, 0, 0, 1, 1, 1, 1, 1, 1]
def cexSwappedNone : List Nat := [0, 0, 0, 0, 0, 0, 0, 1, 1, 1, 1, 1, 1, 1, 1, 1, 1, 0, 0, 0]

/-- no lock: the two headers are adjacent on the wire, both transactions are in flight; and when thread 1 transacts
    while thread 0 waits for its reply, thread 1's `_flush_input` throws thread 0's reply away: the reply is lost -/
theorem none_counterexample :
    ((runSched .none (init cexReqs true allOk) cexInterleavedNone).threads 0).inFlight = true ∧
    ((runSched .none (init cexReqs true allOk) cexInterleavedNone).threads 1).inFlight = true ∧
    Spec.contiguous (runSched .none (init cexReqs true allOk) cexInterleavedNone).wire = false ∧
    ((runSched .none (init cexReqs true allOk) cexSwappedNone).threads 0).results =
      [(⟨1, 100, 2, 0, false, false⟩, 1, .err .modbusIO)] := by decide +kernel

theorem none_not_serialised : ¬ Serialised .none true allOk := fun h =>
  not_exclusive_of _ none_counterexample.1 none_counterexample.2.1 (h cexReqs cexInterleavedNone).1

/-- one manager lock per unit id and no client lock (the seeded change C15-01 on the code before the repair): two
    threads addressing different units hold different locks -/
theorem perKey_counterexample :
    ((runSched (.perKey (·.unit)) (init cexReqs true allOk) cexInterleaved).threads 0).inFlight = true ∧
    ((runSched (.perKey (·.unit)) (init cexReqs true allOk) cexInterleaved).threads 1).inFlight = true ∧
    Spec.contiguous (runSched (.perKey (·.unit)) (init cexReqs true allOk) cexInterleaved).wire = false ∧
    -- thread 1 transacts while thread 0 waits: its flush discards thread 0's reply, thread 0 gets an error object
    ((runSched (.perKey (·.unit)) (init cexReqs true allOk) cexSwapped).threads 0).results =
      [(⟨1, 100, 2, 0, false, false⟩, 1, .err .modbusIO)] := by decide +kernel

theorem perKey_not_serialised : ¬ Serialised (.perKey (·.unit)) true allOk := fun h =>
  not_exclusive_of _ perKey_counterexample.1 perKey_counterexample.2.1 (h cexReqs cexInterleaved).1

/-- units 0 and 255 are different keys and both accept any unit id in a reply.  Thread 0 is pre-empted between the two
    writes of its frame, thread 1 flushes, thread 0 completes its frame, thread 1 sends and receives first: it reads
    thread 0's reply.  Since the repair "the sync client returns only a reply that answers the request" that foreign
    reply (other transaction id) is dropped instead of being handed over: thread 1 gets an error object although the
    peer answered its request (before that repair it was handed thread 0's registers) -/
def cexReqsAny : Nat → List Req := fun i =>
  if i = 0 then [⟨0, 100, 2, 0, false, false⟩] else if i = 1 then [⟨255, 200, 3, 0, false, false⟩] else []

def cexForeign : List Nat := [0, 0, 0, 0, 0, 0, 0, 1, 1, 1, 1, 1, 1, 0, 1, 1, 1, 1, 1]

theorem perKey_foreign_reply_counterexample :
    ((runSched (.perKey (·.unit)) (init cexReqsAny true allOk) cexForeign).threads 1).results =
      [(⟨255, 200, 3, 0, false, false⟩, 2, .err .modbusIO)] ∧
    ¬ Spec.OwnReply (⟨255, 200, 3, 0, false, false⟩, 2, .err .modbusIO) := by decide +kernel

/-- a manager lock around the send only keeps the frames whole but not the transactions apart -/
def cexSendOnly : List Nat := [0, 0, 0, 0, 0, 0, 0, 0, 0, 1, 1, 1, 1, 1, 1, 1]

theorem sendOnly_counterexample :
    ((runSched .sendOnly (init cexReqs true allOk) cexSendOnly).threads 0).inFlight = true ∧
    ((runSched .sendOnly (init cexReqs true allOk) cexSendOnly).threads 1).inFlight = true := by decide +kernel

theorem sendOnly_not_serialised : ¬ Serialised .sendOnly true allOk := fun h =>
  not_exclusive_of _ sendOnly_counterexample.1 sendOnly_counterexample.2 (h cexReqs cexSendOnly).1

/-! ### non-vacuity -/

/-- a run under the shipped discipline on a COLD client whose first connection attempt is refused: thread 0 gets the
    connection exception, thread 1 (parked on the client lock meanwhile) connects and gets its own reply over the one
    connection -/
example :
    let s := runSched .whole (init cexReqs false (fun k => k != 0)) (List.replicate 5 0 ++ List.replicate 15 1)
    runnable .whole (runSched .whole (init cexReqs false (fun k => k != 0)) [0, 0, 1]) 1 = false ∧
    (s.threads 0).done = true ∧ (s.threads 1).done = true ∧ s.sock = some 0 ∧ s.nextConn = 1 ∧
    (s.threads 0).results = [(⟨1, 100, 2, 0, false, false⟩, 0, .raised .modbusExc)] ∧
    (s.threads 1).results = [(⟨2, 200, 3, 0, false, false⟩, 1, .ok 1 2 (.regs [200, 201, 202]))] := by decide +kernel

/-- the hypotheses of `fair_schedule_finishes` are satisfiable: round robin, as many rounds as operations -/
example : (∀ t, 2 ≤ t → cexReqs t = []) ∧ totalWork .whole (init cexReqs false allOk) 2 ≤ 50 ∧
    (∀ r ∈ List.replicate 50 [0, 1], Covers 2 r) := by
  refine ⟨?_, by decide, ?_⟩
  · intro t ht
    have h0 : ¬ t = 0 := by omega
    have h1 : ¬ t = 1 := by omega
    simp [cexReqs, h0, h1]
  · intro r hr
    rw [List.eq_of_mem_replicate hr]
    intro t ht
    have : t = 0 ∨ t = 1 := by omega
    cases this with
    | inl h => subst h; simp
    | inr h => subst h; simp

end Pymodbus.Props.C15
